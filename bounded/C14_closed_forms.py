"""C14 bounded stand-in (NOT counted as proved): variational predictive q(f) and KL against dense float64 closed forms, on the real code.

Every (strategy x variational distribution) pair of the property is built on m <= 5 inducing points (grid strategy: 5 points in 1-d, 4 x 4 = 16
in 2-d, the smallest grids the cubic interpolation accepts), n <= 6 inputs, 1-d / 2-d inputs, batch ranks 0..2 of inducing points / variational
parameters / kernel hyper-parameters / data, with randomised variational parameters written into the public parameters
(variational_mean, chol_variational_covar, _variational_stddev, natural_vec, natural_mat, natural_tril_mat, lmc_coefficients).

ORACLE (independent of the code under test): the model's own kernel / mean are evaluated on the given points
(K_zz = covar_module(Z), K_xz = covar_module(X, Z), K_xx = covar_module(X), m_X = mean_module(X), m_Z = mean_module(Z)), everything else is dense
torch.linalg float64 written here:
    q(u) = N(m_u, S_u)                     unwhitened: (m_u, S_u) = what the parameters encode
                                           whitened (standard, batch-decoupled): u = m_Z + L e, L = chol(K_zz), e ~ N(m', S')
                                           CIQ: u = m_Z + K_zz^{1/2} e (symmetric square root, by eigendecomposition)
    q(f) = N(m_X + K_xz K_zz^-1 (m_u - m_Z),  K_xx - K_xz K_zz^-1 (K_zz - S_u) K_zz^-1 K_zx)
    KL   = 1/2 [tr(K_zz^-1 S_u) + (m_u - m_Z)' K_zz^-1 (m_u - m_Z) - M + logdet K_zz - logdet S_u]
    delta distributions: S_u = 0, and "KL" is the library's MAP convention -log p(point) in the strategy's OWN parameter space:
                        -log N(m_u; m_Z, K_zz) for the unwhitened strategy, -log N(m'; 0, I) for whitened ones (a true KL would be invariant
                        under the whitening bijection, a log density is not: the two differ by 1/2 logdet K_zz; not held against the code)
    grid interpolation: q(f) = N(W m_u, W S_u W'), W = Keys cubic-convolution weights computed here from the coordinates of
                        strategy.inducing_points (so the oracle does not depend on any index ordering convention); inputs are drawn where all
                        four cubic neighbours exist (the nearest-neighbour snapping at the grid boundary is not part of the property)
    orthogonally decoupled (Salimbeni et al. 2018, cited by the class as its definition): mean = base mean + (K_xg - K_xb K_bb^-1 K_bg) a,
                        covariance = base covariance, KL = base KL + 1/2 a' (K_gg - K_gb K_bb^-1 K_bg) a;   in addition a self-consistency check:
                        kl_divergence() against the exact KL( q(u_g, u_b) || p(u_g, u_b) ) of the q(f) the strategy itself returns on Z_g u Z_b.
    LMC: mean[n, t] = sum_q mu_q[n] a_q[t], cov[(n,t),(n',t')] = sum_q C_q[n,n'] a_q[t] a_q[t'], KL = sum_q KL_q; with task_indices the
         rows / columns (n, t_n); independent multitask: mean[n, t] = mu_t[n], block-diagonal covariance, KL = sum_t KL_t.

JITTER accounted for: all runs are under variational_cholesky_jitter(double_value=1e-10) and cholesky_jitter(double_value=1e-12).  The oracle
uses K_zz + 1e-10 I wherever the strategy documents a jitter_val on K_zz (standard, unwhitened, batch-decoupled, CIQ; the forward pass).  The
1e-10 some strategies also add to K_xx / to the LMC output covariance is NOT added by the oracle (it is below the tolerance).  Jitters that do
not come from the setting (UnwhitenedVariationalStrategy.prior_distribution: add_jitter() default 1e-3; GridInterpolationVariationalStrategy
.prior_distribution: hard-coded 1e-3) are NOT accounted for: the closed-form KL is against p(u) = N(m_Z, K_zz); the detail of such a violation
says whether the value matches the closed form with K_zz + 1e-3 I.

TOLERANCES: |got - want| <= 1e-6 * (1 + max|want|) element-wise everywhere (no looser tolerance is needed: CIQ is run at
num_contour_quadrature(40; 60 thorough), minres_tolerance = cg_tolerance = eval_cg_tolerance = 1e-12, and the kernel lengthscales are drawn relative
to the spacing of the inducing points so that cond(K_zz) <~ 1e3, where the quadrature error is ~1e-13).  One exception: the self-consistency check of
the orthogonally decoupled KL inverts the (m_g + m_b)-point kernel matrix and uses 1e-5.
Shapes: the mean must have the broadcast batch shape of (inducing points, parameters, kernel, data) + (n,), the covariance + (n, n); the KL must
broadcast to that batch shape (the value is constant along data-only batch dimensions); the KL of a multitask wrapper must have exactly the batch
shape left after summing out the latent / task dimension.  batch-decoupled: the class docstring writes the mean as k' K^-1 m, the class is a
subclass of the whitened strategy and the property says whitened strategies parameterise u = m_Z + L e: the whitened form is used.

Skipped (and why): delta distributions with the grid / batch-decoupled strategies (the constructors / forward document that they refuse them);
IndependentMultitaskVariationalStrategy on an un-batched base strategy (from_repeated_mvn: whether T copies sharing one q(u) count T KLs or one is
not documented); gradient claims (C15 / C19); NNVariationalStrategy (not listed by the property).
"""
from __future__ import annotations

import copy
import math
import time
import warnings


def run(tier="quick", seed=0, only=None):
    import torch
    import gpytorch
    from gpytorch import settings
    from gpytorch.distributions import MultivariateNormal as MVN
    from gpytorch import variational as V
    import linear_operator
    from engine.runner import classify_replay_exception

    warnings.filterwarnings("ignore")
    t0 = time.time()
    D = torch.double
    gen = torch.Generator().manual_seed(1000 + seed)
    torch.manual_seed(seed)
    ev, seen, violations, samples, skipped = 0, set(), [], [], []
    JIT = 1e-10
    thorough = tier != "quick"

    def rec(key, ok, detail="", inp=None):
        nonlocal ev
        ev += 1
        seen.add(key)
        if len(samples) < 3:
            samples.append({"case": key, "ok": bool(ok), "detail": str(detail)[:160]})
        if not ok and not any(v["key"] == key for v in violations):
            violations.append({"key": key, "input": inp or {"case": key}, "detail": str(detail), "entry": None})

    def guarded(key, fn, inp=None):
        try:
            fn()
        except Exception as e:  # noqa: BLE001
            r = classify_replay_exception(e)
            if r.get("violates"):
                rec(key, False, r["detail"][:700], inp)
            else:
                raise

    def randn(*shape):
        return torch.randn(tuple(int(v) for v in shape), generator=gen, dtype=D)

    def rand(*shape):
        return torch.rand(tuple(int(v) for v in shape), generator=gen, dtype=D)

    def T(a):
        return a.transpose(-1, -2)

    def eye(k):
        return torch.eye(k, dtype=D)

    def bshape(*shapes):
        return torch.broadcast_shapes(*[torch.Size(s) for s in shapes])

    def cmp(key, got, want, inp=None, tol=1e-6, exact_shape=True, extra=""):
        """element-wise |got - want| <= tol * (1 + max|want|); shape: equal (or broadcastable to want for KL values)"""
        got = got.detach()
        want = want.detach()
        if exact_shape and tuple(got.shape) != tuple(want.shape):
            rec(key, False, f"shape {tuple(got.shape)} but the closed form has shape {tuple(want.shape)} {extra}", inp)
            return False
        if not exact_shape:
            try:
                if bshape(got.shape, want.shape) != want.shape:
                    raise RuntimeError
                got = got.expand(want.shape)
            except RuntimeError:
                rec(key, False, f"shape {tuple(got.shape)} does not broadcast to the closed-form batch shape {tuple(want.shape)} {extra}", inp)
                return False
        if want.numel() == 0:
            rec(key, True, "empty", inp)
            return True
        scale = 1 + want.abs().max().item()
        finite = bool(torch.isfinite(got).all())
        err = (got - want).abs().max().item() if finite else float("nan")
        ok = finite and err <= tol * scale
        if ok:
            rec(key, True, f"max abs diff {err:.2e}", inp)
        else:
            idx = int((got - want).abs().flatten().nan_to_num(float("inf")).argmax())
            rec(key, False, f"max abs diff {err:.3e} (tolerance {tol * scale:.1e}); got {got.flatten()[idx].item():.10g} want "
                f"{want.flatten()[idx].item():.10g} at flat index {idx} of shape {tuple(want.shape)} {extra}", inp)
        return ok

    # ------------------------------------------------------------------ closed forms
    def kl_gauss(m1, S1, m0, S0):
        M = m1.size(-1)
        S0i = torch.linalg.inv(S0)
        dm = (m0 - m1).unsqueeze(-1)
        tr = (S0i @ S1).diagonal(dim1=-1, dim2=-2).sum(-1)
        quad = (T(dm) @ S0i @ dm).squeeze(-1).squeeze(-1)
        return 0.5 * (tr + quad - M + torch.linalg.slogdet(S0)[1] - torch.linalg.slogdet(S1)[1])

    def neg_logp(m1, m0, S0):
        M = m1.size(-1)
        dm = (m1 - m0).unsqueeze(-1)
        quad = (T(dm) @ torch.linalg.solve(S0, dm)).squeeze(-1).squeeze(-1)
        return 0.5 * (quad + torch.linalg.slogdet(S0)[1] + M * math.log(2 * math.pi))

    def push(mX, mZ, Kxx, Kxz, Kzz, mu, Su):
        A = Kxz @ torch.linalg.inv(Kzz)
        mean = mX + (A @ (mu - mZ).unsqueeze(-1)).squeeze(-1)
        cov = Kxx - A @ (Kzz - Su) @ T(A)
        return mean, cov

    def sym_sqrt(K):
        w, U = torch.linalg.eigh(K)
        return U @ torch.diag_embed(w.clamp_min(0).sqrt()) @ T(U)

    # ------------------------------------------------------------------ variational distributions
    DISTS = {
        "cholesky": V.CholeskyVariationalDistribution,
        "mean_field": V.MeanFieldVariationalDistribution,
        "delta": V.DeltaVariationalDistribution,
        "natural": V.NaturalVariationalDistribution,
        "tril_natural": V.TrilNaturalVariationalDistribution,
    }

    def spd(bp, m, lo=0.3):
        A = randn(*bp, m, m) * 0.6
        return A @ T(A) + lo * eye(m)

    def set_params(vd, dname, bp, m, variant="random"):
        """write random parameters through the public parameters; return the (mean, covariance) they encode (dense, computed here)
        and a json-able description"""
        with torch.no_grad():
            if dname == "cholesky":
                mean = randn(*bp, m)
                P = randn(*bp, m, m) * 0.7  # the upper triangle is documented as ignored
                if variant != "negative_diagonal":
                    P = P - torch.diag_embed(P.diagonal(dim1=-1, dim2=-2)) + torch.diag_embed(0.3 + rand(*bp, m))
                else:
                    P = P - torch.diag_embed(P.diagonal(dim1=-1, dim2=-2)) - torch.diag_embed(0.3 + rand(*bp, m))
                vd.variational_mean.copy_(mean)
                vd.chol_variational_covar.copy_(P)
                L = P.tril()
                return mean, L @ T(L), {"variational_mean": mean.tolist(), "chol_variational_covar": P.tolist()}
            if dname == "mean_field":
                mean = randn(*bp, m)
                sd = 0.3 + rand(*bp, m)
                if variant == "negative_diagonal":
                    sd = -sd
                vd.variational_mean.copy_(mean)
                vd._variational_stddev.copy_(sd)
                return mean, torch.diag_embed(sd ** 2), {"variational_mean": mean.tolist(), "_variational_stddev": sd.tolist()}
            if dname == "delta":
                mean = randn(*bp, m)
                vd.variational_mean.copy_(mean)
                return mean, None, {"variational_mean": mean.tolist()}
            if dname == "natural":
                prec = spd(bp, m, lo=0.5)
                vec = randn(*bp, m)
                vd.natural_vec.copy_(vec)
                vd.natural_mat.copy_(-0.5 * prec)
                S = torch.linalg.inv(prec)
                return (S @ vec.unsqueeze(-1)).squeeze(-1), S, {"natural_vec": vec.tolist(), "natural_mat": (-0.5 * prec).tolist()}
            if dname == "tril_natural":
                Tm = (randn(*bp, m, m) * 0.6).tril(-1) + torch.diag_embed(0.5 + rand(*bp, m))
                if variant == "negative_diagonal":
                    Tm = Tm - 2 * torch.diag_embed(Tm.diagonal(dim1=-1, dim2=-2))
                vec = randn(*bp, m)
                vd.natural_vec.copy_(vec)
                vd.natural_tril_mat.copy_(Tm)
                S = torch.linalg.inv(T(Tm) @ Tm)
                return (S @ vec.unsqueeze(-1)).squeeze(-1), S, {"natural_vec": vec.tolist(), "natural_tril_mat": Tm.tolist()}
        raise KeyError(dname)

    def set_gaussian(vd, dname, mean, S):
        """write the parameters that encode N(mean, S) (S symmetric positive definite; diagonal for mean_field)"""
        with torch.no_grad():
            if dname == "cholesky":
                vd.variational_mean.copy_(mean)
                vd.chol_variational_covar.copy_(torch.linalg.cholesky(S))
            elif dname == "mean_field":
                vd.variational_mean.copy_(mean)
                vd._variational_stddev.copy_(S.diagonal(dim1=-1, dim2=-2).sqrt())
            elif dname == "natural":
                P = torch.linalg.inv(S)
                vd.natural_vec.copy_((P @ mean.unsqueeze(-1)).squeeze(-1))
                vd.natural_mat.copy_(-0.5 * P)
            elif dname == "tril_natural":
                Lc = torch.linalg.cholesky(S)  # S = Lc Lc', precision = Lc^-T Lc^-1 = T' T with T = Lc^-1
                Tm = torch.linalg.inv(Lc)
                vd.natural_vec.copy_(torch.linalg.solve(S, mean.unsqueeze(-1)).squeeze(-1))
                vd.natural_tril_mat.copy_(Tm)
            else:
                raise KeyError(dname)

    # ------------------------------------------------------------------ models
    class GP(gpytorch.models.ApproximateGP):
        def __init__(self, build, bk, d, zero_mean=False):
            strat = build(self)
            super().__init__(strat)
            self.mean_module = gpytorch.means.ZeroMean() if zero_mean else gpytorch.means.ConstantMean(batch_shape=torch.Size(bk))
            self.covar_module = gpytorch.kernels.ScaleKernel(
                gpytorch.kernels.RBFKernel(ard_num_dims=d, batch_shape=torch.Size(bk)), batch_shape=torch.Size(bk))

        def forward(self, x):
            return MVN(self.mean_module(x), self.covar_module(x))

    def randomise_hypers(model, bk, d, m=3):
        with torch.no_grad():
            # lengthscales relative to the spacing of the inducing points: keeps cond(K_zz) <~ 1e3, so that the float64 closed forms
            # (and CIQ's quadrature) are accurate far below the tolerance
            spacing = 0.84 / max(m - 1, 1) if m > 1 else 0.5
            ls = spacing * (0.7 + 0.6 * rand(*bk, 1, d)) * (1.0 if d == 1 else 1.3)
            osc = 0.6 + rand(*bk)
            model.covar_module.base_kernel.lengthscale = ls
            model.covar_module.outputscale = osc
            desc = {"lengthscale": ls.tolist(), "outputscale": osc.tolist()}
            if hasattr(model.mean_module, "constant"):
                c = randn(*bk) * 0.7
                model.mean_module.constant.copy_(c)
                desc["mean_constant"] = c.tolist()
        return desc

    def spread_points(b, k, d, lo=0.0, hi=1.0):
        """k well separated points per batch element (keeps K_zz well conditioned)"""
        base = torch.linspace(0.08, 0.92, k, dtype=D) if k > 1 else torch.tensor([0.5], dtype=D)
        cols = []
        for j in range(d):
            perm = torch.stack([base[torch.randperm(k, generator=gen)] for _ in range(max(1, int(torch.Size(b).numel())))]).view(*b, k) \
                if j > 0 else base.expand(*b, k)
            cols.append(perm + 0.06 * (rand(*b, k) - 0.5))
        return lo + (hi - lo) * torch.stack(cols, -1)

    def mats(model, X, Z, B):
        """dense kernel / mean terms from the model's own modules, expanded to the batch shape B"""
        with torch.no_grad():
            Xb = X.expand(*B, *X.shape[-2:])
            Zb = Z.expand(*B, *Z.shape[-2:])
            Kzz = model.covar_module(Zb).to_dense()
            Kxz = model.covar_module(Xb, Zb).to_dense()
            Kxx = model.covar_module(Xb).to_dense()
            mX = model.mean_module(Xb)
            mZ = model.mean_module(Zb)
        ex = lambda a, k: a.expand(*B, *a.shape[-k:]).clone()
        return ex(mX, 1), ex(mZ, 1), ex(Kxx, 2), ex(Kxz, 2), ex(Kzz, 2)

    ctx_stack = lambda: (settings.variational_cholesky_jitter(double_value=JIT), settings.cholesky_jitter(double_value=1e-12),
                         linear_operator.settings.cholesky_jitter(double_value=1e-12))

    class ctx:
        def __init__(self, *extra):
            self.cs = list(ctx_stack()) + list(extra)

        def __enter__(self):
            for c in self.cs:
                c.__enter__()

        def __exit__(self, *a):
            for c in reversed(self.cs):
                c.__exit__(*a)
            return False

    def ciq_ctx(q=40):
        ls = linear_operator.settings
        return (ls.num_contour_quadrature(q), ls.minres_tolerance(1e-12), ls.cg_tolerance(1e-12), settings.eval_cg_tolerance(1e-12),
                ls.max_cg_iterations(2000))

    # ------------------------------------------------------------------ 1. distributions return what their parameters encode
    def section_distributions():
        for dname, cls in DISTS.items():
            for bp in [(), (2,), (3, 2)]:
                for m in ([1, 3, 5] if thorough else [1, 4]):
                    for variant in ("random", "negative_diagonal"):
                        if variant == "negative_diagonal" and dname in ("delta", "natural"):
                            continue
                        key = f"distribution/{dname}/batch{list(bp)}/m{m}/{variant}"
                        if only and only not in key:
                            continue

                        def one(dname=dname, cls=cls, bp=bp, m=m, variant=variant, key=key):
                            vd = cls(m, batch_shape=torch.Size(bp)).double()
                            mean, S, desc = set_params(vd, dname, bp, m, variant)
                            inp = {"distribution": cls.__name__, "num_inducing_points": m, "batch_shape": list(bp), "parameters": desc}
                            with torch.no_grad():
                                q = vd()
                            cmp(key + "/mean", q.mean, mean, inp)
                            if S is not None:
                                cmp(key + "/covariance", q.covariance_matrix, S, inp)
                                cmp(key + "/variance", q.variance, S.diagonal(dim1=-1, dim2=-2), inp)
                                # the KL against a standard normal uses logdet / trace of what was returned
                                want = kl_gauss(mean, S, torch.zeros_like(mean), eye(m).expand(*bp, m, m))
                                got = torch.distributions.kl.kl_divergence(q, MVN(torch.zeros_like(mean), linear_operator.operators.DiagLinearOperator(torch.ones_like(mean))))
                                cmp(key + "/kl_to_standard_normal", got, want, inp)
                            else:
                                rec(key + "/is_delta", isinstance(q, gpytorch.distributions.Delta), type(q).__name__, inp)
                        guarded(key, one)

    # ------------------------------------------------------------------ 2. plain strategies
    STRATS = {
        "standard": (V.VariationalStrategy, "chol"),
        "unwhitened": (V.UnwhitenedVariationalStrategy, "none"),
        "ciq": (V.CiqVariationalStrategy, "sym"),
    }
    BATCH_CFGS = [
        # tag, bz (inducing), bp (parameters), bk (kernel / mean), bx (data)
        ("rank0", (), (), (), ()),
        ("rank1_all", (2,), (2,), (2,), (2,)),
        ("rank1_params_only", (), (2,), (), ()),
        ("rank1_inducing_only", (2,), (), (), ()),
        ("rank1_data_only", (), (), (), (2,)),
        ("rank1_kernel_only", (), (), (2,), ()),
        ("rank1_params_kernel", (), (2,), (2,), ()),
        ("rank2_all", (3, 2), (3, 2), (3, 2), (3, 2)),
        ("rank2_params_only", (), (3, 2), (), ()),
        ("rank2_data_only", (), (), (), (3, 2)),
        ("rank2_inducing_only", (3, 2), (), (), ()),
        ("rank2_mixed", (2,), (3, 1), (3, 2), (1, 2)),
        ("rank2_params_rank1_data", (), (3, 2), (), (2,)),
    ]

    def whiten_map(kind, KzzJ, mZ, mp, Sp):
        """(m_u, S_u) described by the whitened parameters (m', S')"""
        if kind == "none":
            return mp, Sp
        R = torch.linalg.cholesky(KzzJ) if kind == "chol" else sym_sqrt(KzzJ)
        mu = mZ + (R @ mp.unsqueeze(-1)).squeeze(-1)
        Su = None if Sp is None else R @ Sp @ T(R)
        return mu, Su

    def build_plain(sname, dname, bz, bp, bk, m, d, zero_mean=False, mean_init_std=1e-3):
        scls, kind = STRATS[sname]
        Z = spread_points(bz, m, d)
        vd = DISTS[dname](m, batch_shape=torch.Size(bp), mean_init_std=mean_init_std)
        model = GP(lambda mod: scls(mod, Z, vd, learn_inducing_locations=True), bk, d, zero_mean=zero_mean).double()
        hyp = randomise_hypers(model, bk, d, m)
        return model, Z, kind, hyp

    def describe(sname, dname, tag, bz, bp, bk, bx, m, n, d, Z, X, hyp, pdesc):
        return {"strategy": sname, "distribution": dname, "batch": tag, "inducing_batch": list(bz), "parameter_batch": list(bp),
                "kernel_batch": list(bk), "data_batch": list(bx), "m": m, "n": n, "d": d, "inducing_points": Z.tolist(), "inputs": X.tolist(),
                "kernel": "ScaleKernel(RBFKernel(ard_num_dims=d)), ConstantMean", "hyperparameters": hyp, "variational_parameters": pdesc,
                "settings": {"variational_cholesky_jitter": JIT, "cholesky_jitter": 1e-12}}

    def closed_plain(model, kind, X, Z, B, mp, Sp, jit=JIT):
        mX, mZ, Kxx, Kxz, Kzz = mats(model, X, Z, B)
        m = Kzz.size(-1)
        KzzJ = Kzz + jit * eye(m)
        mpB = mp.expand(*B, m)
        SpB = None if Sp is None else Sp.expand(*B, m, m)
        mu, Su = whiten_map(kind, KzzJ, mZ, mpB, SpB)
        Su0 = torch.zeros_like(KzzJ) if Su is None else Su
        mean, cov = push(mX, mZ, Kxx, Kxz, KzzJ, mu, Su0)
        return dict(mean=mean, cov=cov, mu=mu, Su=Su, mZ=mZ, Kzz=Kzz, KzzJ=KzzJ, mX=mX, Kxx=Kxx, Kxz=Kxz, kind=kind, mp=mpB)

    def closed_kl(c, Kz, BK):
        """KL(q(u) || N(m_Z, Kz)) in the full batch shape (constant along data-only batch dimensions); BK unused"""
        if c["Su"] is None and c["kind"] != "none":
            # delta distribution under a whitened strategy: the MAP convention in the strategy's own (whitened) parameter space
            full = neg_logp(c["mp"], torch.zeros_like(c["mp"]), eye(c["mp"].size(-1)).expand(*c["mp"].shape, c["mp"].size(-1)))
        elif c["Su"] is None:
            full = neg_logp(c["mu"], c["mZ"], Kz)
        else:
            full = kl_gauss(c["mu"], c["Su"], c["mZ"], Kz)
        return full

    def section_plain():
        sizes = [(3, 4, 1), (5, 6, 2)] if not thorough else [(1, 1, 1), (3, 4, 1), (4, 5, 2), (5, 6, 2), (5, 1, 1), (2, 6, 2)]
        for sname in STRATS:
            for dname in DISTS:
                for (tag, bz, bp, bk, bx) in BATCH_CFGS:
                    for (m, n, d) in (sizes if tag in ("rank0", "rank1_all", "rank2_all") or thorough else sizes[:1]):
                        base = f"{sname}/{dname}/{tag}/m{m}n{n}d{d}"
                        if only and only not in base:
                            continue
                        guarded(base, lambda a=(sname, dname, tag, bz, bp, bk, bx, m, n, d, base): plain_case(*a))
        # edge sizes at rank 0
        if not thorough:
            for sname in STRATS:
                for dname in ("cholesky", "delta", "natural"):
                    for (m, n, d) in [(1, 1, 1), (5, 1, 2), (1, 6, 1)]:
                        base = f"{sname}/{dname}/rank0/m{m}n{n}d{d}"
                        if only and only not in base:
                            continue
                        guarded(base, lambda a=(sname, dname, "rank0", (), (), (), (), m, n, d, base): plain_case(*a))

    def plain_case(sname, dname, tag, bz, bp, bk, bx, m, n, d, base):
        extra = ciq_ctx(40 if not thorough else 60) if sname == "ciq" else ()
        tol = 1e-6
        with ctx(*extra):
            model, Z, kind, hyp = build_plain(sname, dname, bz, bp, bk, m, d)
            strat = model.variational_strategy
            vd = strat._variational_distribution
            mp, Sp, pdesc = set_params(vd, dname, bp, m)
            strat.variational_params_initialized.fill_(1)
            X = rand(*bx, n, d)
            inp = describe(sname, dname, tag, bz, bp, bk, bx, m, n, d, Z, X, hyp, pdesc)
            B = bshape(bz, bp, bk, bx)
            BK = bshape(bz, bp, bk)
            c = closed_plain(model, kind, X, Z, B, mp, Sp)
            ngd_ciq = sname == "ciq" and dname == "natural"

            # evaluation mode, fresh model: full covariance
            ev_model = copy.deepcopy(model)
            ev_model.eval()

            def eval_mode():
                with torch.no_grad():
                    out = ev_model(X)
                    mean, cov = out.mean, out.covariance_matrix
                    var = out.variance
                cmp(base + "/eval/mean", mean, c["mean"], inp, tol)
                cmp(base + "/eval/variance", var, c["cov"].diagonal(dim1=-1, dim2=-2), inp, tol)
                cmp(base + "/eval/covariance", cov, c["cov"], inp, tol,
                    extra="[the returned covariance is diagonal: CiqVariationalStrategy with a NaturalVariationalDistribution only computes variances]"
                    if ngd_ciq and bool((cov - torch.diag_embed(cov.diagonal(dim1=-1, dim2=-2))).abs().max() == 0) and cov.size(-1) > 1 else "")
            guarded(base + "/eval", eval_mode, inp)

            def kl_cold():
                # kl_divergence() of a model that has only been evaluated in evaluation mode
                with torch.no_grad():
                    kl = ev_model.variational_strategy.kl_divergence()
                want = closed_kl(c, c["Kzz"], BK)
                extra_txt = ""
                if not bool(torch.isfinite(kl).all()) or (kl.expand(want.shape) - want).abs().max() > tol * (1 + want.abs().max()):
                    for jv in (JIT, 1e-3):
                        alt = closed_kl(c, c["Kzz"] + jv * eye(m), BK)
                        try:
                            if (kl.expand(alt.shape) - alt).abs().max() <= tol * (1 + alt.abs().max()):
                                extra_txt = f"[equals the closed form with p(u) = N(m_Z, K_zz + {jv:g} I)]"
                        except RuntimeError:
                            pass
                cmp(base + "/eval/kl_divergence", kl, want, inp, tol, exact_shape=False, extra=extra_txt)
            guarded(base + "/eval/kl_divergence", kl_cold, inp)

            # inputs equal to the inducing points (the unwhitened strategy has a dedicated branch): q(f) = q(u)
            if sname == "unwhitened" and tuple(bx) == tuple(bz):
                def at_z():
                    cz = closed_plain(model, kind, Z, Z, bshape(bz, bp, bk), mp, Sp)
                    mod = copy.deepcopy(model)
                    mod.eval()
                    with torch.no_grad():
                        out = mod(Z.clone())
                        mean, cov = out.mean, out.covariance_matrix
                    inp_z = dict(inp, inputs="the inducing points themselves")
                    cmp(base + "/inputs_equal_inducing_points/eval/mean", mean.expand(cz["mean"].shape) if bshape(mean.shape, cz["mean"].shape) == cz["mean"].shape else mean, cz["mean"], inp_z, tol)
                    cmp(base + "/inputs_equal_inducing_points/eval/covariance", cov.expand(cz["cov"].shape) if bshape(cov.shape, cz["cov"].shape) == cz["cov"].shape else cov, cz["cov"], inp_z, tol)
                guarded(base + "/inputs_equal_inducing_points/eval", at_z, inp)

            # training mode: means and variances, KL after the forward pass (the ELBO order of calls)
            tr_model = copy.deepcopy(model)
            tr_model.train()

            def train_mode():
                with torch.no_grad():
                    out = tr_model(X)
                    mean, var = out.mean, out.variance
                cmp(base + "/train/mean", mean, c["mean"], inp, tol)
                cmp(base + "/train/variance", var, c["cov"].diagonal(dim1=-1, dim2=-2), inp, tol)
                with torch.no_grad():
                    kl = tr_model.variational_strategy.kl_divergence()
                want = closed_kl(c, c["KzzJ"], BK)
                cmp(base + "/train/kl_divergence", kl, want, inp, tol, exact_shape=False)
            guarded(base + "/train", train_mode, inp)

    def run_model(model, X, mode, **kw):
        """(mean, dense covariance or None, variance, distribution) of a deep copy of the model evaluated in `mode`"""
        mod = copy.deepcopy(model)
        mod.train() if mode == "train" else mod.eval()
        with torch.no_grad():
            out = mod(X, **kw)
            mean, var = out.mean, out.variance
            cov = out.covariance_matrix if mode == "eval" else None
        return mod, mean, cov, var, out

    def init_flag(strat):
        while hasattr(strat, "base_variational_strategy") and not isinstance(strat, V.OrthogonallyDecoupledVariationalStrategy):
            strat = strat.base_variational_strategy
        strat.variational_params_initialized.fill_(1)

    # ------------------------------------------------------------------ 3. whitened and unwhitened strategies describing the same q(u)
    def section_same_qu():
        for wname in ("standard", "ciq"):
            for dname in ("cholesky", "natural", "tril_natural"):
                for (tag, bz, bp, bk, bx) in [c for c in BATCH_CFGS if c[0] in ("rank0", "rank1_all", "rank1_params_only", "rank2_all", "rank2_mixed")]:
                    m, n, d = (4, 5, 2)
                    base = f"same_qu/{wname}_vs_unwhitened/{dname}/{tag}/m{m}n{n}d{d}"
                    if only and only not in base:
                        continue
                    if wname == "ciq" and dname == "natural":
                        continue  # no full covariance / KL there (see ciq/natural/...)

                    def one(wname=wname, dname=dname, tag=tag, bz=bz, bp=bp, bk=bk, bx=bx, m=m, n=n, d=d, base=base):
                        extra = ciq_ctx(40) if wname == "ciq" else ()
                        tol = 1e-6
                        with ctx(*extra):
                            wm, Z, kind, hyp = build_plain(wname, dname, bz, bp, bk, m, d)
                            mp, Sp, pdesc = set_params(wm.variational_strategy._variational_distribution, dname, bp, m)
                            init_flag(wm.variational_strategy)
                            BK = bshape(bz, bp, bk)
                            X = rand(*bx, n, d)
                            c = closed_plain(wm, kind, X, Z, BK, mp, Sp)
                            vd_u = DISTS[dname](m, batch_shape=BK)
                            um = GP(lambda mod: V.UnwhitenedVariationalStrategy(mod, Z, vd_u, learn_inducing_locations=True), bk, d).double()
                            um.mean_module.load_state_dict(wm.mean_module.state_dict())
                            um.covar_module.load_state_dict(wm.covar_module.state_dict())
                            set_gaussian(vd_u, dname, c["mu"], c["Su"])
                            init_flag(um.variational_strategy)
                            inp = describe(wname + " vs unwhitened", dname, tag, bz, bp, bk, bx, m, n, d, Z, X, hyp, pdesc)
                            inp["unwhitened_q_u"] = {"mean": c["mu"].tolist(), "covariance": c["Su"].tolist()}
                            _, wmean, wcov, _, _ = run_model(wm, X, "eval")
                            _, umean, ucov, _, _ = run_model(um, X, "eval")
                            cmp(base + "/eval/mean", wmean, umean, inp, tol)
                            cmp(base + "/eval/covariance", wcov, ucov, inp, tol)
                            wt, wmean, _, wvar, _ = run_model(wm, X, "train")
                            ut, umean, _, uvar, _ = run_model(um, X, "train")
                            cmp(base + "/train/mean", wmean, umean, inp, tol)
                            cmp(base + "/train/variance", wvar, uvar, inp, tol)
                            with torch.no_grad():
                                klw = wt.variational_strategy.kl_divergence()
                                klu = ut.variational_strategy.kl_divergence()
                            B = bshape(BK, bx)
                            cmp(base + "/train/kl_divergence", klw.expand(bshape(klw.shape, B)), klu.expand(bshape(klu.shape, B)), inp, tol)
                    guarded(base, one)

    # ------------------------------------------------------------------ 4. q(u) = p(u)  =>  q(f) = prior, KL = 0
    def section_prior():
        for sname in STRATS:
            for dname in ("cholesky", "mean_field", "natural", "tril_natural"):
                for (tag, bz, bp, bk, bx) in [c for c in BATCH_CFGS if c[0] in ("rank0", "rank1_all", "rank2_mixed")]:
                    for how in ("parameters", "library_initialisation"):
                        m, n, d = (4, 5, 2)
                        base = f"q_equals_p/{sname}/{dname}/{tag}/{how}"
                        if only and only not in base:
                            continue
                        if sname == "unwhitened" and dname == "mean_field":
                            continue  # a diagonal S cannot equal K_zz

                        def one(sname=sname, dname=dname, tag=tag, bz=bz, bp=bp, bk=bk, bx=bx, how=how, m=m, n=n, d=d, base=base):
                            extra = ciq_ctx(40) if sname == "ciq" else ()
                            tol = 1e-6
                            with ctx(*extra):
                                BK = bshape(bz, bp, bk)
                                bpp = BK if sname == "unwhitened" else bp
                                model, Z, kind, hyp = build_plain(sname, dname, bz, bpp, bk, m, d, mean_init_std=0.0)
                                X = rand(*bx, n, d)
                                B = bshape(BK, bx)
                                mX, mZ, Kxx, Kxz, Kzz = mats(model, X, Z, B)
                                vd = model.variational_strategy._variational_distribution
                                if how == "parameters":
                                    if sname == "unwhitened":
                                        mZk, Kk = mats(model, X, Z, BK)[1], mats(model, X, Z, BK)[4]
                                        set_gaussian(vd, dname, mZk, Kk + JIT * eye(m))
                                    else:
                                        set_gaussian(vd, dname, torch.zeros(*bpp, m, dtype=D), eye(m).expand(*bpp, m, m))
                                    init_flag(model.variational_strategy)
                                inp = describe(sname, dname, tag, bz, bpp, bk, bx, m, n, d, Z, X, hyp,
                                               "q(u) = p(u) written into the parameters" if how == "parameters" else
                                               "untouched: the strategy initialises q(u) from the prior on the first call (mean_init_std=0)")
                                tr, mean, _, var, _ = run_model(model, X, "train")
                                with torch.no_grad():
                                    kl = tr.variational_strategy.kl_divergence()
                                cmp(base + "/train/mean", mean, mX, inp, tol)
                                cmp(base + "/train/variance", var, Kxx.diagonal(dim1=-1, dim2=-2), inp, tol)
                                cmp(base + "/train/kl_divergence", kl, torch.zeros(B, dtype=D), inp, tol, exact_shape=False)
                                if how == "library_initialisation":
                                    tr.eval()
                                    with torch.no_grad():
                                        out = tr(X)
                                        mean, cov = out.mean, out.covariance_matrix
                                else:
                                    _, mean, cov, _, _ = run_model(model, X, "eval")
                                cmp(base + "/eval/mean", mean, mX, inp, tol)
                                cmp(base + "/eval/covariance", cov, Kxx, inp, tol)
                        guarded(base, one)
        # the distributions' own initialisation from a given prior N(mean, S)
        for dname, cls in DISTS.items():
            for bp in [(), (2,), (3, 2)]:
                m = 4
                key = f"distribution/{dname}/batch{list(bp)}/m{m}/initialize_from_prior"
                if only and only not in key:
                    continue

                def one(dname=dname, cls=cls, bp=bp, m=m, key=key):
                    vd = cls(m, batch_shape=torch.Size(bp), mean_init_std=0.0).double()
                    mean, S = randn(*bp, m), spd(bp, m)
                    inp = {"distribution": cls.__name__, "batch_shape": list(bp), "prior_mean": mean.tolist(), "prior_covariance": S.tolist(), "mean_init_std": 0.0}
                    with torch.no_grad():
                        vd.initialize_variational_distribution(MVN(mean, S))
                        q = vd()
                    cmp(key + "/mean", q.mean, mean, inp)
                    if dname == "mean_field":
                        cmp(key + "/variance", q.variance, S.diagonal(dim1=-1, dim2=-2), inp)
                    elif dname != "delta":
                        cmp(key + "/covariance", q.covariance_matrix, S, inp)
                guarded(key, one)

    # ------------------------------------------------------------------ 5. batch-decoupled strategy
    def section_batch_decoupled():
        cfgs = [
            # tag, vd batch b, mean_var_batch_dim, kernel batch, inducing batch, data batch
            ("shared_hypers/rank0", (), None, (), (), ()),
            ("shared_hypers/rank0_singleton_kernel", (), None, (1,), (), ()),
            ("shared_hypers/rank1", (3,), None, (3, 1), (3,), (3,)),
            ("shared_hypers/rank1_params_only", (3,), None, (), (), ()),
            ("shared_hypers/rank0_data_rank1", (), None, (), (), (2,)),
            ("shared_hypers/rank0_data_rank1_of_3", (), None, (), (), (3,)),
            ("shared_hypers/rank2", (3, 2), None, (3, 2, 1), (), (3, 2)),
            ("separate_hypers/rank0", (), -1, (2,), (), ()),
            ("separate_hypers/rank1", (3,), -1, (3, 2), (3,), (3,)),
            ("separate_hypers/rank1_docs_example", (3,), -1, (3, 2), (), ()),
            ("separate_hypers/rank2", (2, 3), -1, (2, 3, 2), (), (2, 3)),
            ("separate_hypers/rank0_data_rank1", (), -1, (2,), (), (2,)),
        ]
        for dname in ("cholesky", "mean_field", "natural", "tril_natural"):
            for (tag, b, mvd, bk, bz, bx) in cfgs:
                for (m, n, d) in ([(3, 4, 1), (5, 6, 2)] if tag.endswith("rank0") or thorough else [(4, 5, 2)]):
                    base = f"batch_decoupled/{dname}/{tag}/m{m}n{n}d{d}"
                    if only and only not in base:
                        continue

                    def one(dname=dname, tag=tag, b=b, mvd=mvd, bk=bk, bz=bz, bx=bx, m=m, n=n, d=d, base=base):
                        with ctx():
                            Z0 = spread_points(bz, m, d)
                            vd = DISTS[dname](m, batch_shape=torch.Size(b))
                            model = GP(lambda mod: V.BatchDecoupledVariationalStrategy(mod, Z0, vd, learn_inducing_locations=True, mean_var_batch_dim=mvd), bk, d).double()
                            hyp = randomise_hypers(model, bk, d, m)
                            strat = model.variational_strategy
                            # the two copies of the inducing points are separate entries of the public parameter: move them apart
                            with torch.no_grad():
                                strat.inducing_points.add_(0.03 * randn(*strat.inducing_points.shape))
                            Zfull = strat.inducing_points.detach().clone()  # (*bz, 2, m, d)
                            Zmu, Zsig = Zfull.select(-3, 0), Zfull.select(-3, 1)
                            mp, Sp, pdesc = set_params(vd, dname, b, m)
                            init_flag(strat)
                            X = rand(*bx, n, d)
                            B = bshape(b, bz, bx, bk[:-1] if len(bk) else ())

                            def sub_mats(idx, Zs):
                                # evaluate with an explicit mean/var batch dimension of size 2 (or 1), then select
                                Bf = bshape(tuple(B) + (1,), bk) if len(bk) else tuple(B) + (1,)
                                mXf, mZf, Kxxf, Kxzf, Kzzf = mats(model, X.unsqueeze(-3), Zs.unsqueeze(-3), Bf)
                                sel = lambda t, k: t.select(-1 - k, idx if t.size(-1 - k) > 1 else 0)
                                return sel(mXf, 1), sel(mZf, 1), sel(Kxxf, 2), sel(Kxzf, 2), sel(Kzzf, 2)

                            mXm, _, _, Kxz_m, Kzz_m = sub_mats(0, Zmu)
                            _, _, Kxx_s, Kxz_s, Kzz_s = sub_mats(1, Zsig)
                            Lm = torch.linalg.cholesky(Kzz_m + JIT * eye(m))
                            Ls = torch.linalg.cholesky(Kzz_s + JIT * eye(m))
                            Am = Kxz_m @ torch.linalg.inv(T(Lm))
                            As = Kxz_s @ torch.linalg.inv(T(Ls))
                            want_mean = mXm + (Am @ mp.expand(*B, m).unsqueeze(-1)).squeeze(-1)
                            want_cov = Kxx_s + As @ (Sp.expand(*B, m, m) - eye(m)) @ T(As)
                            want_kl = kl_gauss(mp, Sp, torch.zeros_like(mp), eye(m).expand(*b, m, m))
                            inp = {"strategy": "BatchDecoupledVariationalStrategy", "mean_var_batch_dim": mvd, "distribution": dname, "parameter_batch": list(b),
                                   "kernel_batch": list(bk), "data_batch": list(bx), "inducing_points_parameter": Zfull.tolist(), "inputs": X.tolist(),
                                   "hyperparameters": hyp, "variational_parameters": pdesc, "settings": {"variational_cholesky_jitter": JIT}}

                            def ev_():
                                _, mean, cov, var, _ = run_model(model, X, "eval")
                                cmp(base + "/eval/mean", mean, want_mean, inp)
                                cmp(base + "/eval/covariance", cov, want_cov, inp)
                            guarded(base + "/eval", ev_, inp)

                            def tr_():
                                tr, mean, _, var, _ = run_model(model, X, "train")
                                cmp(base + "/train/mean", mean, want_mean, inp)
                                cmp(base + "/train/variance", var, want_cov.diagonal(dim1=-1, dim2=-2), inp)
                                with torch.no_grad():
                                    kl = tr.variational_strategy.kl_divergence()
                                off = (kl.expand(want_kl.shape) - want_kl) if bshape(kl.shape, want_kl.shape) == want_kl.shape else None
                                extra = ""
                                if off is not None and (off - 0.5 * m * math.log(2 * math.pi)).abs().max() < 1e-8:
                                    extra = f"[equals the closed form + (M/2) log(2 pi) = + {0.5 * m * math.log(2 * math.pi):.6f}: the mean part is scored as -log N(m; 0, I)]"
                                cmp(base + "/train/kl_divergence", kl, want_kl, inp, exact_shape=False, extra=extra)
                            guarded(base + "/train", tr_, inp)
                    guarded(base, one)

    # ------------------------------------------------------------------ 6. orthogonally decoupled strategy
    def section_orthogonal():
        cfgs = [("rank0", (), (), (), ()), ("rank1_all", (2,), (2,), (2,), (2,)), ("rank1_params_only", (), (2,), (), ()),
                ("rank2_all", (3, 2), (3, 2), (3, 2), (3, 2)), ("rank1_data_only", (), (), (), (2,))]
        for bname in ("standard", "unwhitened"):
            for dname in ("cholesky", "mean_field", "natural", "tril_natural", "delta"):
                for (tag, bz, bp, bk, bx) in cfgs:
                    for (mb, mg, n, d) in ([(3, 3, 4, 2)] if not thorough else [(3, 3, 4, 2), (2, 5, 6, 1), (5, 2, 3, 2)]):
                        base = f"orthogonally_decoupled/base_{bname}/{dname}/{tag}/mb{mb}mg{mg}n{n}d{d}"
                        if only and only not in base:
                            continue
                        if not thorough and dname in ("mean_field", "tril_natural", "delta") and tag not in ("rank0", "rank1_all"):
                            continue
                        guarded(base, lambda a=(bname, dname, tag, bz, bp, bk, bx, mb, mg, n, d, base): orth_case(*a))

    def orth_case(bname, dname, tag, bz, bp, bk, bx, mb, mg, n, d, base):
        with ctx():
            scls, kind = STRATS[bname]
            Zall = spread_points(bz, mb + mg, d)
            perm = torch.randperm(mb + mg, generator=gen)
            Zb, Zg = Zall[..., perm[:mb], :], Zall[..., perm[mb:], :]
            vdb = DISTS[dname](mb, batch_shape=torch.Size(bp))
            vdg = V.DeltaVariationalDistribution(mg, batch_shape=torch.Size(bp))
            model = GP(lambda mod: V.OrthogonallyDecoupledVariationalStrategy(scls(mod, Zb, vdb, learn_inducing_locations=True), Zg, vdg), bk, d).double()
            hyp = randomise_hypers(model, bk, d, mb + mg)
            strat = model.variational_strategy
            mp, Sp, pdesc = set_params(vdb, dname, bp, mb)
            a, _, adesc = set_params(vdg, "delta", bp, mg)
            strat.variational_params_initialized.fill_(1)
            strat.base_variational_strategy.variational_params_initialized.fill_(1)
            X = rand(*bx, n, d)
            B = bshape(bz, bp, bk, bx)
            inp = {"strategy": f"OrthogonallyDecoupledVariationalStrategy({scls.__name__}, DeltaVariationalDistribution)", "base_distribution": dname,
                   "batch": tag, "covariance_inducing_points": Zb.tolist(), "mean_inducing_points": Zg.tolist(), "inputs": X.tolist(),
                   "hyperparameters": hyp, "base_variational_parameters": pdesc, "mean_variational_parameters": adesc,
                   "settings": {"variational_cholesky_jitter": JIT}}
            # base q on the joint points P = [X; Z_g; Z_b]
            P = torch.cat([X.expand(*B, n, d), Zg.expand(*B, mg, d), Zb.expand(*B, mb, d)], -2)
            c = closed_plain(model, kind, P, Zb, B, mp, Sp)
            mu0, Sig = c["mean"], c["cov"]
            Kpp, Kpb, Kbb = c["Kxx"], c["Kxz"], c["KzzJ"]
            aB = a.expand(*B, mg).unsqueeze(-1)
            gi = slice(n, n + mg)
            Cond = Kpp[..., :, gi] - Kpb @ torch.linalg.solve(Kbb, T(Kpb[..., gi, :]))  # K_.g - K_.b K_bb^-1 K_bg
            want_mean = (mu0.unsqueeze(-1) + Cond @ aB).squeeze(-1)[..., :n]
            want_cov = Sig[..., :n, :n]
            kl_base = closed_kl(c, c["KzzJ"], None)
            want_kl = kl_base + 0.5 * (T(aB) @ Cond[..., gi, :] @ aB).squeeze(-1).squeeze(-1)
            # what the code's own parameterisation would give (only used to annotate a mismatch)
            coded_mean = (mu0.unsqueeze(-1) + Sig[..., :, gi] @ aB).squeeze(-1)
            coded_kl = kl_base + 0.5 * (T(aB) @ Sig[..., gi, gi] @ aB).squeeze(-1).squeeze(-1)

            def note(got, alt):
                try:
                    return "[equals base mean / KL with the base POSTERIOR covariance Cov_q(., Z_g) in place of K_.g - K_.b K_bb^-1 K_bg]" \
                        if (got.expand(alt.shape) - alt).abs().max() <= 1e-6 * (1 + alt.abs().max()) else ""
                except RuntimeError:
                    return ""

            def ev_():
                _, mean, cov, var, _ = run_model(model, X, "eval")
                cmp(base + "/eval/mean", mean, want_mean, inp, extra=note(mean, coded_mean[..., :n]))
                cmp(base + "/eval/covariance", cov, want_cov, inp)
            guarded(base + "/eval", ev_, inp)

            def tr_():
                tr, mean, _, var, _ = run_model(model, X, "train")
                cmp(base + "/train/mean", mean, want_mean, inp, extra=note(mean, coded_mean[..., :n]))
                cmp(base + "/train/variance", var, want_cov.diagonal(dim1=-1, dim2=-2), inp)
                with torch.no_grad():
                    kl = tr.variational_strategy.kl_divergence()
                cmp(base + "/train/kl_divergence", kl, want_kl, inp, exact_shape=False, extra=note(kl, coded_kl))
                # self-consistency: the exact KL( q(u) || p(u) ) on u = f(Z_g u Z_b) of the q the strategy itself returns there
                if dname != "delta":
                    Zj = P[..., n:, :]
                    _, mj, Sj, _, _ = run_model(model, Zj, "eval")
                    mJ, _, KJ, _, _ = mats(model, Zj, Zj, B)
                    exact = kl_gauss(mj.expand(*B, mg + mb), Sj.expand(*B, mg + mb, mg + mb), mJ, KJ)
                    cmp(base + "/train/kl_divergence_vs_exact_kl_of_returned_q", kl, exact, inp, tol=1e-5, exact_shape=False)
            guarded(base + "/train", tr_, inp)

    # ------------------------------------------------------------------ 7. grid interpolation strategy
    def keys_weight(u):
        u = u.abs()
        w1 = (1.5 * u - 2.5) * u * u + 1
        w2 = ((-0.5 * u + 2.5) * u - 4) * u + 2
        return torch.where(u <= 1, w1, torch.where(u < 2, w2, torch.zeros_like(u)))

    def section_grid():
        cfgs = [("rank0", (), ()), ("rank1_params", (2,), ()), ("rank1_data", (), (2,)), ("rank1_all", (2,), (2,)), ("rank2_all", (3, 2), (3, 2)),
                ("rank2_params_rank1_data", (3, 2), (2,))]
        grids = [("1d_grid5", 5, [(0.0, 1.0)]), ("2d_grid4x4_same_bounds", 4, [(0.0, 1.0), (0.0, 1.0)]), ("2d_grid4x4", 4, [(0.0, 1.0), (-1.0, 2.0)])]
        for gname, gs, bounds in grids:
            for dname in ("cholesky", "mean_field", "natural", "tril_natural"):
                for (tag, bp, bx) in cfgs:
                    base = f"grid_interpolation/{gname}/{dname}/{tag}"
                    if only and only not in base:
                        continue
                    if not thorough and gname != "1d_grid5" and (dname in ("mean_field", "tril_natural") or tag not in ("rank0", "rank1_all")):
                        continue
                    guarded(base, lambda a=(gname, gs, bounds, dname, tag, bp, bx, base): grid_case(*a))

    def grid_case(gname, gs, bounds, dname, tag, bp, bx, base):
        d = len(bounds)
        m = gs ** d
        n = 5
        old = torch.get_default_dtype()
        torch.set_default_dtype(torch.float64)  # the strategy builds its grid in the default dtype; float64 keeps the grid exact
        try:
            with ctx():
                vd = DISTS[dname](m, batch_shape=torch.Size(bp))
                model = GP(lambda mod: V.GridInterpolationVariationalStrategy(mod, gs, bounds, vd), (), d).double()
        finally:
            torch.set_default_dtype(old)
        with ctx():
            hyp = randomise_hypers(model, (), d, 2)
            with torch.no_grad():  # lengthscales relative to the grid spacing of each dimension (keeps K_zz well conditioned)
                ext = torch.tensor([(hi - lo) * gs / ((gs - 2.0) * (gs - 1.0)) for lo, hi in bounds], dtype=D)
                model.covar_module.base_kernel.lengthscale = (0.7 + 0.6 * rand(1, d)) * ext
                hyp["lengthscale"] = model.covar_module.base_kernel.lengthscale.tolist()
            strat = model.variational_strategy
            Z = strat.inducing_points.detach().clone()
            mu, Su, pdesc = set_params(vd, dname, bp, m)
            init_flag(strat)
            lo = torch.tensor([b[0] for b in bounds], dtype=D)
            hi = torch.tensor([b[1] for b in bounds], dtype=D)
            X = lo + (hi - lo) * (0.2 + 0.6 * rand(*bx, n, d))  # all four cubic neighbours exist there
            B = bshape(bp, bx)
            # interpolation weights from the coordinates of the inducing points
            W = torch.ones(*bx, n, m, dtype=D)
            for j in range(d):
                g = torch.unique(Z[:, j])  # sorted
                h = (g[-1] - g[0]) / (g.numel() - 1)
                W = W * keys_weight((X[..., :, j].unsqueeze(-1) - Z[:, j]) / h)
            W = W.expand(*B, n, m)
            want_mean = (W @ mu.expand(*B, m).unsqueeze(-1)).squeeze(-1)
            want_cov = W @ Su.expand(*B, m, m) @ T(W)
            mX, mZ, Kxx, Kxz, Kzz = mats(model, X, Z, B)
            want_kl = kl_gauss(mu.expand(*B, m), Su.expand(*B, m, m), mZ, Kzz)
            inp = {"strategy": "GridInterpolationVariationalStrategy", "grid_size": gs, "grid_bounds": bounds, "distribution": dname, "parameter_batch": list(bp),
                   "data_batch": list(bx), "inputs": X.tolist(), "hyperparameters": hyp, "variational_parameters": pdesc,
                   "note": "model built under torch.set_default_dtype(float64)"}
            rec(base + "/weights_sum_to_one_oracle_selfcheck", bool(((W.sum(-1) - 1).abs() < 1e-9).all()), "cubic convolution weights sum to one", inp)

            # annotation only: the same weights with the columns enumerated 'last dimension fastest'
            jj = torch.arange(m)
            digits = [(jj // gs ** k) % gs for k in range(d)]  # inducing_points[j] has grid index digits[k][j] in dimension k (first dimension fastest)
            pos_last_fastest = sum(digits[k] * gs ** (d - 1 - k) for k in range(d))
            W_alt = torch.zeros_like(W)
            W_alt[..., pos_last_fastest] = W
            alt_mean = (W_alt @ mu.expand(*B, m).unsqueeze(-1)).squeeze(-1)

            def order_note(got):
                if d > 1 and tuple(got.shape) == tuple(alt_mean.shape) and (got - alt_mean).abs().max() <= 1e-6 * (1 + alt_mean.abs().max()):
                    return ("[equals W_perm m_u where column j of the interpolation matrix is taken to be grid point 'last dimension fastest', while "
                            "strategy.inducing_points (hence K_zz in the KL) enumerates the grid 'first dimension fastest']")
                return ""

            def ev_():
                _, mean, cov, var, _ = run_model(model, X, "eval")
                cmp(base + "/eval/mean", mean, want_mean, inp, extra=order_note(mean))
                cmp(base + "/eval/covariance", cov, want_cov, inp)
            guarded(base + "/eval", ev_, inp)

            def tr_():
                tr, mean, _, var, _ = run_model(model, X, "train")
                cmp(base + "/train/mean", mean, want_mean, inp, extra=order_note(mean))
                cmp(base + "/train/variance", var, want_cov.diagonal(dim1=-1, dim2=-2), inp)
                with torch.no_grad():
                    kl = tr.variational_strategy.kl_divergence()
                alt = kl_gauss(mu.expand(*B, m), Su.expand(*B, m, m), mZ, Kzz + 1e-3 * eye(m))
                extra = ""
                try:
                    if (kl.expand(alt.shape) - alt).abs().max() <= 1e-6 * (1 + alt.abs().max()):
                        extra = "[equals the closed form with p(u) = N(m_Z, K_zz + 0.001 I): jitter hard-coded in prior_distribution]"
                except RuntimeError:
                    pass
                cmp(base + "/train/kl_divergence", kl, want_kl, inp, exact_shape=False, extra=extra)
            guarded(base + "/train", tr_, inp)

            # the prior relation between u and f that the strategy assumes: q(u) = p(u) must give (up to interpolation error) the prior at the inputs.
            # Closed-form part of that claim: Cov_q(f) = W K_zz W' with W and K_zz referring to the SAME ordering of the inducing points
            if dname == "cholesky" and tag == "rank0":
                def order_():
                    with torch.no_grad():
                        vd.variational_mean.copy_(mZ.expand(*bp, m))
                        vd.chol_variational_covar.copy_(torch.linalg.cholesky(Kzz + 1e-8 * eye(m)).expand(*bp, m, m))
                    _, mean, cov, _, _ = run_model(model, X, "eval")
                    cmp(base + "/q_equals_p/covariance_is_W_Kzz_Wt", cov, W @ (Kzz + 1e-8 * eye(m)) @ T(W), inp,
                        extra=f"(for reference: max |W K_zz W' - K_xx| = {(W @ Kzz @ T(W) - Kxx).abs().max().item():.2e}, max |got - K_xx| = {(cov - Kxx).abs().max().item():.2e})")
                guarded(base + "/q_equals_p", order_, inp)

    # ------------------------------------------------------------------ 8. / 9. multitask wrappers
    def mix_lmc(mu, C, a, ld, task_idx=None):
        """mu: B+(n,), C: B+(n,n), a: B+(T,), ld: (non-negative) position of the latent axis in B"""
        if task_idx is None:
            mean = (mu.unsqueeze(-1) * a.unsqueeze(-2)).sum(ld)  # (B\q)+(n,T)
            full = C[..., :, None, :, None] * a[..., None, :, None, None] * a[..., None, None, None, :]
            n, Tn = mu.size(-1), a.size(-1)
            cov = full.reshape(*full.shape[:-4], n * Tn, n * Tn).sum(ld)
            return mean, cov
        sel = torch.gather(a, -1, task_idx.expand(*a.shape[:-1], task_idx.size(-1)))  # B+(n,)
        mean = (mu * sel).sum(ld)
        cov = (C * sel.unsqueeze(-1) * sel.unsqueeze(-2)).sum(ld)
        return mean, cov

    def wrapper_kl(model, X, key, want_kl, inp, tol):
        """kl_divergence() of a multitask wrapper after a training-mode forward pass of the BASE strategy (the part of the wrapper's call
        that precedes the mixing), so that a failure of the mixing does not hide the KL"""
        tr = copy.deepcopy(model)
        tr.train()
        with torch.no_grad():
            tr.variational_strategy.base_variational_strategy(X)
            kl = tr.variational_strategy.kl_divergence()
        cmp(key, kl, want_kl, inp, tol, exact_shape=True)

    def section_lmc():
        Q, Tn = 3, 4
        cfgs = [
            # tag, latent_dim, bz, bp, bk, bx, batched task indices?
            ("latent_dim-1/shared_inducing", -1, (), (Q,), (Q,), ()),
            ("latent_dim-1/shared_kernel", -1, (Q,), (Q,), (), ()),
            ("latent_dim-1/outer_batch2", -1, (), (2, Q), (2, Q), ()),
            ("latent_dim-1/outer_batch2_data_batch", -1, (2, Q), (2, Q), (2, Q), (2, 1)),
            ("latent_dim-2/inner_batch2", -2, (), (Q, 2), (Q, 2), ()),
            ("latent_dim-2/inner_batch2_data_batch", -2, (), (Q, 2), (Q, 1), (2,)),
            ("latent_dim-2/inner_batch2_unbatched_kernel", -2, (), (Q, 2), (), ()),
            ("latent_dim-1/shared_parameters", -1, (), (1,), (Q,), ()),
        ]
        pairs = [("standard", dn) for dn in DISTS] + [("unwhitened", "cholesky"), ("unwhitened", "delta"), ("ciq", "cholesky")]
        for bname, dname in pairs:
            for (tag, ldim, bz, bp, bk, bx) in cfgs:
                base = f"lmc/base_{bname}/{dname}/{tag}"
                if only and only not in base:
                    continue
                if not thorough and (bname, dname) not in (("standard", "cholesky"), ("unwhitened", "cholesky")) and tag not in ("latent_dim-1/shared_inducing", "latent_dim-2/inner_batch2_unbatched_kernel"):
                    continue
                guarded(base, lambda a=(bname, dname, tag, ldim, bz, bp, bk, bx, Q, Tn, base): lmc_case(*a))

    def lmc_case(bname, dname, tag, ldim, bz, bp, bk, bx, Q, Tn, base):
        m, n, d = 4, 5, 2
        extra = ciq_ctx(40) if bname == "ciq" else ()
        tol = 1e-6
        with ctx(*extra):
            scls, kind = STRATS[bname]
            Z = spread_points(bz, m, d)
            vd = DISTS[dname](m, batch_shape=torch.Size(bp))
            model = GP(lambda mod: V.LMCVariationalStrategy(scls(mod, Z, vd, learn_inducing_locations=True), num_tasks=Tn, num_latents=Q, latent_dim=ldim), bk, d).double()
            hyp = randomise_hypers(model, bk, d, m)
            strat = model.variational_strategy
            mp, Sp, pdesc = set_params(vd, dname, bp, m)
            with torch.no_grad():
                coef = randn(*strat.lmc_coefficients.shape)
                strat.lmc_coefficients.copy_(coef)
            init_flag(strat)
            X = rand(*bx, n, d)
            B = bshape(bz, bp, bk, bx)  # latent batch shape, contains the latent axis
            ld = len(B) + ldim
            c = closed_plain(model, kind, X, Z, B, mp, Sp)
            aB = coef.expand(*B, Tn)
            want_mean, want_cov = mix_lmc(c["mean"], c["cov"], aB, ld)
            want_kl = closed_kl(c, c["KzzJ"], None).sum(ld)
            inp = {"strategy": f"LMCVariationalStrategy({scls.__name__}, num_tasks={Tn}, num_latents={Q}, latent_dim={ldim})", "distribution": dname,
                   "inducing_points": Z.tolist(), "parameter_batch": list(bp), "kernel_batch": list(bk), "data_batch": list(bx), "inputs": X.tolist(),
                   "hyperparameters": hyp, "variational_parameters": pdesc, "lmc_coefficients": coef.tolist(), "settings": {"variational_cholesky_jitter": JIT}}

            def ev_():
                _, mean, cov, var, out = run_model(model, X, "eval")
                rec(base + "/eval/is_interleaved_multitask", type(out).__name__ == "MultitaskMultivariateNormal" and bool(out._interleaved), type(out).__name__, inp)
                cmp(base + "/eval/mean", mean, want_mean, inp, tol)
                cmp(base + "/eval/covariance", cov, want_cov, inp, tol)
            guarded(base + "/eval", ev_, inp)

            def tr_():
                tr, mean, _, var, _ = run_model(model, X, "train")
                cmp(base + "/train/mean", mean, want_mean, inp, tol)
                n_, T_ = want_mean.shape[-2:]
                cmp(base + "/train/variance", var, want_cov.diagonal(dim1=-1, dim2=-2).reshape(*want_cov.shape[:-2], n_, T_), inp, tol)
            guarded(base + "/train", tr_, inp)
            guarded(base + "/train/kl_divergence_is_sum_of_latent_kls", lambda: wrapper_kl(model, X, base + "/train/kl_divergence_is_sum_of_latent_kls", want_kl, inp, tol), inp)

            # task_indices is documented as (... x N), "..." being the batch shape of the returned distribution; the second batched
            # variant carries an explicit singleton in place of the latent / task axis (broadcastable against the base strategy's batch)
            for tname, tshape in (("task_indices", (n,)), ("batched_task_indices", tuple(want_mean.shape[:-2]) + (n,)),
                                  ("batched_task_indices_with_singleton_axis", tuple(want_mean.shape[:-2]) + (n,))):
                if tname != "task_indices" and len(tshape) == 1:
                    continue
                ti = torch.randint(0, Tn, tshape, generator=gen)
                tiB = ti if ti.dim() == 1 else ti.unsqueeze(ld)
                if tname.endswith("singleton_axis"):
                    ti = tiB
                wm, wc = mix_lmc(c["mean"], c["cov"], aB, ld, tiB)
                inp2 = dict(inp, task_indices=ti.tolist())

                def ti_(ti=ti, wm=wm, wc=wc, inp2=inp2, tname=tname):
                    _, mean, cov, var, out = run_model(model, X, "eval", task_indices=ti)
                    cmp(base + f"/{tname}/eval/mean", mean, wm, inp2, tol)
                    cmp(base + f"/{tname}/eval/covariance", cov, wc, inp2, tol)
                    _, mean, _, var, _ = run_model(model, X, "train", task_indices=ti)
                    cmp(base + f"/{tname}/train/mean", mean, wm, inp2, tol)
                    cmp(base + f"/{tname}/train/variance", var, wc.diagonal(dim1=-1, dim2=-2), inp2, tol)
                guarded(base + f"/{tname}", ti_, inp2)

    def section_independent():
        Tn = 3
        cfgs = [
            ("task_dim-1/shared_inducing", -1, (), (Tn,), (Tn,), ()),
            ("task_dim-1/shared_kernel", -1, (Tn,), (Tn,), (), ()),
            ("task_dim-1/outer_batch2", -1, (), (2, Tn), (2, Tn), ()),
            ("task_dim-1/outer_batch2_data_batch", -1, (2, Tn), (2, Tn), (2, Tn), (2, 1)),
            ("task_dim-2/inner_batch2", -2, (), (Tn, 2), (Tn, 2), ()),
            ("task_dim-2/inner_batch2_data_batch", -2, (), (Tn, 2), (Tn, 1), (2,)),
            ("task_dim-2/inner_batch2_unbatched_kernel", -2, (), (Tn, 2), (), ()),
        ]
        pairs = [("standard", dn) for dn in DISTS] + [("unwhitened", "cholesky"), ("ciq", "cholesky")]
        for bname, dname in pairs:
            for (tag, tdim, bz, bp, bk, bx) in cfgs:
                base = f"independent_multitask/base_{bname}/{dname}/{tag}"
                if only and only not in base:
                    continue
                if not thorough and (bname, dname) not in (("standard", "cholesky"), ("unwhitened", "cholesky")) and tag not in ("task_dim-1/shared_inducing", "task_dim-2/inner_batch2_unbatched_kernel"):
                    continue
                guarded(base, lambda a=(bname, dname, tag, tdim, bz, bp, bk, bx, Tn, base): indep_case(*a))

    def indep_case(bname, dname, tag, tdim, bz, bp, bk, bx, Tn, base):
        m, n, d = 4, 5, 2
        extra = ciq_ctx(40) if bname == "ciq" else ()
        tol = 1e-6
        with ctx(*extra):
            scls, kind = STRATS[bname]
            Z = spread_points(bz, m, d)
            vd = DISTS[dname](m, batch_shape=torch.Size(bp))
            model = GP(lambda mod: V.IndependentMultitaskVariationalStrategy(scls(mod, Z, vd, learn_inducing_locations=True), num_tasks=Tn, task_dim=tdim), bk, d).double()
            hyp = randomise_hypers(model, bk, d, m)
            strat = model.variational_strategy
            mp, Sp, pdesc = set_params(vd, dname, bp, m)
            init_flag(strat)
            X = rand(*bx, n, d)
            B = bshape(bz, bp, bk, bx)
            td = len(B) + tdim
            c = closed_plain(model, kind, X, Z, B, mp, Sp)
            onehot = eye(Tn)  # task t = latent t with coefficient e_t
            shape = [1] * len(B) + [Tn]
            shape[td] = Tn
            aB = onehot.reshape(*shape).expand(*B, Tn)
            want_mean, want_cov = mix_lmc(c["mean"], c["cov"], aB, td)
            want_kl = closed_kl(c, c["KzzJ"], None).sum(td)
            inp = {"strategy": f"IndependentMultitaskVariationalStrategy({scls.__name__}, num_tasks={Tn}, task_dim={tdim})", "distribution": dname,
                   "inducing_points": Z.tolist(), "parameter_batch": list(bp), "kernel_batch": list(bk), "data_batch": list(bx), "inputs": X.tolist(),
                   "hyperparameters": hyp, "variational_parameters": pdesc, "settings": {"variational_cholesky_jitter": JIT}}

            def ev_():
                _, mean, cov, var, out = run_model(model, X, "eval")
                rec(base + "/eval/is_interleaved_multitask", type(out).__name__ == "MultitaskMultivariateNormal" and bool(out._interleaved), type(out).__name__, inp)
                cmp(base + "/eval/mean", mean, want_mean, inp, tol)
                cmp(base + "/eval/covariance", cov, want_cov, inp, tol)
            guarded(base + "/eval", ev_, inp)

            def tr_():
                tr, mean, _, var, _ = run_model(model, X, "train")
                cmp(base + "/train/mean", mean, want_mean, inp, tol)
                n_, T_ = want_mean.shape[-2:]
                cmp(base + "/train/variance", var, want_cov.diagonal(dim1=-1, dim2=-2).reshape(*want_cov.shape[:-2], n_, T_), inp, tol)
            guarded(base + "/train", tr_, inp)
            guarded(base + "/train/kl_divergence_is_sum_of_task_kls", lambda: wrapper_kl(model, X, base + "/train/kl_divergence_is_sum_of_task_kls", want_kl, inp, tol), inp)

            # task_indices is documented as (... x N), "..." being the batch shape of the returned distribution; the second batched
            # variant carries an explicit singleton in place of the latent / task axis (broadcastable against the base strategy's batch)
            for tname, tshape in (("task_indices", (n,)), ("batched_task_indices", tuple(want_mean.shape[:-2]) + (n,)),
                                  ("batched_task_indices_with_singleton_axis", tuple(want_mean.shape[:-2]) + (n,))):
                if tname != "task_indices" and len(tshape) == 1:
                    continue
                ti = torch.randint(0, Tn, tshape, generator=gen)
                tiB = ti if ti.dim() == 1 else ti.unsqueeze(td)
                if tname.endswith("singleton_axis"):
                    ti = tiB
                wm, wc = mix_lmc(c["mean"], c["cov"], aB, td, tiB)
                inp2 = dict(inp, task_indices=ti.tolist())

                def ti_(ti=ti, wm=wm, wc=wc, inp2=inp2, tname=tname):
                    _, mean, cov, var, out = run_model(model, X, "eval", task_indices=ti)
                    cmp(base + f"/{tname}/eval/mean", mean, wm, inp2, tol)
                    cmp(base + f"/{tname}/eval/covariance", cov, wc, inp2, tol)
                    _, mean, _, var, _ = run_model(model, X, "train", task_indices=ti)
                    cmp(base + f"/{tname}/train/mean", mean, wm, inp2, tol)
                    cmp(base + f"/{tname}/train/variance", var, wc.diagonal(dim1=-1, dim2=-2), inp2, tol)
                guarded(base + f"/{tname}", ti_, inp2)

    # assemble
    sections = {"distributions": section_distributions, "plain": section_plain, "same_qu": section_same_qu, "prior": section_prior,
                "batch_decoupled": section_batch_decoupled, "orthogonal": section_orthogonal, "grid": section_grid,
                "lmc": section_lmc, "independent": section_independent}
    for rep in range(3 if thorough else 1):  # thorough: three independent draws of every case (same keys)
        if rep:
            gen.manual_seed(1000 + seed + 7919 * rep)
        for name, fn in sections.items():
            fn()

    skipped.extend([
        "delta distribution x grid-interpolation / batch-decoupled strategies: refused by design (documented RuntimeError / NotImplementedError)",
        "IndependentMultitaskVariationalStrategy on an un-batched base strategy (from_repeated_mvn): number of KL terms not documented",
        "grid interpolation: inputs within one cell of the grid boundary (nearest-neighbour snapping is outside the closed form)",
        "CIQ + NaturalVariationalDistribution: whitened-vs-unwhitened KL / covariance comparison (no full covariance, KL is 0; reported under ciq/natural/...)",
    ])
    bound = ("m <= 5 inducing points (1, 3, 4, 5; grid strategy 5 = 1-d grid and 16 = 4 x 4 grid), n <= 6 inputs (1, 4, 5, 6), d in {1, 2}; batch shapes "
             "(), (2,), (3,2) and broadcasting mixtures ((2,) / (3,1) / (3,2) / (1,2)) of inducing points, variational parameters, kernel hyper-parameters "
             "and data (13 configurations for the plain strategies); strategies standard / unwhitened / CIQ x distributions cholesky / mean-field / delta / "
             "natural / tril-natural; batch-decoupled (shared and separate mean/variance hyper-parameters, mean_var_batch_dim None / -1) x 4 Gaussian "
             "distributions; orthogonally decoupled over standard / unwhitened bases x 5 base distributions (3 + 3 inducing points); grid interpolation "
             "x 4 Gaussian distributions; LMC (3 latents, 4 tasks, latent_dim -1 / -2) and independent multitask (3 tasks, task_dim -1 / -2) over "
             "standard / unwhitened / CIQ bases, with and without task_indices; evaluation mode (mean, variance, full covariance, KL) and training mode "
             "(mean, variance, KL after the forward pass); settings variational_cholesky_jitter(double)=1e-10, cholesky_jitter(double)=1e-12, CIQ: "
             "num_contour_quadrature 40 (60 thorough), minres_tolerance = cg_tolerance = eval_cg_tolerance = 1e-12; one random draw (three in the thorough tier) of points / "
             "hyper-parameters / variational parameters per case, seeded" + ("; thorough: more sizes (m, n) in {(1,1),(3,4),(4,5),(5,6),(5,1),(2,6)} "
             "for every batch configuration, every distribution for every wrapper configuration" if thorough else ""))
    return {"name": "C14 variational q(f) / KL closed forms (float64)", "evaluations": ev, "distinct_nontrivial": len(seen),
            "bound": bound,
            "rule": "a case = family / strategy / distribution / batch configuration / sizes / mode / quantity; distinct by that key; tolerance 1e-6 "
                    "relative, exceptions raised inside gpytorch on these inputs count as violations of the key",
            "samples": samples, "violations": violations, "skipped": skipped, "wall_s": round(time.time() - t0, 2)}
