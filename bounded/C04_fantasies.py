"""C04 bounded stand-in (NOT counted as proved): fantasy models vs conditioning from scratch, real code, float64.

For every configuration (family, model batch shape, sequence of fantasy steps, fast_pred_var, detach_test_caches)

    src = ExactGP(X0, y0); src.eval(); src(xs)                  # fills the test-independent caches
    fm_1 = src.get_fantasy_model(Xf_1, yf_1[, noise=..]);  fm_2 = fm_1.get_fantasy_model(Xf_2, yf_2[, noise=..]); ...

is compared, after every step, with an ORACLE written here: dense float64 Cholesky algebra (torch.linalg) on

    A = K(X, X) + diag(noise),  alpha = A^-1 (y - m(X)),  mean* = m(xs) + K(xs, X) alpha,  cov* = K(xs, xs) - K(xs, X) A^-1 K(X, xs)

where X / y / noise are the concatenation (done here, with the batch shapes broadcast here) of the training data and all
fantasy observations so far, and K / m / the noise parameters are read from the SOURCE model's own kernel / mean modules
(kernel(x1, x2).to_dense(), mean(x)) and likelihood parameters (noise, fixed noise, second_noise, task_noises).  No
prediction strategy, likelihood __call__ or linear-operator solve of the library is used by the oracle.

Quantities per step (key = family/configuration/settings/step/quantity):
  * fantasy/mean, fantasy/covariance           prediction of the fantasy model at the test points (FULL covariance matrix)
  * fantasy/train_inputs, fantasy/train_targets the fantasy model holds the concatenated data (shape and values)
  * fantasy/hyperparameters                     its parameters equal the source's (same names, same values)
  * caches/mean_cache                           every carried "mean_cache" entry and the strategy's .mean_cache == alpha
  * caches/covar_cache                          R R^T == A^-1 for the carried root R (broadcast over a shared-input batch)
  * caches/lik_train_train_covar, caches/root_decomposition, caches/root_inv_decomposition   the (K + noise) operator the
    fantasy strategy holds, and the roots attached to it, against A / A^-1
  * KISS-GP (InterpolatedPredictionStrategy, WISKI update): K_UU W D^-1 (y - m), K_UU W D^-1 W^T K_UU for the carried
    interp_response_cache / interp_inner_prod (== K(U,X) D^-1 (y - m), K(U,X) D^-1 K(X,U), U = the kernel's own grid, read
    from kernel.grid; harness precondition W_U = I checked), fantasy_mean_cache == K(U,X) alpha, and
    fantasy_covar_cache root R: R R^T == K(U,X) A^-1 K(X,U) (when fast_pred_var is on)
  * source/...                                  after the step the model the fantasy was taken from is untouched: same
    prediction_strategy object, same likelihood object, parameters / train_inputs / train_targets / fixed noise bitwise
    equal, every cache entry that existed (strategy caches and the caches of its lik_train_train_covar operator) bitwise
    equal, eval mode kept, and its predictions at the test points equal to those before (and to the oracle)
  * original/...                                the same for the very first model after the whole sequence
An exception raised inside gpytorch on these valid inputs is a violation of  .../exception ; after it the source is
inspected all the same ( .../source_after_failure/... ).

Step kinds (B = batch shape of the model the step is applied to, m fantasy points, f fantasies):
  same   Xf B x m x d,        yf B x m          bcast  Xf m x d (no batch), yf B x m   (only len(B) == 1)
  shared Xf B x m x d,        yf f x B x m      per    Xf f x B x m x d,    yf f x B x m
  dup    like 'same' with Xf = the first m training inputs (repeated measurements)
  shared_b1  Xf 1 x m x d, yf f x 1 x m (x T): the form test/examples/test_derivative_gp_fantasy.py uses (multitask only)
(multitask: yf ... x m x T).  FixedNoise: noise= has the shape of yf; 'shared_noise1' passes an un-batched noise (m,)
together with shared inputs.

Bound: n0 = 5 (quick) / 7 (thorough) training points, m in {1, 2, 3}, f in {2, 3}, t = 3 test points (un-batched, and
batched per element for one configuration per family), d in {1, 2} (quick: d = 2 runs a reduced list), model batch shapes
() and (2,) (batched hyper-parameters, and batched data with shared hyper-parameters), sequences of 1..3 steps incl. two
batch-expanding steps in a row, fast_pred_var x detach_test_caches (grad mode on, so that the setting has an effect) for
the dense families, plus: the source first predicted under the OTHER fast_pred_var setting, and max_eager_kernel_size(1)
(lazily evaluated joint covariance).  Families: Gaussian (Scale(RBF) + ConstantMean, Scale(Matern-3/2) + LinearMean),
FixedNoise (with / without learn_additional_noise), multitask (MultitaskKernel + MultitaskGaussianLikelihood, T = 2,
model batch () and (2,)), batch-independent multitask (from_batch_mvn), derivative GP (RBFKernelGrad, T = d + 1), KISS-GP
(GridInterpolationKernel, RBF and Matern-1/2 base kernels, grid_size 16 on [0, 1] / 8 x 8 on [0, 1]^2, under no_grad,
plus one grad-mode configuration), KISS-GP + FixedNoise, IndependentModelList (Gaussian / FixedNoise incl. noise=[..]),
SGPR / RFF (documented NotImplementedError: only "raises NotImplementedError and leaves the source untouched").
1 (quick) / 3 (thorough) random draws of data and hyper-parameters.

Tolerances: |got - want|_max <= 1e-6 * max(|want|_max, 1e-3) everywhere (float64; all matrices have N <= 20 and noise
>= 0.04, condition numbers <= 1e4, no Lanczos / CG path is reached: n <= max_cholesky_size).  'untouched' comparisons
are bitwise (torch.equal); "prediction of the source after == before" is 1e-12 absolute.  No looser tolerance is used.
KISS-GP: the oracle is exact conditioning under the model's OWN (interpolated, SKI) kernel, i.e. the statement is read
with "the same kernel"; the grid built from grid_bounds is float32-rounded, so W_U = I only holds to ~1e-7 (harness
precondition: <= 3e-7, otherwise the grid-space cache checks of that configuration are listed under "skipped"); for
d = 2 the grid-space caches are not compared (layout of the Cartesian grid undocumented), predictions are.
caches/mean_cache compares VALUES with spurious unit batch dimensions removed; caches/mean_cache_shape reports a carried
cache whose shape does not broadcast to that of the recomputed quantity.
Note (not a violation of the stated equalities, reported by the author of this file): the incrementally updated mean
cache is stored under the cache key ("mean_cache", ()) while DefaultPredictionStrategy.mean_cache reads the key
("mean_cache", (nan_policy,)), so the fantasy strategy never uses it and recomputes the solve from the full data.
Skipped (stated): models larger than max_cholesky_size (the Lanczos root update is a documented approximation without an
error bound); target batch shape with two more dimensions than the inputs (documented RuntimeError); per-fantasy inputs
for the batch-independent multitask model (such a model cannot be called with batched inputs at all); models with
several input tensors; gradients through the fantasy model (the property speaks of values).
"""
from __future__ import annotations

import time
import warnings


def run(tier="quick", seed=0, only=None):
    import torch
    import gpytorch
    from gpytorch.distributions import MultivariateNormal as MVN, MultitaskMultivariateNormal as MTMVN
    from engine.runner import classify_replay_exception

    warnings.filterwarnings("ignore")
    t0 = time.time()
    torch.manual_seed(seed)
    gen = torch.Generator().manual_seed(seed)
    D = torch.float64
    S = gpytorch.settings
    ev, seen, violations, samples, skipped = 0, set(), [], [], []
    TOL = 1e-6

    def rec(key, ok, detail="", inp=None):
        nonlocal ev
        ev += 1
        seen.add(key)
        if len(samples) < 3:
            samples.append({"case": key, "ok": bool(ok), "detail": str(detail)[:160]})
        if not ok and not any(v["key"] == key for v in violations):
            violations.append({"key": key, "input": inp if inp is not None else {"case": key}, "detail": str(detail), "entry": None})

    def U(lo, hi, *shape):
        return lo + (hi - lo) * torch.rand(tuple(shape), dtype=D, generator=gen)

    def N(*shape):
        return torch.randn(tuple(shape), dtype=D, generator=gen)

    def tl(t):
        return t.detach().tolist() if torch.is_tensor(t) else t

    def cmp(key, got, want, inp, what=""):
        """got == want: same shape, finite, max abs error <= TOL * max(max |want|, 1e-3)"""
        got = got.detach()
        want = want.detach()
        if tuple(got.shape) != tuple(want.shape):
            rec(key, False, f"{what} shape {tuple(got.shape)} != expected {tuple(want.shape)}", inp)
            return False
        if got.numel() == 0:
            rec(key, True, "empty", inp)
            return True
        if not bool(torch.isfinite(got).all()):
            rec(key, False, f"{what} non-finite values in {tl(got)}", inp)
            return False
        err = (got - want).abs()
        scale = max(float(want.abs().max()), 1e-3)
        e = float(err.max())
        ok = e <= TOL * scale
        detail = f"{what} max abs error {e:.3e} (scale {scale:.3e}, tolerance {TOL * scale:.1e})"
        if not ok:
            flat = int(err.reshape(-1).argmax())
            detail += f"; worst entry flat index {flat}: got {float(got.reshape(-1)[flat]):.10g} want {float(want.reshape(-1)[flat]):.10g}"
        rec(key, ok, detail, inp)
        return ok

    def cmp_b(key, got, want, inp, what=""):
        """like cmp, but `got` may omit leading batch dimensions it shares (documented: 'broadcasting will do the right thing')"""
        got = got.detach()
        try:
            g = got.expand(want.shape) if got.dim() <= want.dim() else got
        except RuntimeError:
            g = got
        return cmp(key, g, want, inp, what)

    # ------------------------------------------------------------------ models (the code under test)
    class GP(gpytorch.models.ExactGP):
        def __init__(self, x, y, lik, mean, covar, dist=MVN):
            super().__init__(x, y, lik)
            self.mean_module = mean
            self.covar_module = covar
            self._dist = dist

        def forward(self, x):
            return self._dist(self.mean_module(x), self.covar_module(x))

    class Fam:
        """a family instance: source model + what the oracle needs to know about it"""
        T = None          # number of tasks (None: single output)
        fixed0 = None     # fixed noise of the training data (FixedNoise families)
        no_grad = False   # run under torch.no_grad()
        U = None          # KISS grid points
        kiss = False
        K = None          # optional hooks: dense K(x1, x2) / m(x) in the layout of the model's output
        M = None

    def data(B, n, d, T=None):
        X = U(0.02, 0.98, *B, n, d)
        base = torch.sin(3.0 * X.sum(-1))
        if T is None:
            y = base + 0.1 * N(*B, n)
        else:
            y = torch.stack([base * (0.5 + t) + 0.3 * t for t in range(T)], -1) + 0.1 * N(*B, n, T)
        return X, y

    def set_base(k, B, d):
        k.lengthscale = U(0.3, 0.8, *B, 1, 1)

    def mk_gauss(B, n, d, kern="rbf", shared_hypers=False):
        f = Fam()
        B = torch.Size(B)
        X, y = data(B, n, d)
        B = torch.Size(()) if shared_hypers else B  # batch shape of the modules (data batch B with un-batched hyper-parameters)
        lik = gpytorch.likelihoods.GaussianLikelihood(batch_shape=B)
        base = gpytorch.kernels.RBFKernel(batch_shape=B) if kern == "rbf" else gpytorch.kernels.MaternKernel(nu=1.5, batch_shape=B)
        mean = gpytorch.means.ConstantMean(batch_shape=B) if kern == "rbf" else gpytorch.means.LinearMean(d, batch_shape=B)
        m = GP(X, y, lik, mean, gpytorch.kernels.ScaleKernel(base, batch_shape=B)).double()
        set_base(m.covar_module.base_kernel, B, d)
        m.covar_module.outputscale = U(0.8, 1.5, *B)
        if kern == "rbf":
            mean.constant.data.copy_(U(-0.3, 0.3, *B))
        else:
            mean.weights.data.copy_(U(-0.5, 0.5, *B, d, 1))
            mean.bias.data.copy_(U(-0.3, 0.3, *B, 1))
        lik.noise = U(0.05, 0.2, *B, 1)
        f.model, f.lik, f.X0, f.y0 = m, lik, X, y
        f.noise_diag = lambda NB, npts, fixed: lik.noise.detach().expand(*NB, npts)
        f.hyper = lambda: {"lengthscale": tl(m.covar_module.base_kernel.lengthscale), "outputscale": tl(m.covar_module.outputscale),
                           "mean": {k: tl(v) for k, v in mean.state_dict().items()}, "noise": tl(lik.noise),
                           "kernel": "Scale(RBF), ConstantMean" if kern == "rbf" else "Scale(Matern-3/2), LinearMean"}
        return f

    def mk_fixed(B, n, d, learn=False):
        f = Fam()
        B = torch.Size(B)
        X, y = data(B, n, d)
        f.fixed0 = U(0.04, 0.25, *B, n)
        lik = gpytorch.likelihoods.FixedNoiseGaussianLikelihood(f.fixed0.clone(), learn_additional_noise=learn, batch_shape=B)
        m = GP(X, y, lik, gpytorch.means.ConstantMean(batch_shape=B), gpytorch.kernels.ScaleKernel(gpytorch.kernels.RBFKernel(batch_shape=B), batch_shape=B)).double()
        set_base(m.covar_module.base_kernel, B, d)
        m.covar_module.outputscale = U(0.8, 1.5, *B)
        m.mean_module.constant.data.copy_(U(-0.3, 0.3, *B))
        if learn:
            lik.second_noise = U(0.03, 0.1, *B, 1)
        f.model, f.lik, f.X0, f.y0 = m, lik, X, y

        def nd(NB, npts, fixed):
            r = fixed.expand(*NB, npts)
            if learn:
                r = r + lik.second_noise.detach().expand(*NB, npts)
            return r
        f.noise_diag = nd
        f.hyper = lambda: {"lengthscale": tl(m.covar_module.base_kernel.lengthscale), "outputscale": tl(m.covar_module.outputscale),
                           "constant_mean": tl(m.mean_module.constant), "fixed_noise": tl(f.fixed0), "second_noise": tl(lik.second_noise) if learn else None,
                           "kernel": "Scale(RBF)"}
        return f

    def mk_multitask(B, n, d, T=2):
        f = Fam()
        f.T = T
        B = torch.Size(B)
        X, y = data(B, n, d, T)
        lik = gpytorch.likelihoods.MultitaskGaussianLikelihood(num_tasks=T)
        mean = gpytorch.means.MultitaskMean(gpytorch.means.ConstantMean(batch_shape=B), num_tasks=T)
        covar = gpytorch.kernels.MultitaskKernel(gpytorch.kernels.RBFKernel(batch_shape=B), num_tasks=T, rank=1, batch_shape=B)
        m = GP(X, y, lik, mean, covar, dist=MTMVN).double()
        set_base(covar.data_covar_module, B, d)
        covar.task_covar_module.covar_factor.data.copy_(U(0.5, 1.2, *B, T, 1))
        covar.task_covar_module.var = U(0.2, 0.6, *B, T)
        for i, bm in enumerate(mean.base_means):
            bm.constant.data.copy_(U(-0.3, 0.3, *B) + 0.2 * i)
        lik.noise = U(0.05, 0.1, 1)
        lik.task_noises = U(0.03, 0.15, T)
        f.model, f.lik, f.X0, f.y0 = m, lik, X, y
        f.noise_diag = lambda NB, npts, fixed: (lik.task_noises.detach() + lik.noise.detach()).repeat(npts).expand(*NB, npts * T)
        f.hyper = lambda: {"lengthscale": tl(covar.data_covar_module.lengthscale), "task_covar_factor": tl(covar.task_covar_module.covar_factor),
                           "task_var": tl(covar.task_covar_module.var), "means": [tl(bm.constant) for bm in mean.base_means],
                           "noise": tl(lik.noise), "task_noises": tl(lik.task_noises), "kernel": "MultitaskKernel(RBF, rank=1)"}
        return f

    def mk_derivative(B, n, d):
        f = Fam()
        f.T = d + 1
        B = torch.Size(B)
        X, y = data(B, n, d, d + 1)
        lik = gpytorch.likelihoods.MultitaskGaussianLikelihood(num_tasks=d + 1)
        mean = gpytorch.means.ConstantMeanGrad(batch_shape=B)
        covar = gpytorch.kernels.ScaleKernel(gpytorch.kernels.RBFKernelGrad(batch_shape=B), batch_shape=B)
        m = GP(X, y, lik, mean, covar, dist=MTMVN).double()
        set_base(covar.base_kernel, B, d)
        covar.outputscale = U(0.8, 1.5, *B)
        mean.constant.data.copy_(U(-0.3, 0.3, *B, 1))
        lik.noise = U(0.05, 0.1, 1)
        lik.task_noises = U(0.03, 0.15, d + 1)
        f.model, f.lik, f.X0, f.y0 = m, lik, X, y
        f.noise_diag = lambda NB, npts, fixed: (lik.task_noises.detach() + lik.noise.detach()).repeat(npts).expand(*NB, npts * (d + 1))
        f.hyper = lambda: {"lengthscale": tl(covar.base_kernel.lengthscale), "outputscale": tl(covar.outputscale), "constant_mean": tl(mean.constant),
                           "noise": tl(lik.noise), "task_noises": tl(lik.task_noises), "kernel": "Scale(RBFKernelGrad)"}
        return f

    def mk_indep_multitask(n, d, T=2):
        """batch-independent multitask GP: kernel / mean with batch shape (T,), MultitaskMultivariateNormal.from_batch_mvn"""
        f = Fam()
        f.T = T
        X, y = data((), n, d, T)
        lik = gpytorch.likelihoods.MultitaskGaussianLikelihood(num_tasks=T)
        TB = torch.Size([T])
        mean = gpytorch.means.ConstantMean(batch_shape=TB)
        covar = gpytorch.kernels.ScaleKernel(gpytorch.kernels.RBFKernel(batch_shape=TB), batch_shape=TB)

        class IGP(gpytorch.models.ExactGP):
            def __init__(self):
                super().__init__(X, y, lik)
                self.mean_module = mean
                self.covar_module = covar

            def forward(self, x):
                return MTMVN.from_batch_mvn(MVN(self.mean_module(x), self.covar_module(x)))

        m = IGP().double()
        covar.base_kernel.lengthscale = U(0.3, 0.8, T, 1, 1)
        covar.outputscale = U(0.8, 1.5, T)
        mean.constant.data.copy_(U(-0.3, 0.3, T))
        lik.noise = U(0.05, 0.1, 1)
        lik.task_noises = U(0.03, 0.15, T)
        f.model, f.lik, f.X0, f.y0 = m, lik, X, y
        f.noise_diag = lambda NB, npts, fixed: (lik.task_noises.detach() + lik.noise.detach()).repeat(npts).expand(*NB, npts * T)

        def Kd(x1, x2):  # K[(i,t),(j,s)] = delta_ts K_t(x1_i, x2_j), interleaved
            Kb = covar(x1.unsqueeze(-3), x2.unsqueeze(-3)).to_dense()  # ... x T x n1 x n2
            n1, n2 = Kb.shape[-2:]
            out = torch.zeros(*Kb.shape[:-3], n1, T, n2, T, dtype=D)
            for t in range(T):
                out[..., :, t, :, t] = Kb[..., t, :, :]
            return out.reshape(*Kb.shape[:-3], n1 * T, n2 * T)
        f.K = Kd
        f.M = lambda x: mean(x.unsqueeze(-3)).transpose(-1, -2)
        f.hyper = lambda: {"lengthscale": tl(covar.base_kernel.lengthscale), "outputscale": tl(covar.outputscale), "constant_mean": tl(mean.constant),
                           "noise": tl(lik.noise), "task_noises": tl(lik.task_noises), "kernel": "batch-independent Scale(RBF) x T, from_batch_mvn"}
        return f

    def mk_kiss(B, n, d, base="rbf", fixed=False):
        f = Fam()
        f.no_grad = True
        f.kiss = True
        B = torch.Size(B)
        X, y = data(B, n, d)
        if fixed:
            f.fixed0 = U(0.04, 0.25, *B, n)
            lik = gpytorch.likelihoods.FixedNoiseGaussianLikelihood(f.fixed0.clone())
        else:
            lik = gpytorch.likelihoods.GaussianLikelihood()
        bk = gpytorch.kernels.RBFKernel() if base == "rbf" else gpytorch.kernels.MaternKernel(nu=0.5)
        gsz = 16 if d == 1 else 8
        covar = gpytorch.kernels.GridInterpolationKernel(gpytorch.kernels.ScaleKernel(bk), grid_size=gsz, num_dims=d, grid_bounds=[(0.0, 1.0)] * d)
        m = GP(X, y, lik, gpytorch.means.ConstantMean(), covar).double()
        bk.lengthscale = U(0.3, 0.6, 1, 1)
        covar.base_kernel.outputscale = U(0.8, 1.5, 1).squeeze(0)
        m.mean_module.constant.data.copy_(U(-0.3, 0.3, 1).squeeze(0))
        if not fixed:
            lik.noise = U(0.05, 0.2, 1)
        f.model, f.lik, f.X0, f.y0 = m, lik, X, y
        if fixed:
            f.noise_diag = lambda NB, npts, fx: fx.expand(*NB, npts)
        else:
            f.noise_diag = lambda NB, npts, fx: lik.noise.detach().expand(*NB, npts)
        grid = [g.detach().clone() for g in covar.grid]
        # d > 1: the order in which the library lays out its Cartesian grid is not documented, so the grid-space caches
        # are not compared there (predictions, data and 'source untouched' are)
        f.U = grid[0].reshape(-1, 1) if d == 1 else None
        f.hyper = lambda: {"lengthscale": tl(bk.lengthscale), "outputscale": tl(covar.base_kernel.outputscale), "constant_mean": tl(m.mean_module.constant),
                           "noise": tl(lik.noise) if not fixed else None, "fixed_noise": tl(f.fixed0) if fixed else None,
                           "kernel": f"GridInterpolationKernel(Scale({'RBF' if base == 'rbf' else 'Matern-1/2'}), grid_size={gsz}, grid_bounds=[(0,1)]^{d})"}
        return f

    # ------------------------------------------------------------------ the oracle (own dense algebra)
    class Ref:
        def __init__(self, fam):
            self.fam = fam
            self.B = tuple(fam.X0.shape[:-2])
            self.X, self.y = fam.X0.clone(), fam.y0.clone()
            self.fixed = None if fam.fixed0 is None else fam.fixed0.clone()

        def extend(self, Xf, yf, noise):
            T = self.fam.T
            NB = tuple(yf.shape[:-1] if T is None else yf.shape[:-2])
            n, d, m = self.X.shape[-2], self.X.shape[-1], Xf.shape[-2]
            self.X = torch.cat([self.X.expand(*NB, n, d), Xf.expand(*NB, m, d)], -2)
            ytail = self.y.shape[len(self.B):]
            self.y = torch.cat([self.y.expand(*NB, *ytail), yf], -1 if T is None else -2)
            if self.fixed is not None:
                self.fixed = torch.cat([self.fixed.expand(*NB, n), noise.expand(*NB, m)], -1)
            self.B = NB

        def solve(self, xs):
            fam = self.fam
            cm, mm = fam.model.covar_module, fam.model.mean_module
            NB = self.B
            n = self.X.shape[-2]
            xsb = xs.expand(*NB, *xs.shape[-2:])
            with torch.no_grad():
                if fam.K is not None:  # family-specific dense layout (batch-independent multitask)
                    K, Ks, Kss = fam.K(self.X, self.X), fam.K(xsb, self.X), fam.K(xsb, xsb)
                    mX, ms = fam.M(self.X).reshape(*NB, -1), fam.M(xsb).reshape(*NB, -1)
                else:
                    K = cm(self.X).to_dense()
                    Ks = cm(xsb, self.X).to_dense()
                    Kss = cm(xsb).to_dense()
                    mX = mm(self.X).reshape(*NB, -1)
                    ms = mm(xsb).reshape(*NB, -1)
                nd = fam.noise_diag(NB, n, self.fixed)
                A = K + torch.diag_embed(nd)
                L = torch.linalg.cholesky(A)
                alpha = torch.cholesky_solve((self.y.reshape(*NB, -1) - mX).unsqueeze(-1), L).squeeze(-1)
                mean = ms + (Ks @ alpha.unsqueeze(-1)).squeeze(-1)
                V = torch.linalg.solve_triangular(L, Ks.transpose(-1, -2), upper=False)
                cov = Kss - V.transpose(-1, -2) @ V
                Ainv = torch.cholesky_inverse(L)
                out = {"A": A, "Ainv": Ainv, "alpha": alpha, "mean": mean, "cov": cov, "nd": nd, "resid": self.y.reshape(*NB, -1) - mX}
                if fam.U is not None:
                    KUX = cm(fam.U.expand(*NB, *fam.U.shape), self.X).to_dense()
                    out["KUX"] = KUX
                    out["KUU_interp"] = cm(fam.U).to_dense()
                    out["KUU"] = cm.base_kernel(fam.U).to_dense()
            if fam.T is not None:
                out["mean"] = out["mean"].reshape(*NB, xs.shape[-2], fam.T)
            return out

    # ------------------------------------------------------------------ snapshots of a model ('untouched')
    def dense_val(v):
        if v is None:
            return None
        if torch.is_tensor(v):
            return v.detach().clone()
        if isinstance(v, (tuple, list)):
            return tuple(dense_val(a) for a in v)
        if hasattr(v, "to_dense"):
            with torch.no_grad():
                return v.to_dense().detach().clone()
        return None

    def same_val(a, b):
        if a is None or b is None:
            return a is None and b is None
        if isinstance(a, tuple):
            return isinstance(b, tuple) and len(a) == len(b) and all(same_val(p, q) for p, q in zip(a, b))
        return a.shape == b.shape and torch.equal(a, b)

    def cache_key_name(k):
        k = k[0] if isinstance(k, tuple) else k
        return k if isinstance(k, str) else getattr(k, "__name__", str(k))

    def snapshot(model, pred):
        ps = model.prediction_strategy
        snap = {"ps": ps, "lik": model.likelihood, "training": model.training,
                "state": {k: v.detach().clone() for k, v in model.state_dict().items()},
                "ti": [t.detach().clone() for t in model.train_inputs], "tt": model.train_targets.detach().clone(),
                "caches": {k: dense_val(v) for k, v in getattr(ps, "_memoize_cache", {}).items()},
                "ltt": {k: dense_val(v) for k, v in getattr(ps.lik_train_train_covar, "_memoize_cache", {}).items()},
                "fixed": None, "pred": pred}
        nc = getattr(model.likelihood, "noise_covar", None)
        if isinstance(nc, gpytorch.likelihoods.noise_models.FixedGaussianNoise):
            snap["fixed"] = nc.noise.detach().clone()
            snap["nc"] = nc
        return snap

    def check_untouched(prefix, model, snap, predict, inp, oracle=None):
        ps = model.prediction_strategy
        rec(f"{prefix}/prediction_strategy_object", ps is snap["ps"], f"prediction_strategy is {'the same' if ps is snap['ps'] else repr(type(ps).__name__) + ' (was ' + type(snap['ps']).__name__ + ')'}", inp)
        rec(f"{prefix}/likelihood_object", model.likelihood is snap["lik"], f"model.likelihood is {type(model.likelihood).__name__} (same object: {model.likelihood is snap['lik']})", inp)
        rec(f"{prefix}/eval_mode", model.training == snap["training"], f"training flag {model.training} (was {snap['training']})", inp)
        try:
            st = model.state_dict()
        except Exception as e:  # noqa: BLE001 - e.g. likelihood left as None
            st = None
            rec(f"{prefix}/parameters", False, f"state_dict() raised {type(e).__name__}: {e}", inp)
        if st is not None:
            bad = [k for k in snap["state"] if k not in st or not same_val(st[k].detach(), snap["state"][k])] + [k for k in st if k not in snap["state"]]
            rec(f"{prefix}/parameters", not bad, f"parameters / buffers changed: {bad}" if bad else f"{len(st)} parameters / buffers bitwise equal", inp)
        ti, tt = model.train_inputs, model.train_targets
        ok_ti = ti is not None and len(ti) == len(snap["ti"]) and all(same_val(a.detach(), b) for a, b in zip(ti, snap["ti"]))
        rec(f"{prefix}/train_inputs", ok_ti, "train_inputs " + ("unchanged" if ok_ti else f"changed: now {None if ti is None else [tuple(a.shape) for a in ti]}, were {[tuple(a.shape) for a in snap['ti']]}"), inp)
        ok_tt = tt is not None and same_val(tt.detach(), snap["tt"])
        rec(f"{prefix}/train_targets", ok_tt, "train_targets " + ("unchanged" if ok_tt else f"changed: now {None if tt is None else tuple(tt.shape)}, were {tuple(snap['tt'].shape)}"), inp)
        if snap["fixed"] is not None:
            nc = getattr(model.likelihood, "noise_covar", None)
            okf = nc is snap["nc"] and same_val(nc.noise.detach(), snap["fixed"])
            rec(f"{prefix}/fixed_noise", okf, "fixed noise of the source likelihood " + ("unchanged" if okf else f"changed: {None if nc is None else tl(nc.noise)} was {tl(snap['fixed'])}"), inp)
        if ps is not None:
            now = getattr(ps, "_memoize_cache", {})
            for k, v in snap["caches"].items():
                if v is None:
                    continue
                name = cache_key_name(k)
                okc = k in now and same_val(dense_val(now[k]), v)
                rec(f"{prefix}/caches/{name}", okc, f"strategy cache {name!r} " + ("bitwise unchanged" if okc else ("dropped" if k not in now else "values changed")), inp)
            nowl = getattr(ps.lik_train_train_covar, "_memoize_cache", {})
            for k, v in snap["ltt"].items():
                if v is None:
                    continue
                name = cache_key_name(k)
                okc = k in nowl and same_val(dense_val(nowl[k]), v)
                rec(f"{prefix}/caches/lik_train_train_covar.{name}", okc, f"operator cache {name!r} " + ("bitwise unchanged" if okc else ("dropped" if k not in nowl else "values changed")), inp)
        # predictions again

        def again():
            if model.train_inputs is None or model.train_targets is None or model.likelihood is None:
                rec(f"{prefix}/prediction_mean", False, "the source can no longer predict: train_inputs / train_targets / likelihood is None", inp)
                return
            mean, cov = predict(model)
            m0, c0 = snap["pred"]
            okm = mean.shape == m0.shape and float((mean - m0).abs().max()) <= 1e-12
            okc = cov.shape == c0.shape and float((cov - c0).abs().max()) <= 1e-12
            rec(f"{prefix}/prediction_mean", okm, f"mean after vs before: shape {tuple(mean.shape)} vs {tuple(m0.shape)}" + (f", max abs diff {float((mean - m0).abs().max()):.3e}" if mean.shape == m0.shape else ""), inp)
            rec(f"{prefix}/prediction_covariance", okc, f"covariance after vs before: shape {tuple(cov.shape)} vs {tuple(c0.shape)}" + (f", max abs diff {float((cov - c0).abs().max()):.3e}" if cov.shape == c0.shape else ""), inp)
            if oracle is not None:
                cmp(f"{prefix}/prediction_mean_vs_oracle", mean, oracle["mean"], inp, "source mean after the fantasy vs oracle:")
                cmp(f"{prefix}/prediction_covariance_vs_oracle", cov, oracle["cov"], inp, "source covariance after the fantasy vs oracle:")
        guarded(f"{prefix}/prediction", again, inp)

    def guarded(key, fn, inp=None):
        """run fn; an exception with a frame in the code under test is a violation of key/exception; anything else is re-raised"""
        try:
            fn()
            return True
        except Exception as e:  # noqa: BLE001
            r = classify_replay_exception(e)
            if r.get("violates"):
                rec(f"{key}/exception", False, r["detail"][:900], inp)
                return False
            raise

    # ------------------------------------------------------------------ one configuration
    def gen_step(fam, B, kind, m, f, d, ref=None):
        T = fam.T
        tail = (m,) if T is None else (m, T)
        if kind == "same":
            Xf, yb = U(0.02, 0.98, *B, m, d), B
        elif kind == "bcast":
            Xf, yb = U(0.02, 0.98, m, d), B
        elif kind in ("shared", "shared_noise1"):
            Xf, yb = U(0.02, 0.98, *B, m, d), (f, *B)
        elif kind == "per":
            Xf, yb = U(0.02, 0.98, f, *B, m, d), (f, *B)
        elif kind == "dup":  # fantasy observations AT existing training inputs (repeated measurements)
            Xf, yb = ref.X[..., :m, :].clone(), B
        elif kind == "shared_b1":  # the form used by test/examples/test_derivative_gp_fantasy.py: a unit batch dimension on the inputs
            Xf, yb = U(0.02, 0.98, 1, *B, m, d), (f, 1, *B)
        else:
            raise ValueError(kind)
        yf = 0.8 * N(*yb, *tail)
        noise = None
        if fam.fixed0 is not None:
            noise = U(0.04, 0.25, m) if kind == "shared_noise1" else U(0.04, 0.25, *yb, m)
        return Xf, yf, noise

    def settings_ctx(fpv, detach, no_grad):
        import contextlib
        st = contextlib.ExitStack()
        st.enter_context(S.fast_pred_var(fpv))
        st.enter_context(S.detach_test_caches(detach))
        st.enter_context(S.debug(False))
        if no_grad:
            st.enter_context(torch.no_grad())
        return st

    def run_config(tag, mk, B, seq, fpv, detach, d, n0, xs_mode="plain", force_grad=False, fpv0=None, lazy=False):
        fam = mk()
        fam.model.eval()
        fam.lik.eval()
        no_grad = fam.no_grad and not force_grad
        fpv0 = fpv if fpv0 is None else fpv0
        stag = f"fpv{int(fpv)}_detach{int(detach)}" + ("_grad" if force_grad else "") + (f"_sourcefpv{int(fpv0)}" if fpv0 != fpv else "") + ("_lazy" if lazy else "")
        base = f"{tag}/batch{list(B)}/{'+'.join(f'{k}{m}' + (f'x{f}' if k in ('shared', 'per', 'shared_noise1', 'shared_b1') else '') for k, m, f in seq)}/{stag}" + ("/batched_test_points" if xs_mode == "batched" else "")
        ref = Ref(fam)
        xs0 = U(0.05, 0.95, 3, d)
        inp0 = {"family": tag, "hyperparameters": fam.hyper(), "train_x": tl(fam.X0), "train_y": tl(fam.y0), "test_x": tl(xs0),
                "settings": {"fast_pred_var": fpv, "fast_pred_var_when_the_source_first_predicted": fpv0, "detach_test_caches": detach, "grad_mode": not no_grad,
                             "max_eager_kernel_size": 1 if lazy else "default"}, "steps": []}

        def xs_for(NB):
            if xs_mode == "batched" and len(NB):
                g2 = torch.Generator().manual_seed(1234 + len(NB) + sum(NB))
                return 0.05 + 0.9 * torch.rand(*NB, 3, d, dtype=D, generator=g2)
            return xs0

        def predict(model, NB=None):
            out = model(xs_for(tuple(model.train_inputs[0].shape[:-2]) if NB is None else NB))
            return out.mean.detach(), out.covariance_matrix.detach()

        def predict0(model, NB=None):  # the original model keeps predicting under the setting it first predicted with
            with S.fast_pred_var(fpv0):
                return predict(model, NB)

        with settings_ctx(fpv, detach, no_grad), S.max_eager_kernel_size(1 if lazy else S.max_eager_kernel_size.value()):
            cur = fam.model
            state = {}
            if not guarded(f"{base}/step0/source", lambda: state.update(pred=predict0(cur)), inp0):
                return
            o0 = ref.solve(xs_for(ref.B))
            cmp(f"{base}/step0/source/mean", state["pred"][0], o0["mean"], inp0, "source posterior mean vs oracle:")
            cmp(f"{base}/step0/source/covariance", state["pred"][1], o0["cov"], inp0, "source posterior covariance vs oracle:")
            if fam.U is not None:
                with torch.no_grad():
                    dev = float((o0["KUU_interp"] - o0["KUU"]).abs().max())
                if dev > 3e-7:
                    skipped.append(f"{base}: harness precondition W_U = I fails by {dev:.2e}; grid-space cache checks dropped")
                    fam.U = None
            snap0 = snapshot(cur, state["pred"])
            orig, orig_oracle = cur, o0
            for i, (kind, m, f) in enumerate(seq, 1):
                Bc = ref.B
                Xf, yf, noise = gen_step(fam, Bc, kind, m, f, d, ref)
                pred_src = predict0 if i == 1 else predict
                kw = {} if noise is None else {"noise": noise}
                inp = dict(inp0)
                inp["steps"] = inp0["steps"] + [{"kind": kind, "fantasy_x": tl(Xf), "fantasy_y": tl(yf), "noise": tl(noise)}]
                inp0 = inp
                sp = f"{base}/step{i}"
                snap = snap0
                if i > 1:
                    hs = {}
                    if not guarded(f"{sp}/source_before", lambda: hs.update(s=snapshot(cur, predict(cur))), inp):
                        return
                    snap = hs["s"]
                oracle_before = ref.solve(xs_for(ref.B))
                holder = {}
                ok = guarded(f"{sp}/get_fantasy_model", lambda: holder.update(fm=cur.get_fantasy_model(Xf, yf, **kw)), inp)
                if not ok:
                    check_untouched(f"{sp}/source_after_failure", cur, snap, pred_src, inp, None)
                    if cur is not orig:
                        check_untouched(f"{base}/original_after_failure", orig, snap0, predict0, inp, None)
                    return
                fm = holder["fm"]
                ref.extend(Xf, yf, noise)
                NB = ref.B
                o = ref.solve(xs_for(NB))
                # --- data held by the fantasy model
                ti = fm.train_inputs
                cmp(f"{sp}/fantasy/train_inputs", ti[0] if ti is not None and len(ti) == 1 else torch.zeros(0), ref.X, inp, "train_inputs of the fantasy model vs concatenated data:")
                cmp(f"{sp}/fantasy/train_targets", fm.train_targets, ref.y, inp, "train_targets of the fantasy model vs concatenated data:")
                s_src = {k: v for k, v in cur.state_dict().items() if "noise_covar.noise" not in k}
                s_f = fm.state_dict()
                bad = [k for k in s_src if k not in s_f or not same_val(s_f[k].detach(), s_src[k].detach())]
                rec(f"{sp}/fantasy/hyperparameters", not bad, f"parameters of the fantasy model differing from the source: {bad}" if bad else f"{len(s_src)} parameters equal", inp)
                # --- carried caches, before any prediction with the fantasy model
                ps = fm.prediction_strategy

                def caches():
                    mc = getattr(ps, "_memoize_cache", {})
                    if fam.kiss and fam.U is None:
                        return
                    if not fam.kiss:
                        carried = [(k, v) for k, v in mc.items() if cache_key_name(k) == "mean_cache"]
                        rec(f"{sp}/caches/mean_cache_carried", len(carried) > 0, f"{len(carried)} carried mean_cache entries", inp)
                        for k, v in carried:
                            ok_shape = True
                            try:
                                ok_shape = tuple(torch.broadcast_shapes(v.shape, o["alpha"].shape)) == tuple(o["alpha"].shape)
                            except RuntimeError:
                                ok_shape = False
                            rec(f"{sp}/caches/mean_cache_shape", ok_shape, f"carried mean_cache has shape {tuple(v.shape)}, the quantity recomputed from the full data {tuple(o['alpha'].shape)}", inp)
                            while v.dim() > o["alpha"].dim() and 1 in v.shape[:-1]:  # values are compared with the spurious unit dimensions removed
                                v = v.squeeze(list(v.shape[:-1]).index(1))
                            cmp_b(f"{sp}/caches/mean_cache", v, o["alpha"], inp, f"carried mean_cache {k[1] if isinstance(k, tuple) else ''} vs (K + noise)^-1 (y - m):")
                        cmp_b(f"{sp}/caches/mean_cache_property", ps.mean_cache, o["alpha"], inp, "strategy.mean_cache vs (K + noise)^-1 (y - m):")
                        cc = [(k, v) for k, v in mc.items() if cache_key_name(k) == "covar_cache"]
                        rec(f"{sp}/caches/covar_cache_carried", len(cc) > 0, f"{len(cc)} carried covar_cache entries", inp)
                        for k, v in cc:
                            cmp_b(f"{sp}/caches/covar_cache", v @ v.transpose(-1, -2), o["Ainv"], inp, "R R^T of the carried covar_cache vs (K + noise)^-1:")
                        ltt = ps.lik_train_train_covar
                        cmp(f"{sp}/caches/lik_train_train_covar", ltt.to_dense(), o["A"], inp, "K + noise held by the fantasy strategy vs dense:")
                        R = ltt.root_decomposition().root.to_dense()
                        cmp(f"{sp}/caches/root_decomposition", R @ R.transpose(-1, -2), o["A"], inp, "root of K + noise attached to the fantasy strategy:")
                        Ri = ltt.root_inv_decomposition().root.to_dense()
                        cmp_b(f"{sp}/caches/root_inv_decomposition", Ri @ Ri.transpose(-1, -2), o["Ainv"], inp, "inverse root of K + noise attached to the fantasy strategy:")
                    else:
                        KUX, KUU, nd = o["KUX"], o["KUU"], o["nd"]
                        want_r = KUX @ (o["resid"] / nd).unsqueeze(-1)
                        want_ip = KUX @ (KUX.transpose(-1, -2) / nd.unsqueeze(-1))
                        irc = ps.interp_response_cache
                        irc = irc.to_dense() if hasattr(irc, "to_dense") else irc
                        cmp_b(f"{sp}/caches/interp_response_cache", KUU @ irc, want_r, inp, "K_UU (carried W D^-1 (y - m)) vs K(U,X) D^-1 (y - m):")
                        iip = ps.interp_inner_prod
                        iip = iip.to_dense() if hasattr(iip, "to_dense") else iip
                        cmp_b(f"{sp}/caches/interp_inner_prod", KUU @ iip @ KUU, want_ip, inp, "K_UU (carried W D^-1 W^T) K_UU vs K(U,X) D^-1 K(X,U):")
                        fmc = ps.fantasy_mean_cache
                        fmc = fmc.to_dense() if hasattr(fmc, "to_dense") else fmc
                        cmp_b(f"{sp}/caches/fantasy_mean_cache", fmc.squeeze(-1), (KUX @ o["alpha"].unsqueeze(-1)).squeeze(-1), inp, "fantasy_mean_cache vs K(U,X) (K + noise)^-1 (y - m):")
                        if fpv:
                            fcc = ps.fantasy_covar_cache[1]
                            fcc = fcc.to_dense() if hasattr(fcc, "to_dense") else fcc
                            cmp_b(f"{sp}/caches/fantasy_covar_cache", fcc @ fcc.transpose(-1, -2), KUX @ o["Ainv"] @ KUX.transpose(-1, -2), inp, "R R^T of fantasy_covar_cache vs K(U,X) (K + noise)^-1 K(X,U):")
                guarded(f"{sp}/caches", caches, inp)
                # --- predictions of the fantasy model
                pf = {}
                if guarded(f"{sp}/fantasy/predict", lambda: pf.update(p=predict(fm, NB)), inp):
                    cmp(f"{sp}/fantasy/mean", pf["p"][0], o["mean"], inp, "fantasy posterior mean vs exact GP on the concatenated data:")
                    cmp(f"{sp}/fantasy/covariance", pf["p"][1], o["cov"], inp, "fantasy posterior covariance vs exact GP on the concatenated data:")
                # --- the source is untouched
                check_untouched(f"{sp}/source", cur, snap, pred_src, inp, oracle_before)
                cur = fm
            if len(seq) > 1:
                check_untouched(f"{base}/original", orig, snap0, predict0, inp0, orig_oracle)

    # ------------------------------------------------------------------ IndependentModelList
    def run_model_list(fixed, fpv, detach, d, n0):
        tag = "model_list/" + ("fixed_noise" if fixed else "gaussian")
        base = f"{tag}/fpv{int(fpv)}_detach{int(detach)}"
        fams = [(mk_fixed((), n0, d) if fixed else mk_gauss((), n0, d)), (mk_fixed((), n0 + 1, d, learn=True) if fixed else mk_gauss((), n0 + 1, d, kern="matern"))]
        for fa in fams:
            fa.model.eval()
            fa.lik.eval()
        ml = gpytorch.models.IndependentModelList(*[fa.model for fa in fams])
        ml.eval()
        xs = [U(0.05, 0.95, 3, d), U(0.05, 0.95, 4, d)]
        refs = [Ref(fa) for fa in fams]
        steps = [gen_step(fa, (), "same", m, 0, d) for fa, m in zip(fams, (2, 3))]
        inp = {"family": tag, "models": [{"hyperparameters": fa.hyper(), "train_x": tl(fa.X0), "train_y": tl(fa.y0)} for fa in fams], "test_x": [tl(x) for x in xs],
               "settings": {"fast_pred_var": fpv, "detach_test_caches": detach}, "fantasy_x": [tl(s[0]) for s in steps], "fantasy_y": [tl(s[1]) for s in steps],
               "noise": [tl(s[2]) for s in steps]}

        def predict_i(i):
            return lambda model: (lambda out: (out.mean.detach(), out.covariance_matrix.detach()))(model(xs[i]))

        with settings_ctx(fpv, detach, False):
            def body():
                outs = ml(*xs)
                preds = [(o.mean.detach(), o.covariance_matrix.detach()) for o in outs]
                snaps = [snapshot(fa.model, p) for fa, p in zip(fams, preds)]
                before = [r.solve(x) for r, x in zip(refs, xs)]
                kw = {"noise": [s[2] for s in steps]} if fixed else {}
                fml = ml.get_fantasy_model([s[0] for s in steps], [s[1] for s in steps], **kw)
                rec(f"{base}/fantasy/type", isinstance(fml, gpytorch.models.IndependentModelList) and len(fml.models) == 2, f"returned {type(fml).__name__}", inp)
                for r, s in zip(refs, steps):
                    r.extend(*s)
                fouts = fml(*xs)
                for i, (r, fo) in enumerate(zip(refs, fouts)):
                    o = r.solve(xs[i])
                    cmp(f"{base}/model{i}/fantasy/mean", fo.mean, o["mean"], inp, "fantasy posterior mean vs exact GP on the concatenated data:")
                    cmp(f"{base}/model{i}/fantasy/covariance", fo.covariance_matrix, o["cov"], inp, "fantasy posterior covariance vs exact GP on the concatenated data:")
                    cmp(f"{base}/model{i}/fantasy/train_inputs", fml.models[i].train_inputs[0], r.X, inp)
                    cmp(f"{base}/model{i}/fantasy/train_targets", fml.models[i].train_targets, r.y, inp)
                    check_untouched(f"{base}/model{i}/source", fams[i].model, snaps[i], predict_i(i), inp, before[i])
                rec(f"{base}/source/list_models", all(a is fa.model for a, fa in zip(ml.models, fams)), "the source list still holds its own models", inp)
            guarded(base, body, inp)

    # ------------------------------------------------------------------ strategies without fantasy support
    def run_unsupported(name, d, n0):
        X, y = data((), n0 + 3, d)
        lik = gpytorch.likelihoods.GaussianLikelihood()
        if name == "sgpr":
            covar = gpytorch.kernels.InducingPointKernel(gpytorch.kernels.ScaleKernel(gpytorch.kernels.RBFKernel()), inducing_points=U(0.1, 0.9, 4, d), likelihood=lik)
        else:
            covar = gpytorch.kernels.ScaleKernel(gpytorch.kernels.RFFKernel(num_samples=6, num_dims=d))
        m = GP(X, y, lik, gpytorch.means.ConstantMean(), covar).double()
        lik.noise = U(0.05, 0.2, 1)
        m.eval()
        lik.eval()
        xs = U(0.05, 0.95, 3, d)
        base = f"unsupported/{name}"
        inp = {"family": base, "train_x": tl(X), "train_y": tl(y), "test_x": tl(xs)}

        def predict(model):
            out = model(xs)
            return out.mean.detach(), out.covariance_matrix.detach()

        with settings_ctx(False, True, True):
            def body():
                snap = snapshot(m, predict(m))
                try:
                    m.get_fantasy_model(U(0.1, 0.9, 2, d), N(2))
                    rec(f"{base}/raises_not_implemented", False, "get_fantasy_model returned although the strategy documents no support", inp)
                except NotImplementedError as e:
                    rec(f"{base}/raises_not_implemented", True, f"NotImplementedError: {e}", inp)
                check_untouched(f"{base}/source_after_refusal", m, snap, predict, inp, None)
            guarded(base, body, inp)

    # ------------------------------------------------------------------ enumeration
    thorough = tier != "quick"
    n0 = 7 if thorough else 5
    draws = 3 if thorough else 1
    dims = (1, 2)
    ALL4 = [(False, True), (True, True), (False, False), (True, False)]  # (fast_pred_var, detach_test_caches)
    seq_b0 = [
        [("same", 2, 0)], [("same", 1, 0), ("same", 2, 0)], [("same", 2, 0), ("same", 1, 0), ("same", 3, 0)],
        [("shared", 2, 3)], [("per", 2, 3)], [("shared", 2, 3), ("same", 1, 0)], [("shared", 2, 3), ("bcast", 2, 0)],
        [("per", 2, 2), ("same", 2, 0), ("same", 1, 0)], [("same", 2, 0), ("shared", 1, 2)], [("same", 1, 0), ("per", 2, 2)],
        [("shared", 1, 2), ("shared", 2, 3)], [("per", 1, 2), ("per", 2, 3)], [("shared", 2, 2), ("per", 1, 3)],
    ]
    seq_b2 = [
        [("same", 2, 0)], [("same", 1, 0), ("same", 2, 0)], [("bcast", 2, 0)], [("shared", 2, 3)], [("per", 2, 3)],
        [("shared", 2, 3), ("same", 1, 0)], [("per", 1, 2), ("same", 2, 0), ("same", 1, 0)], [("bcast", 1, 0), ("shared", 2, 2)],
    ]
    short_b0 = [seq_b0[0], seq_b0[2], seq_b0[3], seq_b0[4], seq_b0[5], seq_b0[7]]
    short_b2 = [seq_b2[0], seq_b2[2], seq_b2[3], seq_b2[4], seq_b2[5]]

    seq_m1 = [[("same", 1, 0)], [("same", 1, 0), ("same", 1, 0)], [("shared", 1, 3)], [("per", 1, 3)], [("shared_b1", 1, 3)], [("shared_b1", 2, 3)]]

    def want(name):
        return only is None or name in only

    for draw in range(draws):
        for d in dims:
            full = thorough or d == 1  # quick tier: d = 2 runs a reduced list
            dtag = "" if (draw == 0 and d == 1) else f"@d{d}draw{draw}"
            sets = ALL4 if thorough else ALL4[:2]
            if want("gaussian"):
                for B, seqs, short in (((), seq_b0, short_b0), ((2,), seq_b2, short_b2)):
                    for si, seq in enumerate(seqs if full else short):
                        for fpv, det in (ALL4 if (thorough or (full and si < 6)) else ALL4[:2]):
                            run_config("gaussian" + dtag, lambda B=B, d=d: mk_gauss(B, n0, d), B, seq, fpv, det, d, n0)
                    run_config("gaussian" + dtag, lambda B=B, d=d: mk_gauss(B, n0, d), B, seqs[4], True, True, d, n0, xs_mode="batched")
                    for fpv in (False, True):
                        run_config("gaussian_matern_linear_mean" + dtag, lambda B=B, d=d: mk_gauss(B, n0, d, kern="matern"), B, seqs[3], fpv, True, d, n0)
                        run_config("gaussian_matern_linear_mean" + dtag, lambda B=B, d=d: mk_gauss(B, n0, d, kern="matern"), B, seqs[1], fpv, True, d, n0)
                    if not full:
                        continue
                    # the source first predicted under the other fast_pred_var setting (covar_cache absent / present when the fantasy is taken)
                    for sq in (seqs[0], seqs[3], seqs[5]):
                        run_config("gaussian" + dtag, lambda B=B, d=d: mk_gauss(B, n0, d), B, sq, True, True, d, n0, fpv0=False)
                        run_config("gaussian" + dtag, lambda B=B, d=d: mk_gauss(B, n0, d), B, sq, False, True, d, n0, fpv0=True)
                    # lazily evaluated joint covariance (max_eager_kernel_size(1)), as in test_cache_across_lazy_threshold
                    for sq in (seqs[0], seqs[3], seqs[4]):
                        for fpv in (False, True):
                            run_config("gaussian" + dtag, lambda B=B, d=d: mk_gauss(B, n0, d), B, sq, fpv, True, d, n0, lazy=True)
                    # repeated measurements at existing training inputs
                    run_config("gaussian" + dtag, lambda B=B, d=d: mk_gauss(B, n0, d), B, [("dup", 2, 0), ("dup", 3, 0)], True, True, d, n0)
                    run_config("gaussian" + dtag, lambda B=B, d=d: mk_gauss(B, n0, d), B, [("dup", 2, 0), ("shared", 2, 2)], False, True, d, n0)
                for sq in (short_b2 if full else short_b2[:3]):
                    for fpv in (False, True):
                        run_config("gaussian_batched_data_shared_hypers" + dtag, lambda d=d: mk_gauss((2,), n0, d, shared_hypers=True), (2,), sq, fpv, True, d, n0)
            if want("fixed_noise"):
                for learn in (False, True):
                    tg = "fixed_noise" + ("_plus_learned" if learn else "") + dtag
                    for B, seqs in (((), short_b0), ((2,), short_b2)):
                        for si, seq in enumerate(seqs if full else seqs[:4]):
                            for fpv, det in (ALL4 if thorough else ALL4[:2] if (full and si < 4) else ALL4[1:2]):
                                run_config(tg, lambda B=B, d=d, learn=learn: mk_fixed(B, n0, d, learn), B, seq, fpv, det, d, n0)
                    run_config(tg, lambda d=d, learn=learn: mk_fixed((), n0, d, learn), (), [("shared_noise1", 2, 3)], False, True, d, n0)
                    run_config(tg, lambda d=d, learn=learn: mk_fixed((), n0, d, learn), (), [("shared_noise1", 2, 3), ("same", 1, 0)], True, True, d, n0)
            if want("multitask"):
                for B, seqs in (((), short_b0), ((2,), (short_b2[:4] if thorough else short_b2[:2]) + [[("same", 1, 0)], [("bcast", 1, 0)]])):
                    for si, seq in enumerate(seqs if full else seqs[:1]):
                        for fpv, det in sets:
                            run_config("multitask" + dtag, lambda B=B, d=d: mk_multitask(B, n0 - 1, d), B, seq, fpv, det, d, n0)
                for seq in (seq_m1 if full else seq_m1[:1]):
                    for fpv, det in sets:
                        run_config("multitask" + dtag, lambda d=d: mk_multitask((), n0 - 1, d), (), seq, fpv, det, d, n0)
                if full:
                    run_config("multitask" + dtag, lambda d=d: mk_multitask((), n0 - 1, d), (), short_b0[3], True, True, d, n0, xs_mode="batched")
                    # (no 'per' here: a batch-independent model cannot be called with batched inputs at all)
                    for seq in seq_m1[:3] + [[("same", 2, 0)], [("shared", 2, 3)]]:
                        for fpv, det in sets:
                            run_config("batch_independent_multitask" + dtag, lambda d=d: mk_indep_multitask(n0 - 1, d), (), seq, fpv, det, d, n0)
            if want("derivative"):
                for seq in (short_b0 + seq_m1 if thorough else short_b0[:4] + seq_m1 if full else [seq_m1[0], short_b0[0]]):
                    for fpv, det in sets:
                        run_config("derivative_gp" + dtag, lambda d=d: mk_derivative((), n0 - 1, d), (), seq, fpv, det, d, n0)
            if want("kiss"):
                for bk in (("rbf", "matern12") if full else ("rbf",)):
                    for seq in (seq_b0 if thorough else short_b0 if full else short_b0[:3]):
                        for fpv in (False, True):
                            run_config(f"kiss_gp_{bk}" + dtag, lambda d=d, bk=bk: mk_kiss((), n0 + 3, d, bk), (), seq, fpv, True, d, n0)
                if full:
                    run_config("kiss_gp_rbf" + dtag, lambda d=d: mk_kiss((), n0 + 3, d, "rbf"), (), short_b0[2], True, True, d, n0, xs_mode="batched")
                    run_config("kiss_gp_rbf" + dtag, lambda d=d: mk_kiss((), n0 + 3, d, "rbf"), (), [("same", 2, 0)], True, False, d, n0, force_grad=True)
                    run_config("kiss_gp_rbf" + dtag, lambda d=d: mk_kiss((), n0 + 3, d, "rbf"), (), [("same", 2, 0)], True, True, d, n0, force_grad=True)
                    for fpv in (False, True):
                        run_config("kiss_gp_fixed_noise" + dtag, lambda d=d: mk_kiss((), n0 + 3, d, "rbf", fixed=True), (), [("same", 2, 0)], fpv, True, d, n0)
            if want("model_list") and full:
                for fixed in (False, True):
                    for fpv, det in sets:
                        run_model_list(fixed, fpv, det, d, n0)
            if want("unsupported") and draw == 0 and full:
                for name in ("sgpr", "rff"):
                    run_unsupported(name, d, n0)

    return {"name": "C04 fantasy models vs conditioning from scratch (float64 dense oracle)", "evaluations": ev, "distinct_nontrivial": len(seen),
            "bound": f"n0 = {n0} (+3 KISS-GP) training points, m in 1..3 fantasy points, f in 2..3 fantasies, 3 test points, d in {list(dims)}"
                     f"{'' if thorough else ' (d = 2 reduced)'}, model batch shapes () and (2,), step kinds same / bcast / shared / per / dup / shared_b1 in sequences of 1..3 steps, "
                     f"fast_pred_var x detach_test_caches (+ source predicted under the other fast_pred_var, + max_eager_kernel_size(1)), {draws} draw(s); families Gaussian, FixedNoise "
                     "(+ learned noise), multitask (MultitaskKernel, batch-independent), derivative GP, KISS-GP (RBF / Matern-1/2, d = 1, 2, + FixedNoise, + grad mode), "
                     "IndependentModelList, SGPR / RFF (refusal only)",
            "rule": "a case = (family, model batch shape, step sequence, settings, step, quantity); distinct by that key; tolerance 1e-6 relative to the largest reference entry",
            "samples": samples, "violations": violations, "skipped": skipped, "wall_s": round(time.time() - t0, 2)}
