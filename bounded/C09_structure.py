"""C09 bounded stand-in (NOT counted as proved): structure-exploiting kernels / prediction strategies vs their dense meaning.

Every comparison is   what gpytorch returns on the REAL code (float64)   vs   dense float64 linear algebra written here
(torch.linalg on dense matrices).  gpytorch is only used by an oracle to evaluate a model's OWN base kernel, mean and noise
parameters on given inputs (base_kernel(x1, x2).to_dense(), mean constant, likelihood.noise): never the path under test.

(1) kernels == explicit dense formula
  * IndexKernel: K[i, j] = (B B^T + diag v)[i, j] for index tensors; Hadamard multitask k((x,i),(x',j)) = k_x(x,x') K_t[i,j]
    (product of the lazy tensors as in the Hadamard example, and an ExactGP built from it vs the dense conditional).
  * MultitaskKernel: interleaved layout K[(i,a),(j,b)] = K_x[i,j] K_t[a,b] (the layout MultitaskMultivariateNormal documents;
    the literal docstring order "K_TT kron K_XX" is C05's separate key and not repeated here).  LCMKernel: sum over q.
  * GridKernel on its own full grid (first dimension fastest, the documented "column-major order"; the full grid is rebuilt
    here and compared with kernel.full_grid): == base kernel on the full grid; ragged grid sizes, use_toeplitz on / off, batch.
    Only product-structured base kernels (RBF with ARD; any stationary kernel for d = 1), equally spaced grids.
  * InducingPointKernel: K_xz K_zz^-1 K_zx (training mode; eval mode with x1 != x2; eval mode x1 == x2 with
    sgpr_diagonal_correction off), and in eval mode with x1 == x2 and the correction on the documented diagonal correction
    (diag replaced by the base kernel's diag).  n * ExactMarginalLogLikelihood (with the added loss term) == the Titsias
    collapsed bound log N(y | m, Q + R) - 1/2 tr(R^-1 (K - Q)) for homoskedastic and fixed (heteroskedastic) noise R.
    Predictions == SGPR predictive equations, written as the dense conditional with train block A + R, cross block Q_*x and
    test block K_** (the EXACT kernel: Titsias' predictive covariance K_** - Q_** + K_*z Sigma K_z*), where A = Q_xx with
    the correction off and A = kernel(X).to_dense() in eval mode = Q_xx + diag(K_xx - Q_xx) with the correction on (the
    setting documents that "the variances of the InducingPointKernel will be corrected"; mean and variances are then also
    those of the dense conditional of the approximate matrix; the OFF-diagonal test block of the approximate matrix would
    be Q_**, the strategy deliberately uses K_**: the off-diagonals are held to K_**, the SGPR reading).
(2) strategies == the dense conditional  m_* + A_*x (A_xx + R)^-1 (y - m),  A_** - A_*x (A_xx + R)^-1 A_x*  of the matrix
    A = kernel(cat(X, X_*)).to_dense() the kernel represents (R from the likelihood's noise parameters):
  * InterpolatedPredictionStrategy (KISS-GP): d = 1, 2, different grid sizes per dimension, fixed bounds and data-determined
    grid, all of {Cholesky, CG} x fast_pred_var x fast_pred_samples; the fantasy (WISKI) update vs the dense conditional on
    the enlarged data set; a sequence of calls with different settings on one model; a prediction outside the range of the
    data-determined grid; for the data-determined grid also the premise itself: k(Xb, Xb) == the Xb block of k(cat(X, Xb))
    (one kernel matrix for the joint inputs) and the grid is kept while the inputs stay inside it.  FixedNoiseGaussianLikelihood
    (prediction, fantasy with fantasy noise).  Batch shape (2,) models (batched data, hyper-parameters, noise) for all three
    strategies.
  * SGPRPredictionStrategy: {Cholesky, CG} x fast_pred_var x sgpr_diagonal_correction, at test inputs, at the training
    inputs, Gaussian and fixed-noise likelihoods.  At the training inputs the cross block is Q_xx, which is what
    kernel(cat(X, X)).to_dense() holds (the correction only touches the diagonal of the joint matrix).  [Under the other
    possible reading - the same point shares the corrected variance, cross block Q_xx + diag(K_xx - Q_xx), which is what the
    strategy's MEAN uses - the strategy's COVARIANCE (it drops that diagonal) is the quantity that disagrees: the two halves
    of the prediction contradict each other under either reading.]
  * RFFPredictionStrategy: 2D < n and 2D >= n features, with / without ScaleKernel, {Cholesky, CG} x fast_pred_var.
(3) gpytorch.utils.interpolation.Interpolation: rows of W sum to one (everywhere in the grid), W is the identity at the
    grid nodes, W q(grid) = q(x) for (tensor products of) quadratics q at interior points (g[1] <= x < g[-2] in every
    dimension), 1-d and d = 2, 3 with different sizes / spacings / offsets per dimension.  Flat index convention of the
    multi-d weights: last dimension fastest (C order), the convention the library's own K_UU uses; the kernel-level check
    (w_x1^T K_UU w_x2 built here from Keys' weights == GridInterpolationKernel) is convention free.  Convergence: max error
    of the interpolated kernel to the base kernel decreases under grid refinement, by a factor > 4 per doubling (cubic
    convolution is third order) and to < 1e-4 at the finest grid.

Tolerance: |got - want| <= tol * (1 + |want|) elementwise, tol = 1e-6, except (each a documented approximation):
  * CG paths (max_cholesky_size(0)): tol 1e-2. linear_operator's CG stops at the documented eval_cg_tolerance (default
    1e-2 relative residual; the sweep asks for 1e-8 with 200 iterations, but linear_cg stops updating once the squared
    residual falls below its eps = 1e-10, i.e. it stalls at ~1e-6 relative error, and the WISKI caches amplify that to
    ~1e-3), stochastic Lanczos quantities are not compared at all (no MLL under CG).
  * fast_pred_samples: tol 1e-5 (the cached root of K_UU - R R^T is a jittered / Lanczos root decomposition).
  * fantasy (WISKI) update: tol 1e-5 (Cholesky root of the rank-deficient W D^-1 W^T needs jitter 1e-8 .. 1e-6).
  * GridInterpolationKernel with user-supplied grid_bounds builds its grid in float32 (spacing rounded at 1e-7): the
    kernel-level comparison with weights built here is at 1e-5; with the data-determined (float64) grid at 1e-6.
Skipped: MultitaskGaussianLikelihood branch of the added loss term (no documented dense meaning for an SGPR multitask
bound), KeOps / multi-device kernels, float32, gradients (C19), state / cache invalidation histories (C03).
"""
from __future__ import annotations

import contextlib
import itertools
import math
import time
import warnings


def run(tier="quick", seed=0, only=None):
    import torch
    import gpytorch
    from gpytorch import kernels as GK
    from gpytorch.distributions import MultivariateNormal as MVN
    from engine.runner import classify_replay_exception

    warnings.filterwarnings("ignore")
    t0 = time.time()
    torch.manual_seed(seed)
    gen = torch.Generator().manual_seed(seed)
    D = torch.float64
    S = gpytorch.settings
    thorough = tier != "quick"
    ev, seen, violations, samples = 0, set(), [], []

    def rec(key, ok, detail="", inp=None):
        nonlocal ev
        ev += 1
        seen.add(key)
        if len(samples) < 3:
            samples.append({"case": key, "ok": bool(ok), "detail": str(detail)[:160]})
        if not ok and not any(v["key"] == key for v in violations):
            violations.append({"key": key, "input": inp if inp is not None else {"case": key}, "detail": str(detail), "entry": None})

    def guarded(key, fn, inp=None):
        """run fn; an exception with a frame under /repo/gpytorch is a violation of `key`, any other one is re-raised"""
        try:
            return fn()
        except Exception as e:  # noqa: BLE001
            r = classify_replay_exception(e)
            if r.get("violates"):
                rec(key, False, r["detail"][:700], inp)
                return None
            raise

    def U(lo, hi, *shape):
        return lo + (hi - lo) * torch.rand(tuple(shape), dtype=D, generator=gen)

    def N(*shape):
        return torch.randn(tuple(shape), dtype=D, generator=gen)

    def tl(t):
        return t.tolist() if torch.is_tensor(t) else t

    def dense(a):
        return (a if torch.is_tensor(a) else a.to_dense()).detach()

    def cmp(key, got, want, inp=None, tol=1e-6):
        got = dense(got)
        if tuple(got.shape) != tuple(want.shape):
            rec(key, False, f"shape {tuple(got.shape)} != expected {tuple(want.shape)}", inp)
            return False
        if got.numel() == 0:
            rec(key, True, "empty", inp)
            return True
        g = got.to(D)
        err = (g - want).abs() / (1 + want.abs())
        err = torch.where(torch.isfinite(g), err, torch.full_like(err, math.inf))
        flat = int(err.reshape(-1).argmax())
        e = float(err.reshape(-1)[flat])
        idx = tuple(int(i) for i in torch.unravel_index(torch.tensor(flat), err.shape)) if err.dim() else ()
        det = (f"max |got-want|/(1+|want|) = {e:.3e} (tol {tol:g}) at index {idx}: expected {float(want[idx]):.12g}, got {float(g[idx]):.12g}"
               + ("" if got.dtype == D else f"; result dtype {got.dtype}"))
        rec(key, e <= tol, det, inp)
        return e <= tol

    def gcmp(key, fn, want_, inp=None, tol=1e-6):
        """cmp with the library call evaluated under the exception classifier"""
        return guarded(key, lambda: cmp(key, fn(), want_, inp, tol), inp)

    def ctx(chol=True, fpv=False, fps=False, extra=()):
        st = contextlib.ExitStack()
        st.enter_context(torch.no_grad())
        st.enter_context(S.fast_pred_var(fpv))
        st.enter_context(S.fast_pred_samples(fps))
        # fast_pred_var / fast_pred_samples are exact only at full rank: keep the root decompositions at full rank (grids up to 6x7x8 = 336)
        st.enter_context(S.max_root_decomposition_size(1000))
        if not chol:
            for c in (S.max_cholesky_size(0), S.cg_tolerance(1e-8), S.eval_cg_tolerance(1e-8), S.max_cg_iterations(200)):
                st.enter_context(c)
        for c in extra:
            st.enter_context(c)
        return st

    def settings_tag(chol, fpv, fps):
        return f"{'cholesky' if chol else 'cg'}/fast_pred_var={int(fpv)}/fast_pred_samples={int(fps)}"

    def tol_for(chol, fps=False, base=1e-6):
        t = base
        if fps:
            t = max(t, 1e-5)
        if not chol:
            t = max(t, 1e-2)
        return t

    def conditional(A, R, m_train, m_test, y, n):
        """dense conditional of the joint matrix A (train block first, n rows) with noise R on the train block"""
        Axx = A[..., :n, :n] + R
        Asx = A[..., n:, :n]
        sol = torch.linalg.solve(Axx, torch.cat([(y - m_train).unsqueeze(-1), Asx.transpose(-1, -2)], -1))
        mean = m_test + (Asx @ sol[..., :1]).squeeze(-1)
        cov = A[..., n:, n:] - Asx @ sol[..., 1:]
        return mean, cov

    def want(sec):
        return only is None or only == sec

    # ================================================================== (1a) IndexKernel / Hadamard multitask
    def task_cov(ik):
        B = ik.covar_factor.detach()
        return B @ B.transpose(-1, -2) + torch.diag_embed(ik.var.detach())

    if want("index"):
        for t, r, kb in itertools.product((1, 2, 3, 4), (1, 2, 3), ((), (2,))):
            if r > t:
                continue
            ik = GK.IndexKernel(num_tasks=t, rank=r, batch_shape=torch.Size(kb)).double()
            with torch.no_grad():
                ik.covar_factor.copy_(N(*kb, t, r))
                ik.var = U(0.1, 1.0, *kb, t)
            Kt = task_cov(ik)
            for xb in ((), (2,)):
                i1 = torch.randint(0, t, (*xb, 5, 1), generator=gen)
                i2 = torch.randint(0, t, (*xb, 3, 1), generator=gen)
                inp = {"num_tasks": t, "rank": r, "kernel_batch": list(kb), "covar_factor": tl(ik.covar_factor.detach()), "var": tl(ik.var.detach()),
                       "i1": tl(i1), "i2": tl(i2)}
                bs = torch.broadcast_shapes(torch.Size(kb), torch.Size(xb))
                Kb = Kt.expand(*bs, t, t)
                a = i1.expand(*bs, 5, 1).squeeze(-1)
                b = i2.expand(*bs, 3, 1).squeeze(-1)
                w_full = torch.gather(torch.gather(Kb, -2, a.unsqueeze(-1).expand(*bs, 5, t)), -1, b.unsqueeze(-2).expand(*bs, 5, 3))
                w_sym = torch.gather(torch.gather(Kb, -2, a.unsqueeze(-1).expand(*bs, 5, t)), -1, a.unsqueeze(-2).expand(*bs, 5, 5))
                tag = f"index_kernel/t{t}r{r}/kb{list(kb)}xb{list(xb)}"
                guarded(f"{tag}/full", lambda: cmp(f"{tag}/full", ik(i1, i2).to_dense(), w_full, inp), inp)
                guarded(f"{tag}/sym", lambda: cmp(f"{tag}/sym", ik(i1).to_dense(), w_sym, inp), inp)
                guarded(f"{tag}/diag", lambda: cmp(f"{tag}/diag", ik(i1, diag=True), w_sym.diagonal(dim1=-1, dim2=-2), inp), inp)
            guarded(f"index_kernel/t{t}r{r}/kb{list(kb)}/covar_matrix",
                    lambda: cmp(f"index_kernel/t{t}r{r}/kb{list(kb)}/covar_matrix", ik.covar_matrix.to_dense(), Kt,
                                {"covar_factor": tl(ik.covar_factor.detach()), "var": tl(ik.var.detach())}))
        # Hadamard multitask: product of data kernel and index kernel, and an exact GP built from it
        for t, r, d in ((2, 1, 1), (3, 2, 2)):
            kx = GK.ScaleKernel(GK.RBFKernel(ard_num_dims=d)).double()
            ik = GK.IndexKernel(num_tasks=t, rank=r).double()
            with torch.no_grad():
                kx.base_kernel.lengthscale = U(0.3, 0.9, 1, d)
                kx.outputscale = 1.3
                ik.covar_factor.copy_(N(t, r))
                ik.var = U(0.1, 0.6, t)
            n, ns = 7, 4
            X, Xs = U(0, 1, n, d), U(0, 1, ns, d)
            I, Is = torch.randint(0, t, (n, 1), generator=gen), torch.randint(0, t, (ns, 1), generator=gen)
            y = N(n)
            Kt = task_cov(ik)
            inp = {"model": "Hadamard multitask: ScaleKernel(RBF ard)(x) .mul IndexKernel(i)", "num_tasks": t, "rank": r, "lengthscale": tl(kx.base_kernel.lengthscale.detach()),
                   "outputscale": 1.3, "covar_factor": tl(ik.covar_factor.detach()), "var": tl(ik.var.detach()), "X": tl(X), "I": tl(I), "X_test": tl(Xs), "I_test": tl(Is), "y": tl(y),
                   "noise": 0.1, "mean": 0.2}

            def hk(x1, i1, x2, i2):
                with torch.no_grad():
                    return kx(x1, x2).to_dense() * Kt[i1.squeeze(-1)][:, i2.squeeze(-1)]
            tag = f"hadamard/t{t}r{r}d{d}"
            guarded(f"{tag}/product/full", lambda: cmp(f"{tag}/product/full", kx(X, Xs).mul(ik(I, Is)).to_dense(), hk(X, I, Xs, Is), inp), inp)
            # x1 == x2: MulLinearOperator multiplies root decompositions (jitter of psd_safe_cholesky up to 1e-6 on a rank-deficient factor)
            guarded(f"{tag}/product/sym", lambda: cmp(f"{tag}/product/sym", kx(X).mul(ik(I)).to_dense(), hk(X, I, X, I), inp, tol=1e-5), inp)

            class HGP(gpytorch.models.ExactGP):
                def __init__(self, xi, yy, lik):
                    super().__init__(xi, yy, lik)
                    self.mean_module = gpytorch.means.ConstantMean()
                    self.covar_module, self.task_covar_module = kx, ik

                def forward(self, x, i):
                    return MVN(self.mean_module(x), self.covar_module(x).mul(self.task_covar_module(i)))

            def hmodel():
                lik = gpytorch.likelihoods.GaussianLikelihood().double()
                lik.noise = 0.1
                m = HGP((X, I), y, lik).double()
                m.mean_module.constant.data.fill_(0.2)
                m.eval(); lik.eval()
                with ctx():
                    out = m(Xs, Is)
                    mean, cov = out.mean, out.covariance_matrix
                A = hk(torch.cat([X, Xs]), torch.cat([I, Is]), torch.cat([X, Xs]), torch.cat([I, Is]))
                em, ec = conditional(A, 0.1 * torch.eye(n, dtype=D), 0.2, 0.2, y, n)
                cmp(f"{tag}/exact_gp/mean", mean, em, inp, tol=1e-5)
                cmp(f"{tag}/exact_gp/covariance", cov, ec, inp, tol=1e-5)
            guarded(f"{tag}/exact_gp", hmodel, inp)

    # ================================================================== (1b) MultitaskKernel / LCMKernel
    def kron_interleaved(Kx, Kt):
        n1, n2, t = Kx.size(-2), Kx.size(-1), Kt.size(-1)
        res = Kx[..., :, None, :, None] * Kt[..., None, :, None, :]
        return res.reshape(*res.shape[:-4], n1 * t, n2 * t)

    def data_kernel(name, d, kb):
        kb = torch.Size(kb)
        if name == "rbf_ard":
            k = GK.RBFKernel(ard_num_dims=d, batch_shape=kb)
        elif name == "matern15":
            k = GK.MaternKernel(nu=1.5, batch_shape=kb)
        else:
            k = GK.ScaleKernel(GK.PeriodicKernel(batch_shape=kb), batch_shape=kb)
        k = k.double()
        with torch.no_grad():
            base = k.base_kernel if isinstance(k, GK.ScaleKernel) else k
            base.lengthscale = U(0.3, 1.2, *base.lengthscale.shape)
            if isinstance(k, GK.ScaleKernel):
                k.outputscale = U(0.5, 2.0, *kb)
                base.period_length = U(0.5, 1.5, *base.period_length.shape)
        return k

    def kdesc(k):
        return {n_: tl(p.detach()) for n_, p in k.named_parameters()}

    if want("multitask"):
        combos = list(itertools.product((1, 2, 3), (1, 2, 3), ("rbf_ard", "matern15"), (1, 2)))
        for t, r, kname, d in combos:
            if r > t:
                continue
            for kb, xb in (((), ()), ((), (2,)), ((2,), (2,)), ((2,), ()), ((2,), (3, 2))):
                if not thorough and (kb, xb) not in (((), ()), ((2,), (2,))) and not (t == 2 and r == 1):
                    continue
                dk = data_kernel(kname, d, kb)
                mk = GK.MultitaskKernel(dk, num_tasks=t, rank=r, batch_shape=torch.Size(kb)).double()
                with torch.no_grad():
                    mk.task_covar_module.covar_factor.copy_(N(*kb, t, r))
                    mk.task_covar_module.var = U(0.1, 1.0, *kb, t)
                x1, x2 = U(0, 1, *xb, 4, d), U(0, 1, *xb, 3, d)
                inp = {"kernel": f"MultitaskKernel({kname}, num_tasks={t}, rank={r}, batch_shape={list(kb)})", "params": kdesc(mk), "x1": tl(x1), "x2": tl(x2)}
                with torch.no_grad():
                    Kt = task_cov(mk.task_covar_module)
                    w_full = kron_interleaved(dk(x1, x2).to_dense(), Kt)
                    w_sym = kron_interleaved(dk(x1, x1).to_dense(), Kt)
                tag = f"multitask_kernel/{kname}/t{t}r{r}d{d}/kb{list(kb)}xb{list(xb)}"
                with torch.no_grad():
                    guarded(f"{tag}/full", lambda: cmp(f"{tag}/full", mk(x1, x2).to_dense(), w_full, inp), inp)
                    guarded(f"{tag}/sym", lambda: cmp(f"{tag}/sym", mk(x1).to_dense(), w_sym, inp), inp)
                    guarded(f"{tag}/diag", lambda: cmp(f"{tag}/diag", mk(x1, diag=True), w_sym.diagonal(dim1=-1, dim2=-2), inp), inp)
        # LCM
        for t, ranks, d in ((2, [1, 2], 1), (3, [1, 3, 2], 2), (2, 1, 2)):
            names = ["rbf_ard", "matern15", "periodic"][: len(ranks) if isinstance(ranks, list) else 2]
            for xb in ((), (2,)):
                bases = [data_kernel(nm, d, ()) for nm in names]
                lk = GK.LCMKernel(bases, num_tasks=t, rank=ranks).double()
                with torch.no_grad():
                    for mkq in lk.covar_module_list:
                        mkq.task_covar_module.covar_factor.copy_(N(*mkq.task_covar_module.covar_factor.shape))
                        mkq.task_covar_module.var = U(0.1, 1.0, t)
                x1, x2 = U(0, 1, *xb, 4, d), U(0, 1, *xb, 3, d)
                inp = {"kernel": f"LCMKernel({names}, num_tasks={t}, rank={ranks})", "params": kdesc(lk), "x1": tl(x1), "x2": tl(x2)}
                with torch.no_grad():
                    w_full = sum(kron_interleaved(mkq.data_covar_module(x1, x2).to_dense(), task_cov(mkq.task_covar_module)) for mkq in lk.covar_module_list)
                    w_sym = sum(kron_interleaved(mkq.data_covar_module(x1, x1).to_dense(), task_cov(mkq.task_covar_module)) for mkq in lk.covar_module_list)
                tag = f"lcm_kernel/t{t}ranks{ranks}d{d}/xb{list(xb)}"
                with torch.no_grad():
                    guarded(f"{tag}/full", lambda: cmp(f"{tag}/full", lk(x1, x2).to_dense(), w_full, inp), inp)
                    guarded(f"{tag}/sym", lambda: cmp(f"{tag}/sym", lk(x1).to_dense(), w_sym, inp), inp)
                    guarded(f"{tag}/diag", lambda: cmp(f"{tag}/diag", lk(x1, diag=True), w_sym.diagonal(dim1=-1, dim2=-2), inp), inp)

    # ================================================================== (1c) GridKernel
    def my_full_grid(grid):
        """all grid points, first dimension fastest ("column-major order" of create_data_from_grid's docstring)"""
        sizes = [len(g) for g in grid]
        rows = []
        for multi in itertools.product(*[range(s) for s in reversed(sizes)]):  # last dimension slowest
            idx = tuple(reversed(multi))
            rows.append([float(grid[j][idx[j]]) for j in range(len(grid))])
        return torch.tensor(rows, dtype=D)

    if want("grid"):
        grid_cfgs = [("rbf_ard", [5]), ("matern15", [6]), ("periodic", [5]), ("rbf_ard", [4, 4]), ("rbf_ard", [3, 5]), ("rbf_ard", [4, 2, 3])]
        if thorough:
            grid_cfgs += [("rbf_ard", [6, 3, 4]), ("rbf_ard", [2, 3, 2, 3]), ("matern15", [9])]
        for kname, sizes in grid_cfgs:
            d = len(sizes)
            grid = [torch.linspace(float(U(-1, 0, 1)), float(U(0.5, 2, 1)), s, dtype=D) for s in sizes]
            base = data_kernel(kname, d, ())
            full = my_full_grid(grid)
            inp = {"kernel": f"GridKernel({kname}, grid sizes {sizes})", "grid": [tl(g) for g in grid], "params": kdesc(base)}
            tag0 = f"grid_kernel/{kname}/sizes{sizes}"
            with torch.no_grad():
                Kfull = base(full, full).to_dense()

            def build():
                return GK.GridKernel(base, grid=[g.clone() for g in grid]).double()
            gk0 = guarded(f"{tag0}/construct", build, inp)
            if gk0 is None:
                continue
            cmp(f"{tag0}/full_grid", gk0.full_grid, full, inp, tol=1e-12)
            for toep in (True, False):
                for mode in ("train", "eval"):
                    tag = f"{tag0}/toeplitz={int(toep)}/{mode}"

                    def one():
                        gk = build()
                        gk.train() if mode == "train" else gk.eval()
                        xo1, xo2 = U(-1, 2, 4, d), U(-1, 2, 3, d)
                        xb = full.expand(2, *full.shape)
                        with torch.no_grad(), S.use_toeplitz(toep):
                            gcmp(f"{tag}/on_grid", lambda: gk(full, full).to_dense(), Kfull, inp)
                            gcmp(f"{tag}/on_grid_one_argument", lambda: gk(full).to_dense(), Kfull, inp)
                            gcmp(f"{tag}/on_grid_diag", lambda: gk(full, diag=True), Kfull.diagonal(), inp)
                            gcmp(f"{tag}/off_grid", lambda: gk(xo1, xo2).to_dense(), base(xo1, xo2).to_dense(), inp)
                            gcmp(f"{tag}/grid_vs_other", lambda: gk(full, xo2).to_dense(), base(full, xo2).to_dense(), inp)
                            gcmp(f"{tag}/on_grid_batch", lambda: gk(xb, xb).to_dense(), Kfull.expand(2, *Kfull.shape), inp)
                    guarded(tag, one, inp)
        # create_grid: documented "extend the grid by two points past the specified boundary", sizes as requested
        from gpytorch.utils.grid import create_grid
        for gs, bounds in (([6], [(0.0, 1.0)]), ([5, 9], [(-1.0, 2.0), (0.5, 0.75)])):
            g = guarded(f"create_grid/sizes{gs}", lambda: create_grid(gs, bounds, dtype=D), {"grid_sizes": gs, "grid_bounds": bounds})
            if g is not None:
                ok = all(len(p) == s for p, s in zip(g, gs)) and all(bool((p[1:] - p[:-1] > 0).all()) and float(p[0]) < b[0] and float(p[-1]) > b[1]
                                                                     and bool(((p[1:] - p[:-1]) - (p[1] - p[0])).abs().max() < 1e-12) for p, b in zip(g, bounds))
                rec(f"create_grid/sizes{gs}/sizes_equispaced_covering_bounds", ok, f"grid {[tl(p) for p in g]} for bounds {bounds}", {"grid_sizes": gs, "grid_bounds": bounds})

    # ================================================================== (1d) InducingPointKernel, Titsias bound, SGPR predictions
    class SGPR(gpytorch.models.ExactGP):
        def __init__(self, x, y, lik, Z, d, kname):
            super().__init__(x, y, lik)
            self.mean_module = gpytorch.means.ConstantMean()
            inner = GK.RBFKernel(ard_num_dims=d) if kname == "rbf_ard" else GK.MaternKernel(nu=2.5)
            self.base = GK.ScaleKernel(inner)
            self.covar_module = GK.InducingPointKernel(self.base, inducing_points=Z.clone(), likelihood=lik)

        def forward(self, x):
            return MVN(self.mean_module(x), self.covar_module(x))

    def sgpr_problem(n, m, d, kname, fixed_noise, ns=5):
        X, Z, Xs = U(0, 1, n, d), U(0, 1, m, d), U(0, 1, ns, d)
        y = torch.sin(4 * X[:, 0]) + 0.2 * N(n)
        p = {"n": n, "m": m, "d": d, "kname": kname, "X": X, "Z": Z, "Xs": Xs, "y": y, "ls": U(0.4, 1.0, 1, d if kname == "rbf_ard" else 1), "os": float(U(0.7, 2.0, 1)),
             "mean": float(U(-0.5, 0.5, 1)), "noise": U(0.05, 0.3, n) if fixed_noise else float(U(0.05, 0.3, 1)), "fixed_noise": fixed_noise}
        p["inp"] = {"model": f"ExactGP(ConstantMean, InducingPointKernel(ScaleKernel({kname}), Z), {'FixedNoiseGaussianLikelihood' if fixed_noise else 'GaussianLikelihood'})",
                    "X": tl(X), "y": tl(y), "Z": tl(Z), "X_test": tl(Xs), "lengthscale": tl(p["ls"]), "outputscale": p["os"], "mean_constant": p["mean"], "noise": tl(p["noise"])}
        return p

    def sgpr_model(p, one_d_Z=False):
        if p["fixed_noise"]:
            lik = gpytorch.likelihoods.FixedNoiseGaussianLikelihood(noise=p["noise"].clone()).double()
        else:
            lik = gpytorch.likelihoods.GaussianLikelihood().double()
            lik.noise = p["noise"]
        Z = p["Z"].squeeze(-1) if one_d_Z else p["Z"]
        g = SGPR(p["X"], p["y"], lik, Z, p["d"], p["kname"]).double()
        g.base.base_kernel.lengthscale = p["ls"]
        g.base.outputscale = p["os"]
        g.mean_module.constant.data.fill_(p["mean"])
        return g, lik

    def nystrom(g, a, b):
        with torch.no_grad():
            Z = g.covar_module.inducing_points.detach()
            Kaz, Kbz, Kzz = g.base(a, Z).to_dense(), g.base(b, Z).to_dense(), g.base(Z, Z).to_dense()
            return Kaz @ torch.linalg.solve(Kzz, Kbz.transpose(-1, -2))

    if want("sgpr"):
        cfgs = [(9, 4, 2, "rbf_ard", False), (12, 3, 1, "matern25", False), (10, 5, 2, "rbf_ard", True)]
        if thorough:
            cfgs += [(25, 8, 3, "rbf_ard", False), (6, 6, 1, "rbf_ard", False), (15, 2, 2, "matern25", True)]
        for n, m, d, kname, fixed in cfgs:
            p = sgpr_problem(n, m, d, kname, fixed)
            inp = p["inp"]
            X, Xs, y = p["X"], p["Xs"], p["y"]
            base_tag = f"n{n}m{m}d{d}/{kname}/{'fixed_noise' if fixed else 'gaussian'}"
            R = torch.diag(p["noise"]) if fixed else p["noise"] * torch.eye(n, dtype=D)
            gref, _ = sgpr_model(p)
            with torch.no_grad():
                Kxx, Kss = gref.base(X).to_dense(), gref.base(Xs).to_dense()
            Qxx, Qsx, Qss, Qxs = nystrom(gref, X, X), nystrom(gref, Xs, X), nystrom(gref, Xs, Xs), nystrom(gref, X, Xs)
            # ---- kernel values
            for mode in ("train", "eval"):
                for corr in (True, False):
                    tag = f"inducing_point_kernel/{base_tag}/{mode}/sgpr_diagonal_correction={int(corr)}"

                    def kv():
                        g, lik = sgpr_model(p, one_d_Z=(d == 1))
                        (g.train(), lik.train()) if mode == "train" else (g.eval(), lik.eval())
                        k = g.covar_module
                        with torch.no_grad(), S.sgpr_diagonal_correction(corr):
                            w_sym = Qxx + (torch.diag((Kxx - Qxx).diagonal()) if (mode == "eval" and corr) else 0)
                            cmp(f"{tag}/sym", k(X).to_dense(), w_sym, inp)
                            cmp(f"{tag}/sym_two_arguments", k(X, X.clone()).to_dense(), w_sym, inp)
                            cmp(f"{tag}/diag", k(X, diag=True), w_sym.diagonal(), inp)
                            if mode == "eval":
                                cmp(f"{tag}/cross", k(Xs, X).to_dense(), Qsx, inp)
                                cmp(f"{tag}/cross_transposed", k(X, Xs).to_dense(), Qxs, inp)
                                xb = X.expand(2, n, d)
                                cmp(f"{tag}/sym_batch_inputs", k(xb).to_dense(), w_sym.expand(2, n, n), inp)
                    guarded(tag, kv, inp)
            # ---- training objective == Titsias collapsed bound
            def bound():
                g, lik = sgpr_model(p)
                g.train(); lik.train()
                mll = gpytorch.mlls.ExactMarginalLogLikelihood(lik, g)
                with torch.no_grad():
                    val = mll(g(X), y)
                Sg = Qxx + R
                diff = (y - p["mean"]).unsqueeze(-1)
                lp = -0.5 * (diff.T @ torch.linalg.solve(Sg, diff)).squeeze() - 0.5 * torch.linalg.slogdet(Sg)[1] - 0.5 * n * math.log(2 * math.pi)
                tb = lp - 0.5 * ((Kxx - Qxx).diagonal() / R.diagonal()).sum()
                cmp(f"sgpr_objective/{base_tag}/n_times_mll_eq_titsias_bound", val * n, tb.reshape(val.shape), inp)
                with torch.no_grad():
                    Kn = Kxx + R
                    lml = -0.5 * (diff.T @ torch.linalg.solve(Kn, diff)).squeeze() - 0.5 * torch.linalg.slogdet(Kn)[1] - 0.5 * n * math.log(2 * math.pi)
                rec(f"sgpr_objective/{base_tag}/bound_le_exact_evidence", float(val * n) <= float(lml) + 1e-8, f"n*mll = {float(val * n):.10f}, exact log evidence = {float(lml):.10f}", inp)
            guarded(f"sgpr_objective/{base_tag}", bound, inp)
            # ---- predictions
            for chol, fpv, corr in itertools.product((True, False), (False, True), (True, False)):
                stag = f"{'cholesky' if chol else 'cg'}/fast_pred_var={int(fpv)}/sgpr_diagonal_correction={int(corr)}"
                tol = tol_for(chol)
                A_train = Qxx + (torch.diag((Kxx - Qxx).diagonal()) if corr else 0)
                for where in ("test_inputs", "training_inputs"):
                    tag = f"sgpr_prediction/{base_tag}/{stag}/{where}"

                    def pred():
                        g, lik = sgpr_model(p)
                        g.eval(); lik.eval()
                        with ctx(chol, fpv, False, extra=(S.sgpr_diagonal_correction(corr),)):
                            out = g(Xs if where == "test_inputs" else X)
                            mean, cov = out.mean, out.covariance_matrix
                            if where == "test_inputs":
                                A = torch.cat([torch.cat([A_train, Qxs], -1), torch.cat([Qsx, Kss], -1)], -2)
                                # the matrix the kernel itself represents for the joint inputs (eval mode, same settings)
                                Aker = g.covar_module(torch.cat([X, Xs])).to_dense()
                            else:
                                A = torch.cat([torch.cat([A_train, Qxx], -1), torch.cat([Qxx, Kxx], -1)], -2)
                                Aker = g.covar_module(torch.cat([X, X])).to_dense()
                        em, ec = conditional(A, R, p["mean"], p["mean"], y, n)
                        cmp(f"{tag}/mean", mean, em, inp, tol)
                        cmp(f"{tag}/covariance", cov, ec, inp, tol)
                        km, kc = conditional(Aker, R, p["mean"], p["mean"], y, n)
                        cmp(f"{tag}/mean_vs_dense_conditional_of_kernel_matrix", mean, km, inp, tol)
                        if corr:  # (correction off: the kernel matrix has Q_** as its test block, SGPR prescribes K_**: not comparable)
                            cmp(f"{tag}/variance_vs_dense_conditional_of_kernel_matrix", cov.diagonal(), kc.diagonal(), inp, tol)
                    guarded(tag, pred, inp)

    # ================================================================== (3) Interpolation
    def keys(s):
        s = s.abs()
        return torch.where(s < 1, (1.5 * s - 2.5) * s * s + 1, torch.where(s < 2, ((-0.5 * s + 2.5) * s - 4) * s + 2, torch.zeros_like(s)))

    def my_w1d(g, x):
        """dense (n x G) Keys cubic-convolution weights on the equispaced grid g for interior points g[1] <= x < g[-2]"""
        h = (g[-1] - g[0]) / (len(g) - 1)
        return keys((x.unsqueeze(-1) - g.unsqueeze(0)) / h)

    def lib_W(grid, x):
        from gpytorch.utils.interpolation import Interpolation
        idx, val = Interpolation().interpolate([g.clone() for g in grid], x)
        G = 1
        for g in grid:
            G *= len(g)
        if bool((idx < 0).any() or (idx >= G).any()):
            # the library handed out positions outside the grid: record it against the code, do not crash the harness on scatter
            rec(f"interpolation/{len(grid)}d/sizes{[len(g) for g in grid]}/indices_in_range", False,
                f"Interpolation.interpolate returned indices in [{int(idx.min())}, {int(idx.max())}] for a grid of {G} points", {"grids": [tl(g) for g in grid]})
            idx = idx.clamp(0, G - 1)
        W = torch.zeros(x.size(0), G, dtype=val.dtype)
        W.scatter_add_(1, idx, val)
        return W, idx

    if want("interpolation"):
        cfg1 = [(6, -1.0, 1.0), (9, 0.3, 2.1), (15, -4.0, -1.0), (4, 0.0, 1.0), (5, 0.0, 3.0)]
        for G, lo, hi in cfg1:
            g = torch.linspace(lo, hi, G, dtype=D)
            h = (hi - lo) / (G - 1)
            inside = U(float(g[1]), float(g[-2]) - 1e-9, 25) if G > 4 else U(float(g[1]), float(g[2]) - 1e-9, 25)
            anywhere = U(lo, hi, 25)
            inp = {"grid": tl(g), "interior_points": tl(inside), "points_anywhere": tl(anywhere)}
            tag = f"interpolation/1d/G{G}"

            def one_d():
                W, idx = lib_W([g], anywhere.unsqueeze(-1))
                rec(f"{tag}/indices_in_range", bool((idx >= 0).all() and (idx < G).all()), f"index range [{int(idx.min())}, {int(idx.max())}] for a grid of {G}", inp)
                cmp(f"{tag}/weights_sum_to_one/anywhere", W.sum(-1), torch.ones(25, dtype=D), inp, tol=1e-12)
                Wn, _ = lib_W([g], g.unsqueeze(-1))
                cmp(f"{tag}/exact_at_nodes", Wn, torch.eye(G, dtype=D), inp, tol=1e-12)
                Wi, _ = lib_W([g], inside.unsqueeze(-1))
                cmp(f"{tag}/weights_sum_to_one/interior", Wi.sum(-1), torch.ones(25, dtype=D), inp, tol=1e-12)
                for nm, q in (("linear", lambda z: 0.7 - 1.3 * z), ("quadratic", lambda z: 0.4 + 0.5 * z - 1.1 * z * z)):
                    cmp(f"{tag}/reproduces_{nm}/interior", Wi @ q(g), q(inside), inp, tol=1e-10)
                cmp(f"{tag}/keys_weights/interior", Wi, my_w1d(g, inside), inp, tol=1e-10)
                # a cubic is NOT reproduced (third-order method): the error must be O(h^3), bounded by max|q'''| h^3 (loose constant 1)
                cub = lambda z: z ** 3  # noqa: E731
                errc = float((Wi @ cub(g) - cub(inside)).abs().max())
                rec(f"{tag}/cubic_error_is_third_order/interior", errc <= 6 * h ** 3, f"max error on x^3 = {errc:.3e}, h^3 = {h ** 3:.3e}", inp)
            guarded(tag, one_d, inp)
        cfgd = [([6, 9], [(-1.0, 1.0), (0.0, 5.0)]), ([7, 5, 6], [(0.0, 1.0), (-2.0, -1.0), (10.0, 14.0)])]
        if thorough:
            cfgd += [([12, 5], [(0.0, 0.1), (-3.0, 3.0)]), ([5, 6, 5, 7], [(0.0, 1.0), (0.0, 2.0), (-1.0, 0.0), (3.0, 9.0)])]
        for sizes, bnds in cfgd:
            d = len(sizes)
            grid = [torch.linspace(lo, hi, s, dtype=D) for s, (lo, hi) in zip(sizes, bnds)]
            npts = 12
            inside = torch.stack([U(float(g[1]), float(g[-2]) - 1e-9, npts) for g in grid], -1)
            anywhere = torch.stack([U(float(g[0]), float(g[-1]), npts) for g in grid], -1)
            nodes = torch.cartesian_prod(*grid) if d > 1 else grid[0].unsqueeze(-1)  # C order: last dimension fastest
            inp = {"grids": [tl(g) for g in grid], "interior_points": tl(inside), "points_anywhere": tl(anywhere)}
            tag = f"interpolation/{d}d/sizes{sizes}"

            def multi_d():
                W, idx = lib_W(grid, anywhere)
                Gt = nodes.size(0)
                rec(f"{tag}/indices_in_range", bool((idx >= 0).all() and (idx < Gt).all()), f"index range [{int(idx.min())}, {int(idx.max())}] for {Gt} grid points", inp)
                cmp(f"{tag}/weights_sum_to_one/anywhere", W.sum(-1), torch.ones(npts, dtype=D), inp, tol=1e-12)
                Wn, _ = lib_W(grid, nodes)
                cmp(f"{tag}/exact_at_nodes", Wn, torch.eye(Gt, dtype=D), inp, tol=1e-12)
                Wi, _ = lib_W(grid, inside)
                coef = [(0.3 + 0.1 * j, -0.7 + 0.2 * j, 0.9 - 0.15 * j) for j in range(d)]

                def q(pts):
                    out = torch.ones(pts.size(0), dtype=D)
                    for j, (a, b, c) in enumerate(coef):
                        out = out * (a + b * pts[:, j] + c * pts[:, j] ** 2)
                    return out
                cmp(f"{tag}/reproduces_product_of_quadratics/interior", Wi @ q(nodes), q(inside), inp, tol=1e-9)
                for j in range(d):
                    cmp(f"{tag}/reproduces_coordinate_{j}/interior", Wi @ nodes[:, j], inside[:, j], inp, tol=1e-10)
                # tensor product of the 1-d Keys weights, C order
                Wt = my_w1d(grid[0], inside[:, 0])
                for j in range(1, d):
                    Wt = (Wt.unsqueeze(-1) * my_w1d(grid[j], inside[:, j]).unsqueeze(-2)).reshape(npts, -1)
                cmp(f"{tag}/tensor_product_of_keys_weights/interior", Wi, Wt, inp, tol=1e-10)
            guarded(tag, multi_d, inp)

        # ---- kernel level: GridInterpolationKernel == W K_UU W^T with weights built here; convergence under refinement
        def ski_kernel(base, sizes, bounds, d):
            k = GK.GridInterpolationKernel(base, grid_size=sizes, num_dims=d, grid_bounds=bounds).double()
            return k

        def my_ski(k, base, x1, x2):
            """w_x1^T K_UU w_x2 with the tensor product Keys weights on the kernel's own grid and K_UU = product over dims of the
            1-d base kernel matrices (what GridKernel documents for interpolation mode), in C order"""
            grid = [g.detach().to(D) for g in k.grid]
            W1 = my_w1d(grid[0], x1[:, 0])
            W2 = my_w1d(grid[0], x2[:, 0])
            for j in range(1, len(grid)):
                W1 = (W1.unsqueeze(-1) * my_w1d(grid[j], x1[:, j]).unsqueeze(-2)).reshape(x1.size(0), -1)
                W2 = (W2.unsqueeze(-1) * my_w1d(grid[j], x2[:, j]).unsqueeze(-2)).reshape(x2.size(0), -1)
            nodes = torch.cartesian_prod(*grid) if len(grid) > 1 else grid[0].unsqueeze(-1)
            with torch.no_grad():
                Kuu = base(nodes, nodes).to_dense()
            return W1 @ Kuu @ W2.T

        for d, sizes, bounds in ((1, [14], [(0.0, 1.0)]), (2, [9, 13], [(0.0, 1.0), (-1.0, 3.0)]), (2, [10, 8], None), (3, [6, 8, 7], [(0.0, 1.0), (0.0, 2.0), (-1.0, 0.0)])):
            base = data_kernel("rbf_ard", d, ())
            tag = f"grid_interpolation_kernel/d{d}/sizes{sizes}/{'fixed_bounds' if bounds else 'data_grid'}"
            inp = {"kernel": f"GridInterpolationKernel(RBF ard, grid_size={sizes}, num_dims={d}, grid_bounds={bounds})", "lengthscale": tl(base.lengthscale.detach())}
            k = guarded(f"{tag}/construct", lambda: ski_kernel(base, sizes, bounds, d), inp)
            if k is None:
                continue
            if bounds is not None:  # points in the interior g[1] < x < g[-2] of the kernel's own grid (cubic stencil available)
                gr = [g.detach() for g in k.grid]
                x1 = torch.stack([U(float(g[1]) + 1e-6, float(g[-2]) - 1e-6, 6) for g in gr], -1)
                x2 = torch.stack([U(float(g[1]) + 1e-6, float(g[-2]) - 1e-6, 4) for g in gr], -1)
            else:  # the data-determined grid extends two cells beyond the data
                x1, x2 = U(0, 1, 6, d), U(0, 1, 4, d)
            inp = dict(inp, x1=tl(x1), x2=tl(x2))
            tolk = 1e-5 if bounds else 1e-6

            def ski():
                with torch.no_grad():
                    if bounds is None:
                        xx = torch.cat([x1, x2])
                        got_sym = k(xx).to_dense()  # the data-determined grid is fixed by this first call
                        cmp(f"{tag}/sym", got_sym, my_ski(k, base, xx, xx), inp, tolk)
                    cmp(f"{tag}/full", k(x1, x2).to_dense(), my_ski(k, base, x1, x2), inp, tolk)
                    cmp(f"{tag}/sym_x1", k(x1).to_dense(), my_ski(k, base, x1, x1), inp, tolk)
                    cmp(f"{tag}/diag", k(x1, diag=True), my_ski(k, base, x1, x1).diagonal(), inp, tolk)
            guarded(tag, ski, inp)
        for d, seq in ((1, [16, 32, 64, 128]), (2, [10, 20, 40])):
            base = data_kernel("rbf_ard", d, ())
            with torch.no_grad():
                base.lengthscale = torch.full((1, d), 0.3, dtype=D)
            x = U(0.05, 0.95, 30, d)
            inp = {"kernel": f"GridInterpolationKernel(RBF lengthscale 0.3, grid_size=G, grid_bounds=[(0,1)]*{d}) for G in {seq}", "x": tl(x)}
            tag = f"grid_interpolation_kernel/convergence/d{d}"

            def conv():
                with torch.no_grad():
                    exact = base(x).to_dense()
                    errs = []
                    for G in seq:
                        k = ski_kernel(base, [G] * d, [(0.0, 1.0)] * d, d)
                        errs.append(float((k(x).to_dense() - exact).abs().max()))
                det = "max |SKI - base| for grid sizes " + ", ".join(f"{G}: {e:.3e}" for G, e in zip(seq, errs))
                rec(f"{tag}/error_decreases", all(b < a for a, b in zip(errs, errs[1:])), det, inp)
                rec(f"{tag}/third_order_rate", all(a / max(b, 1e-300) > 4 for a, b in zip(errs, errs[1:])), det, inp)
                rec(f"{tag}/finest_grid_error_below_1e-4", errs[-1] < 1e-4, det, inp)
            guarded(tag, conv, inp)

    # ================================================================== (2a) KISS-GP prediction strategy
    class KISS(gpytorch.models.ExactGP):
        def __init__(self, x, y, lik, d, sizes, bounds, kname):
            super().__init__(x, y, lik)
            self.mean_module = gpytorch.means.ConstantMean()
            self.base = GK.RBFKernel(ard_num_dims=d) if kname == "rbf_ard" else GK.MaternKernel(nu=2.5, ard_num_dims=d)
            self.gk = GK.GridInterpolationKernel(self.base, grid_size=sizes, num_dims=d, grid_bounds=bounds)
            self.covar_module = GK.ScaleKernel(self.gk)

        def forward(self, x):
            return MVN(self.mean_module(x), self.covar_module(x))

    def kiss_problem(n, d, sizes, bounds, kname, ns=5, nf=3):
        X = U(0.05, 0.95, n, d)
        lo, hi = X.min(0)[0], X.max(0)[0]
        # test / fantasy inputs strictly inside the range of the training inputs (so a data-determined grid is not rebuilt)
        Xs = lo + (hi - lo) * U(0.02, 0.98, ns, d)
        Xf = lo + (hi - lo) * U(0.02, 0.98, nf, d)
        p = {"n": n, "d": d, "sizes": sizes, "bounds": bounds, "kname": kname, "X": X, "Xs": Xs, "Xf": Xf, "y": torch.sin(4 * X[:, 0]) + 0.2 * N(n), "yf": N(nf),
             "ls": U(0.3, 0.8, 1, d), "os": float(U(0.7, 2.0, 1)), "mean": float(U(-0.5, 0.5, 1)), "noise": float(U(0.05, 0.3, 1))}
        p["inp"] = {"model": f"ExactGP(ConstantMean, ScaleKernel(GridInterpolationKernel({kname}, grid_size={sizes}, num_dims={d}, grid_bounds={bounds})), GaussianLikelihood)",
                    "X": tl(X), "y": tl(p["y"]), "X_test": tl(Xs), "X_fantasy": tl(Xf), "y_fantasy": tl(p["yf"]), "lengthscale": tl(p["ls"]), "outputscale": p["os"],
                    "mean_constant": p["mean"], "noise": p["noise"]}
        return p

    def kiss_model(p, X=None, y=None):
        lik = gpytorch.likelihoods.GaussianLikelihood().double()
        lik.noise = p["noise"]
        g = KISS(p["X"] if X is None else X, p["y"] if y is None else y, lik, p["d"], p["sizes"], p["bounds"], p["kname"]).double()
        g.base.lengthscale = p["ls"]
        g.covar_module.outputscale = p["os"]
        g.mean_module.constant.data.fill_(p["mean"])
        g.eval(); lik.eval()
        return g, lik

    def kiss_dense(g, p, X, y, Xs):
        """dense conditional of the matrix the model's kernel represents NOW for cat(X, Xs)"""
        with torch.no_grad():
            A = g.covar_module(torch.cat([X, Xs])).to_dense()
        nn = X.size(0)
        return conditional(A, p["noise"] * torch.eye(nn, dtype=D), p["mean"], p["mean"], y, nn)

    if want("kissgp"):
        cfgs = [(12, 1, [14], [(0.0, 1.0)], "rbf_ard"), (14, 2, [8, 11], [(0.0, 1.0), (0.0, 1.0)], "rbf_ard"), (12, 1, [12], None, "matern25"), (10, 2, [9, 7], None, "rbf_ard")]
        if thorough:
            cfgs += [(40, 1, [30], [(0.0, 1.0)], "matern25"), (30, 2, [12, 9], [(-0.5, 1.5), (0.0, 1.0)], "matern25"), (20, 3, [6, 7, 8], None, "rbf_ard")]
        for n, d, sizes, bounds, kname in cfgs:
            p = kiss_problem(n, d, sizes, bounds, kname)
            inp = p["inp"]
            base_tag = f"n{n}d{d}/sizes{sizes}/{'fixed_bounds' if bounds else 'data_grid'}/{kname}"
            for chol, fpv, fps in itertools.product((True, False), (False, True), (False, True)):
                stag = settings_tag(chol, fpv, fps)
                tag = f"kissgp_prediction/{base_tag}/{stag}"
                state = {}

                def pred():
                    g, lik = kiss_model(p)
                    with ctx(chol, fpv, fps):
                        out = g(p["Xs"])
                        mean, cov = out.mean, out.covariance_matrix
                    em, ec = kiss_dense(g, p, p["X"], p["y"], p["Xs"])
                    cmp(f"{tag}/mean", mean, em, inp, tol_for(chol))
                    cmp(f"{tag}/covariance", cov, ec, inp, tol_for(chol, fps))
                    state["g"] = g
                guarded(tag, pred, inp)
                ftag = f"kissgp_fantasy/{base_tag}/{stag}"

                def fant():
                    g = state["g"]
                    with ctx(chol, fpv, fps):
                        fm = g.get_fantasy_model(p["Xf"], p["yf"])
                        out = fm(p["Xs"])
                        mean, cov = out.mean, out.covariance_matrix
                    em, ec = kiss_dense(g, p, torch.cat([p["X"], p["Xf"]]), torch.cat([p["y"], p["yf"]]), p["Xs"])
                    cmp(f"{ftag}/mean", mean, em, inp, tol_for(chol, base=1e-5))
                    cmp(f"{ftag}/covariance", cov, ec, inp, tol_for(chol, fps, base=1e-5))
                    # the same data given to a fresh model must give the same answer (model trained on X u X_f)
                if "g" in state:
                    guarded(ftag, fant, inp)
            # a sequence of calls with different settings on ONE model (cache switches between the two covariance caches)
            seqs = [((True, True), (True, False), (False, False), (False, True), (True, True)), ((False, True), (True, False), (False, True))]
            for si, seq in enumerate(seqs):
                tag = f"kissgp_sequence/{base_tag}/seq{si}"

                def sq():
                    g, lik = kiss_model(p)
                    em, ec = None, None
                    for step, (fpv, fps) in enumerate(seq):
                        with ctx(True, fpv, fps):
                            out = g(p["Xs"])
                            mean, cov = out.mean, out.covariance_matrix
                        if em is None:
                            em, ec = kiss_dense(g, p, p["X"], p["y"], p["Xs"])
                        hist = ">".join(f"v{int(a)}s{int(b)}" for a, b in seq[: step + 1])
                        cmp(f"{tag}/step{step}/{hist}/mean", mean, em, inp, 1e-6)
                        cmp(f"{tag}/step{step}/{hist}/covariance", cov, ec, inp, tol_for(True, fps))
                guarded(tag, sq, inp)
        # data-determined grid, prediction OUTSIDE the range of the training inputs: the kernel rebuilds its grid
        for d, sizes in ((1, [12]), (2, [8, 8])):
            p = kiss_problem(10, d, sizes, None, "rbf_ard")
            p["Xs"] = torch.cat([p["Xs"][:2], p["X"].max(0)[0].unsqueeze(0) + 0.4, p["X"].min(0)[0].unsqueeze(0) - 0.3])
            inp = dict(p["inp"], X_test=tl(p["Xs"]))
            tag = f"kissgp_prediction/data_grid_rebuilt_by_out_of_range_test_inputs/d{d}/sizes{sizes}"

            def oor():
                g, lik = kiss_model(p)
                with ctx():
                    out = g(p["Xs"])
                    mean, cov = out.mean, out.covariance_matrix
                    out2 = g(p["Xs"])
                    mean2, cov2 = out2.mean, out2.covariance_matrix
                em, ec = kiss_dense(g, p, p["X"], p["y"], p["Xs"])  # the grid the kernel has now covers X and X_test
                cmp(f"{tag}/first_call/mean", mean, em, inp)
                cmp(f"{tag}/first_call/covariance", cov, ec, inp)
                cmp(f"{tag}/second_call/mean", mean2, em, inp)
                cmp(f"{tag}/second_call/covariance", cov2, ec, inp)
            guarded(tag, oor, inp)

        # the data-determined grid: k(x1, x2) must not depend on which OTHER points are in the call (one kernel matrix for the joint)
        for d, sizes in ((1, [12]), (2, [9, 7])):
            base = data_kernel("rbf_ard", d, ())
            Xa, Xb = U(0, 1, 8, d), U(0.3, 0.7, 4, d)
            inp = {"kernel": f"GridInterpolationKernel(RBF ard, grid_size={sizes}, num_dims={d})  (grid_bounds=None)", "lengthscale": tl(base.lengthscale.detach()), "X": tl(Xa), "X_inside_range_of_X": tl(Xb),
                   "calls": "k(cat(X, Xb)) then k(Xb, Xb) then k(cat(X, Xb)) again"}
            tag = f"grid_interpolation_kernel/data_grid/d{d}/sizes{sizes}"

            def dyn():
                k = GK.GridInterpolationKernel(base, grid_size=sizes, num_dims=d).double()
                k.eval()
                with torch.no_grad():
                    J = k(torch.cat([Xa, Xb])).to_dense()
                    g1 = [g.clone() for g in k.grid]
                    Kbb = k(Xb, Xb).to_dense()
                    g2 = [g.clone() for g in k.grid]
                    J2 = k(torch.cat([Xa, Xb])).to_dense()
                cmp(f"{tag}/block_of_joint_eq_kernel_on_subset", Kbb, J[8:, 8:], inp)
                rec(f"{tag}/grid_kept_for_inputs_inside_the_grid", all(torch.equal(a, b) for a, b in zip(g1, g2)),
                    f"grid after k(cat(X, Xb)): dim 0 [{float(g1[0][0]):.4f}, {float(g1[0][-1]):.4f}]; after k(Xb, Xb) with Xb inside the range of X: [{float(g2[0][0]):.4f}, {float(g2[0][-1]):.4f}]", inp)
                cmp(f"{tag}/joint_reproducible", J2, J, inp)
            guarded(tag, dyn, inp)

    # ================================================================== (2a') batched models (batch shape (2,): batched data, hyper-parameters, noise)
    class BGP(gpytorch.models.ExactGP):
        def __init__(self, x, y, lik, kern, bshape):
            super().__init__(x, y, lik)
            self.mean_module = gpytorch.means.ConstantMean(batch_shape=bshape)
            self.covar_module = kern

        def forward(self, x):
            return MVN(self.mean_module(x), self.covar_module(x))

    if want("batch"):
        bs = torch.Size([2])
        n, d, ns, m = 10, 1, 4, 4
        X, Xs = U(0.1, 0.9, 2, n, d), U(0.1, 0.9, 2, ns, d)
        y = N(2, n)
        ls, osc, mu, s2 = U(0.3, 0.8, 2, 1, 1), U(0.7, 2.0, 2), U(-0.5, 0.5, 2), U(0.05, 0.3, 2, 1)
        Zb, Wr = U(0.1, 0.9, 2, m, d), N(2, d, 3)
        inp0 = {"batch_shape": [2], "X": tl(X), "y": tl(y), "X_test": tl(Xs), "lengthscale": tl(ls), "outputscale": tl(osc), "mean_constant": tl(mu), "noise": tl(s2)}

        def bmodel(kind):
            lik = gpytorch.likelihoods.GaussianLikelihood(batch_shape=bs).double()
            lik.noise = s2
            inner = GK.RBFKernel(batch_shape=bs)
            if kind == "kissgp":
                kern = GK.ScaleKernel(GK.GridInterpolationKernel(inner, grid_size=12, num_dims=d, grid_bounds=[(0.0, 1.0)]), batch_shape=bs)
            elif kind == "rff":
                inner = GK.RFFKernel(num_samples=3, num_dims=d, batch_shape=bs)
                kern = GK.ScaleKernel(inner, batch_shape=bs)
            else:
                kern = GK.InducingPointKernel(GK.ScaleKernel(inner, batch_shape=bs), inducing_points=Zb.clone(), likelihood=lik)
            g = BGP(X, y, lik, kern, bs).double()
            if kind == "rff":
                inner.randn_weights.copy_(Wr)
            inner.lengthscale = ls
            (kern.base_kernel if kind == "sgpr" else kern).outputscale = osc
            g.mean_module.constant.data.copy_(mu)
            g.eval(); lik.eval()
            return g, lik

        for kind in ("kissgp", "rff", "sgpr"):
            for chol, fpv in itertools.product((True, False), (False, True)):
                tag = f"batch_model/{kind}/batch[2]/{'cholesky' if chol else 'cg'}/fast_pred_var={int(fpv)}"
                inp = dict(inp0, model=kind, inducing_points=tl(Zb) if kind == "sgpr" else None, randn_weights=tl(Wr) if kind == "rff" else None)

                def bp():
                    g, lik = bmodel(kind)
                    with ctx(chol, fpv, False):
                        out = g(Xs)
                        mean, cov = out.mean, out.covariance_matrix
                        XX = torch.cat([X, Xs], -2)
                        if kind == "sgpr":
                            bk = g.covar_module.base_kernel
                            Kf, Kfz, Kzz = bk(XX).to_dense(), bk(XX, Zb).to_dense(), bk(Zb).to_dense()
                            Q = Kfz @ torch.linalg.solve(Kzz, Kfz.transpose(-1, -2))
                            A = Q.clone()
                            A[..., :n, :n] += torch.diag_embed((Kf - Q).diagonal(dim1=-1, dim2=-2)[..., :n])  # default correction on
                            A[..., n:, n:] = Kf[..., n:, n:]
                        else:
                            A = g.covar_module(XX).to_dense()
                    em, ec = conditional(A, s2.unsqueeze(-1) * torch.eye(n, dtype=D), mu.unsqueeze(-1), mu.unsqueeze(-1), y, n)
                    cmp(f"{tag}/mean", mean, em, inp, tol_for(chol))
                    cmp(f"{tag}/covariance", cov, ec, inp, tol_for(chol, base=1e-5 if kind == "rff" else 1e-6))
                guarded(tag, bp, inp)
        # KISS-GP with heteroskedastic fixed noise, prediction and fantasy update with fantasy noise
        noise_f, nf_f = U(0.05, 0.3, n), U(0.05, 0.3, 2)
        X1, y1, Xs1, Xf1, yf1 = X[0], y[0], Xs[0], U(0.1, 0.9, 2, d), N(2)
        inp = {"model": "ExactGP(ZeroMean-like ConstantMean 0, ScaleKernel(GridInterpolationKernel(RBF, 12, grid_bounds=[(0,1)])), FixedNoiseGaussianLikelihood(noise))", "X": tl(X1), "y": tl(y1),
               "noise": tl(noise_f), "X_test": tl(Xs1), "X_fantasy": tl(Xf1), "y_fantasy": tl(yf1), "fantasy_noise": tl(nf_f), "lengthscale": float(ls[0]), "outputscale": float(osc[0])}
        for fpv in (False, True):
            tag = f"kissgp_prediction/fixed_noise/fast_pred_var={int(fpv)}"
            state = {}

            def fnp():
                lik = gpytorch.likelihoods.FixedNoiseGaussianLikelihood(noise=noise_f.clone()).double()
                kern = GK.ScaleKernel(GK.GridInterpolationKernel(GK.RBFKernel(), grid_size=12, num_dims=d, grid_bounds=[(0.0, 1.0)])).double()
                kern.base_kernel.base_kernel.lengthscale = float(ls[0])
                kern.outputscale = float(osc[0])
                g = BGP(X1, y1, lik, kern, torch.Size([])).double()
                g.mean_module.constant.data.fill_(0.0)
                g.eval(); lik.eval()
                with ctx(True, fpv, False):
                    out = g(Xs1)
                    mean, cov = out.mean, out.covariance_matrix
                    A = g.covar_module(torch.cat([X1, Xs1])).to_dense()
                em, ec = conditional(A, torch.diag(noise_f), 0.0, 0.0, y1, n)
                cmp(f"{tag}/mean", mean, em, inp)
                cmp(f"{tag}/covariance", cov, ec, inp)
                state["g"] = g
            guarded(tag, fnp, inp)
            ftag = f"kissgp_fantasy/fixed_noise/fast_pred_var={int(fpv)}"

            def fnf():
                g = state["g"]
                with ctx(True, fpv, False):
                    fm = g.get_fantasy_model(Xf1, yf1, noise=nf_f)
                    out = fm(Xs1)
                    mean, cov = out.mean, out.covariance_matrix
                    A = g.covar_module(torch.cat([X1, Xf1, Xs1])).to_dense()
                em, ec = conditional(A, torch.diag(torch.cat([noise_f, nf_f])), 0.0, 0.0, torch.cat([y1, yf1]), n + 2)
                cmp(f"{ftag}/mean", mean, em, inp, 1e-5)
                cmp(f"{ftag}/covariance", cov, ec, inp, 1e-5)
            if "g" in state:
                guarded(ftag, fnf, inp)

    # ================================================================== (2b) RFF prediction strategy
    class RFFGP(gpytorch.models.ExactGP):
        def __init__(self, x, y, lik, nfeat, d, scale):
            super().__init__(x, y, lik)
            self.mean_module = gpytorch.means.ConstantMean()
            self.rff = GK.RFFKernel(num_samples=nfeat, num_dims=d)
            self.covar_module = GK.ScaleKernel(self.rff) if scale else self.rff

        def forward(self, x):
            return MVN(self.mean_module(x), self.covar_module(x))

    if want("rff"):
        cfgs = [(12, 2, 3, True), (8, 1, 6, True), (10, 2, 4, False), (6, 3, 5, False)]
        if thorough:
            cfgs += [(40, 2, 10, True), (15, 1, 20, False), (10, 2, 5, True)]
        for n, d, nfeat, scale in cfgs:
            X, Xs = U(0, 1, n, d), U(0, 1, 5, d)
            y = torch.sin(4 * X[:, 0]) + 0.2 * N(n)
            ls, osc, mu, s2 = U(0.3, 0.9, 1, 1), float(U(0.7, 2.0, 1)), float(U(-0.5, 0.5, 1)), float(U(0.05, 0.3, 1))
            Wr = N(d, nfeat)

            def rff_model():
                lik = gpytorch.likelihoods.GaussianLikelihood().double()
                lik.noise = s2
                g = RFFGP(X, y, lik, nfeat, d, scale).double()
                g.rff.randn_weights.copy_(Wr)
                g.rff.lengthscale = ls
                if scale:
                    g.covar_module.outputscale = osc
                g.mean_module.constant.data.fill_(mu)
                g.eval(); lik.eval()
                return g, lik

            def feat(x):
                z = x @ (Wr / ls.transpose(-1, -2))
                return torch.cat([torch.cos(z), torch.sin(z)], -1) / math.sqrt(nfeat)
            inp = {"model": f"ExactGP(ConstantMean, {'ScaleKernel(' if scale else ''}RFFKernel(num_samples={nfeat}, num_dims={d}){')' if scale else ''}, GaussianLikelihood)",
                   "randn_weights": tl(Wr), "lengthscale": tl(ls), "outputscale": osc if scale else None, "mean_constant": mu, "noise": s2, "X": tl(X), "y": tl(y), "X_test": tl(Xs)}
            base_tag = f"n{n}d{d}/features{nfeat}{'_lowrank' if 2 * nfeat < n else '_fullrank'}/{'scaled' if scale else 'unscaled'}"
            Zf = feat(torch.cat([X, Xs]))
            Adoc = (osc if scale else 1.0) * Zf @ Zf.T  # documented feature inner product
            for chol, fpv in itertools.product((True, False), (False, True)):
                tag = f"rff_prediction/{base_tag}/{'cholesky' if chol else 'cg'}/fast_pred_var={int(fpv)}"

                def pred():
                    g, lik = rff_model()
                    with ctx(chol, fpv, False):
                        out = g(Xs)
                        mean, cov = out.mean, out.covariance_matrix
                        A = g.covar_module(torch.cat([X, Xs])).to_dense()
                    cmp(f"rff_kernel/{base_tag}/joint_matrix_eq_feature_inner_product", A, Adoc, inp)
                    em, ec = conditional(A, s2 * torch.eye(n, dtype=D), mu, mu, y, n)
                    # (the psd_safe_cholesky of I - Z^T (Z Z^T + s2)^-1 Z may need jitter when 2D > n: rank deficient; stated 1e-5)
                    cmp(f"{tag}/mean", mean, em, inp, tol_for(chol))
                    cmp(f"{tag}/covariance", cov, ec, inp, tol_for(chol, base=1e-5 if 2 * nfeat >= n else 1e-6))
                guarded(tag, pred, inp)

    if want("interpolation"):
        # a data-determined grid that is rebuilt (inputs outside the current tight bounds) in EVALUATION mode: the kernel must be W K_UU W^T on
        # the NEW grid (the eval-mode cache of K_UU belongs to the old grid and has to be dropped when the grid changes)
        for toep in (True, False):
            def regrid(toep=toep):
                with torch.no_grad(), S.use_toeplitz(toep):
                    base = gpytorch.kernels.RBFKernel().double()
                    base.lengthscale = 0.4
                    k = gpytorch.kernels.GridInterpolationKernel(base, grid_size=14, num_dims=1).double().eval()
                    xa = torch.linspace(0.0, 1.0, 7, dtype=D).unsqueeze(-1)
                    xb = torch.linspace(-2.0, 3.0, 9, dtype=D).unsqueeze(-1)
                    k(xa).to_dense()
                    got = k(xb).to_dense()
                    g = k.grid[0].to(D)
                    W = my_w1d(g, xb.squeeze(-1))
                    Kuu = torch.exp(-0.5 * (g.unsqueeze(-1) - g.unsqueeze(0)) ** 2 / 0.4 ** 2)
                    cmp(f"grid_interpolation_kernel/data_grid/regrid_in_eval_mode/toeplitz={int(toep)}/kernel_is_W_Kuu_Wt_on_the_new_grid", got, W @ Kuu @ W.T,
                        {"first_inputs": tl(xa), "second_inputs": tl(xb), "grid_after": tl(g)}, tol=1e-5)
            guarded(f"grid_interpolation_kernel/data_grid/regrid_in_eval_mode/toeplitz={int(toep)}", regrid)
    return {"name": "C09 structured kernels / prediction strategies vs dense meaning (float64)", "evaluations": ev, "distinct_nontrivial": len(seen),
            "bound": ("tasks 1..4, ranks 1..3, kernel / input batch shapes () (2,) (3,2); grids of 2..15 points per dimension, d <= 3 (4 thorough), ragged; n <= 14 train / 5 test / 3 fantasy points "
                      "(<= 40 thorough), m <= 6 inducing points, 3..6 (<= 20) random features; settings {cholesky, cg} x fast_pred_var x fast_pred_samples x sgpr_diagonal_correction x use_toeplitz; "
                      "setting sequences of length <= 5 on one model; refinement sequences 16..128 (1-d), 10..40 (2-d)"),
            "rule": "a case = (family, configuration incl. sizes / batch shapes / settings, quantity); distinct by that key", "samples": samples[:3], "violations": violations, "wall_s": round(time.time() - t0, 2)}
