"""C16 bounded stand-in (NOT counted as proved): every NaN pattern on small data sets, real models, float64.

Single-output exact GP (n = 4 quick / 5 thorough: all 2^n - 2 patterns with at least one observed and one missing value, plus 'none missing'),
batched targets (per-batch-element patterns), multitask (n = 3, t = 2, interleaved and non-interleaved distributions), policies 'mask' and
'fill' (where supported) in both orders on the same model object:
  * posterior mean and covariance == those of a model trained on the observed subset (same hyper-parameters)
  * n * MLL(mask) == n_obs * MLL(deleted data)
  * expected_log_prob / log_marginal terms == the terms of the observed entries (missing entries contribute nothing)
  * no NaN / inf in any output
"""
from __future__ import annotations

import itertools
import time
import warnings


def run(tier="quick", seed=0, only=None):
    import torch
    import gpytorch
    from gpytorch.distributions import MultivariateNormal as MVN, MultitaskMultivariateNormal as MT
    warnings.filterwarnings("ignore")
    t0 = time.time()
    torch.manual_seed(seed)
    D = torch.double
    ev, seen, violations, samples = 0, set(), [], []

    def rec(key, ok, detail="", inp=None):
        nonlocal ev
        ev += 1
        seen.add(key)
        if len(samples) < 3:
            samples.append({"case": key, "ok": bool(ok), "detail": str(detail)[:160]})
        if not ok and not any(v["key"] == key for v in violations):
            violations.append({"key": key, "input": inp or {"case": key}, "detail": str(detail), "entry": None})

    def guarded(key, fn, inp=None):
        try:
            fn()
        except Exception as e:  # noqa: BLE001
            from engine.runner import classify_replay_exception
            r = classify_replay_exception(e)
            if r.get("violates"):
                rec(key, False, r["detail"][:500], inp)
            else:
                raise

    class GP(gpytorch.models.ExactGP):
        def __init__(self, x, y, lik):
            super().__init__(x, y, lik)
            self.mean_module = gpytorch.means.ConstantMean()
            self.covar_module = gpytorch.kernels.ScaleKernel(gpytorch.kernels.RBFKernel())

        def forward(self, x):
            return MVN(self.mean_module(x), self.covar_module(x))

    def make(x, y):
        lik = gpytorch.likelihoods.GaussianLikelihood()
        m = GP(x, y, lik).double()
        m.covar_module.base_kernel.lengthscale = 0.6
        m.covar_module.outputscale = 1.3
        m.mean_module.constant.data.fill_(0.2)
        lik.noise = 0.15
        return m.double(), lik.double()

    def close(a, b, tol=1e-7):
        return a.shape == b.shape and bool(torch.isfinite(a).all()) and torch.allclose(a, b, atol=tol, rtol=1e-7)

    n = 4 if tier == "quick" else 5
    x = torch.linspace(0, 1, n, dtype=D).unsqueeze(-1)
    y_full = torch.sin(6 * x).squeeze(-1) + 0.1 * torch.randn(n, dtype=D)
    xs = torch.tensor([[0.11], [0.52], [0.93]], dtype=D)
    patterns = [p for p in itertools.product([False, True], repeat=n) if 0 < sum(p) < n] + [tuple([False] * n)]  # True = missing
    settings = gpytorch.settings

    if only in (None, "single"):
        for pat in patterns:
            miss = torch.tensor(pat)
            ptag = "".join("x" if q else "o" for q in pat)
            y = y_full.clone()
            y[miss] = float("nan")
            ref_m, ref_l = make(x[~miss], y_full[~miss])
            ref_m.eval(); ref_l.eval()
            with torch.no_grad(), settings.fast_pred_var(False):
                ref = ref_m(xs)
                ref_mean, ref_cov = ref.mean, ref.covariance_matrix
            ref_m.train(); ref_l.train()
            with torch.no_grad():
                ref_mll = gpytorch.mlls.ExactMarginalLogLikelihood(ref_l, ref_m)(ref_m(x[~miss]), y_full[~miss]).item()
            for order in (("mask", "fill"), ("fill", "mask")):
                m, l = make(x, y)
                m.eval(); l.eval()
                for step, pol in enumerate(order):
                    inp = {"targets": [None if q else float(v) for q, v in zip(pat, y_full)], "policy": pol, "policies_used_before": list(order[:step])}

                    def pred(pol=pol, step=step, inp=inp):
                        with torch.no_grad(), settings.observation_nan_policy(pol), settings.fast_pred_var(False):
                            out = m(xs)
                            mean, cov = out.mean, out.covariance_matrix
                        tag = f"single/{ptag}/{'>'.join(order[:step + 1])}"
                        rec(f"posterior_mean/{tag}", close(mean, ref_mean), f"max abs diff {(mean - ref_mean).abs().max().item():.2e}", inp)
                        rec(f"posterior_covariance/{tag}", close(cov, ref_cov), f"max abs diff {(cov - ref_cov).abs().max().item():.2e}", inp)
                    guarded(f"posterior/single/{ptag}/{'>'.join(order[:step + 1])}", pred, inp)
            # MLL (mask only: 'fill' is documented as unsupported there)
            m, l = make(x, y)
            m.train(); l.train()

            def mll_check():
                with torch.no_grad(), settings.observation_nan_policy("mask"):
                    val = gpytorch.mlls.ExactMarginalLogLikelihood(l, m)(m(x), y).item()
                n_obs = int((~miss).sum())
                rec(f"mll_rescaled/single/{ptag}", abs(val * n - ref_mll * n_obs) < 1e-8 * (1 + abs(ref_mll * n_obs)), f"n*MLL(mask) = {val * n:.10f} vs n_obs*MLL(deleted) = {ref_mll * n_obs:.10f}")
            guarded(f"mll_rescaled/single/{ptag}", mll_check)
            # expected_log_prob / log_marginal
            fd = MVN(torch.randn(n, dtype=D), (lambda A: A @ A.T + 0.1 * torch.eye(n, dtype=D))(torch.randn(n, n, dtype=D)))
            lik = gpytorch.likelihoods.GaussianLikelihood().double()
            lik.noise = 0.3
            with torch.no_grad():
                full_e = lik.expected_log_prob(y_full, fd)
                full_m = lik.log_marginal(y_full, fd)
            for pol in ("mask", "fill"):
                def terms(pol=pol):
                    with torch.no_grad(), settings.observation_nan_policy(pol):
                        e = lik.expected_log_prob(y, fd)
                        lm = lik.log_marginal(y, fd)
                    want_e, want_m = full_e[~miss], full_m[~miss]
                    if pol == "fill":
                        oke = e.shape == full_e.shape and close(e[~miss], want_e) and bool((e[miss] == 0).all())
                        okm = lm.shape == full_m.shape and close(lm[~miss], want_m) and bool((lm[miss] == 0).all())
                    else:
                        oke, okm = close(e, want_e), close(lm, want_m)
                    rec(f"expected_log_prob/single/{ptag}/{pol}", oke, f"got {e.tolist()} want observed terms {want_e.tolist()}")
                    rec(f"log_marginal/single/{ptag}/{pol}", okm, f"got {lm.tolist()} want observed terms {want_m.tolist()}")
                guarded(f"likelihood_terms/single/{ptag}/{pol}", terms)

    if only in (None, "multitask"):
        nt, T = 3, 2
        xm = torch.linspace(0, 1, nt, dtype=D).unsqueeze(-1)
        Yf = torch.randn(nt, T, dtype=D)
        pats = [p for p in itertools.product([False, True], repeat=nt * T) if 0 < sum(p) < nt * T]
        if tier == "quick":
            pats = pats[::3]
        lik = gpytorch.likelihoods.MultitaskGaussianLikelihood(num_tasks=T).double()
        A = torch.randn(nt * T, nt * T, dtype=D)
        S = A @ A.T + 0.2 * torch.eye(nt * T, dtype=D)
        mu = torch.randn(nt, T, dtype=D)
        for interleaved in (True, False):
            fd = MT(mu, S, interleaved=interleaved)
            var = fd.variance  # (n, t), laid out per (point, task)
            with torch.no_grad():
                full_e = None
            for pat in pats:
                miss = torch.tensor(pat).view(nt, T)
                ptag = "".join("x" if q else "o" for q in pat)
                Y = Yf.clone()
                Y[miss] = float("nan")
                noise = lik._shaped_noise_covar(mu.shape).diagonal(dim1=-1, dim2=-2).view(nt, T).detach()
                terms_e = -0.5 * (((Yf - mu) ** 2 + var) / noise + noise.log() + torch.log(torch.tensor(2 * torch.pi, dtype=D)))
                for pol in ("mask", "fill"):
                    def mt(pol=pol, miss=miss, Y=Y, ptag=ptag):
                        with torch.no_grad(), settings.observation_nan_policy(pol):
                            e = lik.expected_log_prob(Y, fd)
                        want_total = terms_e[~miss].sum()
                        rec(f"expected_log_prob/multitask/{'interleaved' if interleaved else 'non_interleaved'}/{ptag}/{pol}",
                            bool(torch.isfinite(e).all()) and abs(e.sum().item() - want_total.item()) < 1e-8 * (1 + abs(want_total.item())),
                            f"sum of terms {e.sum().item():.10f} vs sum over observed entries {want_total.item():.10f}",
                            {"mean": mu.tolist(), "covariance": S.tolist(), "interleaved": interleaved, "targets": [[None if q else float(v) for q, v in zip(r, row)] for r, row in zip(miss.tolist(), Yf.tolist())], "policy": pol})
                    guarded(f"expected_log_prob/multitask/{'interleaved' if interleaved else 'non_interleaved'}/{ptag}/{pol}", mt)

                    def mt_lm(pol=pol, miss=miss, Y=Y, ptag=ptag):
                        with torch.no_grad():
                            marg = lik.marginal(fd)
                            mv = marg.variance.clamp_min(1e-8)
                            terms_m = -0.5 * ((Yf - marg.mean) ** 2 / mv + mv.log() + torch.log(torch.tensor(2 * torch.pi, dtype=D)))
                        with torch.no_grad(), settings.observation_nan_policy(pol):
                            lm = lik.log_marginal(Y, fd)
                        want_total = terms_m[~miss].sum()
                        rec(f"log_marginal/multitask/{'interleaved' if interleaved else 'non_interleaved'}/{ptag}/{pol}",
                            bool(torch.isfinite(lm).all()) and abs(lm.sum().item() - want_total.item()) < 1e-8 * (1 + abs(want_total.item())),
                            f"sum of terms {lm.sum().item():.10f} vs sum over observed entries {want_total.item():.10f}")
                    guarded(f"log_marginal/multitask/{'interleaved' if interleaved else 'non_interleaved'}/{ptag}/{pol}", mt_lm)

    if only in (None, "batch"):
        # batched targets: an entry is masked for the whole batch if it is missing in ANY batch element (documented rule of 'mask')
        B = 2
        yb = torch.stack([y_full, y_full.flip(0)])
        for pat in patterns[:: 2 if tier == "quick" else 1]:
            miss = torch.tensor(pat)
            ptag = "".join("x" if q else "o" for q in pat)
            y = yb.clone()
            y[0, miss] = float("nan")  # missing only in batch element 0
            fd = MVN(torch.randn(B, n, dtype=D), torch.eye(n, dtype=D).expand(B, n, n) * 0.7)
            lik = gpytorch.likelihoods.GaussianLikelihood().double()

            def be():
                with torch.no_grad():
                    full = lik.expected_log_prob(yb, fd)
                with torch.no_grad(), settings.observation_nan_policy("mask"):
                    e = lik.expected_log_prob(y, fd)
                rec(f"expected_log_prob/batch/{ptag}/mask", close(e, full[..., ~miss]), "entries missing in any batch element are dropped for the whole batch")
                with torch.no_grad(), settings.observation_nan_policy("fill"):
                    e2 = lik.expected_log_prob(y, fd)
                ok = close(e2[1], full[1]) and close(e2[0][~miss], full[0][~miss]) and bool((e2[0][miss] == 0).all())
                rec(f"expected_log_prob/batch/{ptag}/fill", ok, "only the missing entries of batch element 0 contribute nothing")
            guarded(f"expected_log_prob/batch/{ptag}", be)
    if only in (None, "batch"):
        # batched exact GP: targets (2, n) with NaNs in batch element 0 only; 'fill' treats the batch elements independently:
        # element 1 must equal the model trained on all its data, element 0 the model trained on its observed subset
        for pat in patterns[:: 3 if tier == "quick" else 1]:
            miss = torch.tensor(pat)
            if not miss.any():
                continue
            ptag = "".join("x" if q else "o" for q in pat)
            y2 = torch.stack([y_full, y_full + 0.3])
            y2n = y2.clone()
            y2n[0, miss] = float("nan")
            refs = []
            for bi, keep in ((0, ~miss), (1, torch.ones(n, dtype=torch.bool))):
                rm, rl = make(x[keep], y2[bi][keep])
                rm.eval(); rl.eval()
                with torch.no_grad(), settings.fast_pred_var(False):
                    refs.append(rm(xs).mean)

            def bg():
                m, l = make(x.expand(2, n, 1), y2n)
                m.eval(); l.eval()
                with torch.no_grad(), settings.observation_nan_policy("fill"), settings.fast_pred_var(False):
                    mean = m(xs.expand(2, 3, 1)).mean
                rec(f"posterior_mean/batched_targets/{ptag}/fill/element_with_missing", close(mean[0], refs[0]), f"max abs diff {(mean[0] - refs[0]).abs().max().item():.2e}")
                rec(f"posterior_mean/batched_targets/{ptag}/fill/complete_element", close(mean[1], refs[1]), f"max abs diff {(mean[1] - refs[1]).abs().max().item():.2e}")
            guarded(f"posterior_mean/batched_targets/{ptag}/fill", bg)
    if only in (None, "single"):
        # an observation that happens to EQUAL the fill value is an observation
        fv = float(settings.observation_nan_policy._fill_value)
        yv = y_full.clone()
        yv[1] = fv
        yn = yv.clone()
        yn[0] = float("nan")
        fd = MVN(torch.zeros(n, dtype=D), torch.eye(n, dtype=D) * 0.5)
        lik = gpytorch.likelihoods.GaussianLikelihood().double()
        with torch.no_grad():
            fe, fm = lik.expected_log_prob(yv, fd), lik.log_marginal(yv, fd)
        for pol in ("mask", "fill"):
            def eqfill(pol=pol):
                with torch.no_grad(), settings.observation_nan_policy(pol):
                    e, lm = lik.expected_log_prob(yn, fd), lik.log_marginal(yn, fd)
                if pol == "mask":
                    ok = close(e, fe[1:]) and close(lm, fm[1:])
                else:
                    ok = close(e[1:], fe[1:]) and close(lm[1:], fm[1:]) and e[0].item() == 0 and lm[0].item() == 0
                rec(f"observation_equal_to_fill_value/{pol}", ok, f"target {yn.tolist()} (fill value {fv}): expected_log_prob {e.tolist()}, want observed terms {fe[1:].tolist()}")
            guarded(f"observation_equal_to_fill_value/{pol}", eqfill)
    return {"name": "C16 NaN patterns vs deletion", "evaluations": ev, "distinct_nontrivial": len(seen),
            "bound": f"n = {n} single-output (all {len(patterns)} patterns), 3 x 2 multitask (every {3 if tier == 'quick' else 1}-th of the 62 patterns), batch of 2, policies mask / fill in both orders, float64",
            "rule": "a case = (quantity, model family, NaN pattern, policy history); distinct by that key", "samples": samples, "violations": violations,
            "wall_s": round(time.time() - t0, 2)}
