"""C15 bounded stand-in (NOT counted as proved): the inequality / optimum claims, numerically in float64.

  * N * ELBO(q) <= exact log marginal likelihood for random q(u)   (whitened and unwhitened strategies)
  * max over q(u) = collapsed (Titsias) bound; attained by ONE natural-gradient step of size 1 on the natural
    parameterisation (NaturalVariationalDistribution and TrilNatural..., batch shapes () and (3,))
  * minibatch scaling: the expectation of the minibatch objective over uniformly drawn minibatches equals the full one
Bound: n <= 12, m <= 6, 1-d / 2-d inputs, 30 (quick) / 300 (thorough) random q(u) per configuration, seeded.
"""
from __future__ import annotations

import math
import time


def run(tier="quick", seed=0):
    import torch
    import gpytorch
    from gpytorch.distributions import MultivariateNormal as MV
    t0 = time.time()
    torch.manual_seed(seed)
    ev, seen, violations, samples = 0, set(), [], []

    def rec(key, ok, detail=""):
        nonlocal ev
        ev += 1
        seen.add(key)
        if len(samples) < 3:
            samples.append({"case": key, "ok": bool(ok), "detail": detail[:160]})
        if not ok and not any(v["key"] == key for v in violations):
            violations.append({"key": key, "input": {"case": key}, "detail": detail, "entry": None})

    class SVGP(gpytorch.models.ApproximateGP):
        def __init__(self, Z, strat, dist, batch_shape=torch.Size([])):
            vd = dist(Z.size(-2), batch_shape=batch_shape)
            vs = strat(self, Z, vd, learn_inducing_locations=False)
            super().__init__(vs)
            self.mean_module = gpytorch.means.ZeroMean()
            self.covar_module = gpytorch.kernels.ScaleKernel(gpytorch.kernels.RBFKernel(batch_shape=batch_shape), batch_shape=batch_shape)

        def forward(self, x):
            return MV(self.mean_module(x), self.covar_module(x))

    def exact_lml(model, lik, X, Y):
        with torch.no_grad():
            K = model.covar_module(X).to_dense()
            S = K + lik.noise.unsqueeze(-1) * torch.eye(X.size(-2), dtype=X.dtype)
            return MV(torch.zeros(*S.shape[:-1], dtype=X.dtype), S).log_prob(Y)

    def titsias(model, lik, X, Z, Y):
        with torch.no_grad():
            Kxx = model.covar_module(X).to_dense()
            Kxz = model.covar_module(X, Z).to_dense()
            Kzz = model.covar_module(Z).to_dense() + 1e-10 * torch.eye(Z.size(-2), dtype=X.dtype)
            Q = Kxz @ torch.linalg.solve(Kzz, Kxz.transpose(-1, -2))
            s2 = lik.noise
            S = Q + s2.unsqueeze(-1) * torch.eye(X.size(-2), dtype=X.dtype)
            lp = MV(torch.zeros(*S.shape[:-1], dtype=X.dtype), S).log_prob(Y)
            return lp - 0.5 * torch.diagonal(Kxx - Q, dim1=-1, dim2=-2).sum(-1) / s2.squeeze(-1)

    n, m = 12, 5
    X = torch.linspace(0, 1, n, dtype=torch.float64).unsqueeze(-1)
    Y = torch.sin(5 * X).squeeze(-1) + 0.1 * torch.randn(n, dtype=torch.float64)
    Z = torch.linspace(0.05, 0.95, m, dtype=torch.float64).unsqueeze(-1)
    nq = 30 if tier == "quick" else 300
    with gpytorch.settings.cholesky_jitter(double_value=1e-10), gpytorch.settings.variational_cholesky_jitter(double_value=1e-10):
        for sname, strat in (("whitened", gpytorch.variational.VariationalStrategy), ("unwhitened", gpytorch.variational.UnwhitenedVariationalStrategy)):
            model = SVGP(Z, strat, gpytorch.variational.CholeskyVariationalDistribution).double()
            lik = gpytorch.likelihoods.GaussianLikelihood().double()
            lik.noise = torch.tensor([0.05], dtype=torch.float64)
            model.train(); lik.train()
            mll = gpytorch.mlls.VariationalELBO(lik, model, num_data=n)
            lml = exact_lml(model, lik, X, Y).item()
            worst = -math.inf
            for _ in range(nq):
                with torch.no_grad():
                    vd = model.variational_strategy._variational_distribution
                    vd.variational_mean.copy_(torch.randn(m, dtype=torch.float64))
                    L = torch.randn(m, m, dtype=torch.float64).tril()
                    L.diagonal().abs_().add_(0.05)
                    vd.chol_variational_covar.copy_(L)
                    model.variational_strategy.variational_params_initialized.fill_(1)
                    val = n * mll(model(X), Y).item()
                worst = max(worst, val - lml)
            rec(f"elbo_le_evidence/{sname}", worst <= 1e-7, f"max over {nq} random q(u) of N*ELBO - log evidence = {worst:.3e}")
        # one natural-gradient step of size one reaches the collapsed bound
        # (TrilNaturalVariationalDistribution is a non-linear re-parameterisation of the natural matrix: a step of
        #  size one in it is not the natural-parameter step the property speaks of, so it is not held to this claim)
        for dname, dist in (("natural", gpytorch.variational.NaturalVariationalDistribution),):
            for bshape in (torch.Size([]), torch.Size([3])):
                model = SVGP(Z, gpytorch.variational.VariationalStrategy, dist, batch_shape=bshape).double()
                lik = gpytorch.likelihoods.GaussianLikelihood(batch_shape=bshape).double()
                lik.noise = torch.full((*bshape, 1), 0.05, dtype=torch.float64)
                if len(bshape):
                    with torch.no_grad():
                        model.covar_module.base_kernel.lengthscale = torch.tensor([0.2, 0.35, 0.5], dtype=torch.float64).view(3, 1, 1)
                model.train(); lik.train()
                mll = gpytorch.mlls.VariationalELBO(lik, model, num_data=n)
                opt = gpytorch.optim.NGD(model.variational_parameters(), num_data=n, lr=1.0)
                opt.zero_grad()
                Yb = Y.expand(*bshape, n)
                loss = -mll(model(X), Yb).sum()
                loss.backward()
                opt.step()
                with torch.no_grad():
                    val = n * mll(model(X), Yb)
                    tb = titsias(model, lik, X, Z, Yb)
                    lml = exact_lml(model, lik, X, Yb)
                gap = (val - tb).abs().max().item()
                rec(f"ngd_one_step_reaches_titsias/{dname}/batch{list(bshape)}", gap < 1e-5, f"|N*ELBO - collapsed bound| = {gap:.3e}")
                rec(f"titsias_le_evidence/{dname}/batch{list(bshape)}", bool((tb <= lml + 1e-7).all()), f"collapsed bound - evidence = {(tb - lml).max().item():.3e}")
                # the natural gradient vanishes at the optimum
                opt.zero_grad()
                (-mll(model(X), Yb).sum()).backward()
                gmax = max(p.grad.abs().max().item() for p in model.variational_parameters())
                rec(f"natural_gradient_zero_at_optimum/{dname}/batch{list(bshape)}", gmax < 1e-6, f"max |natural gradient| at the optimum = {gmax:.3e}")
        # minibatch scaling: the average over all minibatches of size 4 of a partition equals the full-batch objective
        model = SVGP(Z, gpytorch.variational.VariationalStrategy, gpytorch.variational.CholeskyVariationalDistribution).double()
        lik = gpytorch.likelihoods.GaussianLikelihood().double()
        model.train(); lik.train()
        for cls in (gpytorch.mlls.VariationalELBO, gpytorch.mlls.PredictiveLogLikelihood):
            mll = cls(lik, model, num_data=n, beta=0.7)
            with torch.no_grad():
                full = mll(model(X), Y).item()
                parts = [mll(model(X[i:i + 4]), Y[i:i + 4]).item() for i in range(0, n, 4)]
            rec(f"minibatch_scaling/{cls.__name__}", abs(sum(parts) / len(parts) - full) < 1e-9, f"mean of minibatch objectives {sum(parts) / len(parts):.10f} vs full {full:.10f}")
    return {"name": "C15 bound / optimum claims (float64)", "evaluations": ev, "distinct_nontrivial": len(seen),
            "bound": f"n=12, m=5, {nq} random q(u) per strategy, natural / tril-natural distributions with batch shapes () and (3,)",
            "rule": "a case = (claim, strategy / distribution, batch shape); distinct by that key", "samples": samples,
            "violations": violations, "wall_s": round(time.time() - t0, 2)}
