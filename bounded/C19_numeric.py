"""C19 bounded stand-in (NOT counted as proved): numerical gradient checks in float64.

  * fast (hand-written backward) vs generic (autograd) kernel paths: values, lengthscale gradients, and central finite
    differences, with coincident points, batch shapes () and (2,), nu in {0.5, 1.5, 2.5}
  * log_normal_cdf: value vs log_ndtr, gradient vs phi/Phi, identical gradient on repeated backward calls
  * natural / tril-natural variational distributions: the gradient delivered to the natural parameters equals the gradient of
    the loss w.r.t. the expectation parameters (mu, mu mu^T + Sigma), batch shapes () and (3,), m in {1, 2, 4}
  * gradients of exact-GP predictions w.r.t. test inputs vs central finite differences
Bound: stated sizes, seeded random inputs.  (CIQ natural-gradient terms are not covered.)
"""
from __future__ import annotations

import time


def run(tier="quick", seed=0):
    import torch
    import gpytorch
    from contracts import C19_backward as K
    t0 = time.time()
    torch.manual_seed(seed)
    ev, seen, violations, samples = 0, set(), [], []

    def rec(key, res):
        nonlocal ev
        ev += 1
        seen.add(key)
        if len(samples) < 3:
            samples.append({"case": key, "ok": not res.get("violates"), "detail": str(res.get("detail"))[:160]})
        if res.get("violates") and not any(v["key"] == key for v in violations):
            violations.append({"key": key, "input": {"case": key}, "detail": res.get("detail"), "entry": res.get("entry")})

    rec("kernel_paths/rbf", K.replay_grad({}, (0, True), "rbf", {}))
    for nu in ("0.5", "1.5", "2.5"):
        rec(f"kernel_paths/matern{nu}", K.replay_grad({}, (nu, 0, True), "matern", {}))
    rec("log_normal_cdf", K.replay_lncdf({}, (0,), "", {}))
    # natural parameterisations: delivered gradient == gradient w.r.t. expectation parameters
    for cls in (gpytorch.variational.NaturalVariationalDistribution, gpytorch.variational.TrilNaturalVariationalDistribution):
        for bshape in (torch.Size([]), torch.Size([3])):
            for m in (1, 2, 4):
                vd = cls(m, batch_shape=bshape).double()
                g = torch.Generator().manual_seed(seed + m)
                with torch.no_grad():
                    for p in vd.parameters():
                        p.add_(0.1 * torch.randn(p.shape, dtype=p.dtype, generator=g))
                    if hasattr(vd, "natural_tril_mat"):  # representation invariant: lower triangular, positive diagonal
                        vd.natural_tril_mat.copy_(vd.natural_tril_mat.tril())
                    if hasattr(vd, "natural_mat"):
                        A = torch.randn(*bshape, m, m, dtype=torch.double, generator=g)
                        vd.natural_mat.copy_(-0.5 * (A @ A.transpose(-1, -2) + torch.eye(m, dtype=torch.double)))
                a = torch.randn(*bshape, m, dtype=torch.double, generator=g)
                B = torch.randn(*bshape, m, m, dtype=torch.double, generator=g)
                B = B + B.transpose(-1, -2)

                def loss(mu, Sig):
                    return ((a * mu).sum(-1) + (B * Sig).sum((-1, -2)) + 0.5 * (mu.unsqueeze(-2) @ B @ mu.unsqueeze(-1)).squeeze(-1).squeeze(-1)).sum()

                try:
                    dist = vd()
                    mu, Sig = dist.mean, dist.lazy_covariance_matrix.to_dense()
                    for p in vd.parameters():
                        p.grad = None
                    loss(mu, Sig).backward()
                    eta1 = mu.detach().clone().requires_grad_(True)
                    eta2 = (Sig + mu.unsqueeze(-1) @ mu.unsqueeze(-2)).detach().clone().requires_grad_(True)
                    L2 = loss(eta1, eta2 - eta1.unsqueeze(-1) @ eta1.unsqueeze(-2))
                    d1, d2 = torch.autograd.grad(L2, [eta1, eta2])
                    ok = torch.allclose(vd.natural_vec.grad, d1, atol=1e-8)
                    if hasattr(vd, "natural_mat"):
                        ok = ok and torch.allclose(vd.natural_mat.grad, d2, atol=1e-8)
                    det = f"natural_vec.grad vs dL/d eta1 max diff {(vd.natural_vec.grad - d1).abs().max().item():.2e}"
                    if hasattr(vd, "natural_tril_mat"):
                        # the direction delivered for the triangular factor C (Theta = -1/2 C^T C) is the push-forward Cdot of the
                        # natural-gradient direction dTheta = dL/d eta2:  -1/2 (Cdot^T C + C^T Cdot) = dTheta,  Cdot lower triangular
                        C = vd.natural_tril_mat.detach()
                        G = vd.natural_tril_mat.grad
                        back = -0.5 * (G.transpose(-1, -2) @ C + C.transpose(-1, -2) @ G)
                        lower = torch.allclose(G, G.tril(), atol=1e-12)
                        ok = ok and lower and torch.allclose(back, d2, atol=1e-8)
                        det += f"; -1/2 (G^T C + C^T G) vs dL/d eta2 max diff {(back - d2).abs().max().item():.2e}, G lower triangular: {lower}"
                    rec(f"natural_gradient/{cls.__name__}/batch{list(bshape)}/m{m}", {"violates": not ok, "detail": det})
                except Exception as e:
                    from engine.runner import classify_replay_exception
                    rec(f"natural_gradient/{cls.__name__}/batch{list(bshape)}/m{m}", classify_replay_exception(e))

    # prediction gradients w.r.t. test inputs
    class GPM(gpytorch.models.ExactGP):
        def __init__(self, x, y, lik):
            super().__init__(x, y, lik)
            self.mean_module = gpytorch.means.ConstantMean()
            self.covar_module = gpytorch.kernels.ScaleKernel(gpytorch.kernels.MaternKernel(nu=2.5, ard_num_dims=2))

        def forward(self, x):
            return gpytorch.distributions.MultivariateNormal(self.mean_module(x), self.covar_module(x))

    X = torch.rand(8, 2, dtype=torch.double)
    Y = torch.sin(4 * X.sum(-1))
    lik = gpytorch.likelihoods.GaussianLikelihood().double()
    model = GPM(X, Y, lik).double()
    model.eval(); lik.eval()
    xs = torch.rand(3, 2, dtype=torch.double, requires_grad=True)
    with gpytorch.settings.fast_computations(False, False, False):
        out = model(xs)
        f = (out.mean * torch.tensor([1.0, -2.0, 0.5], dtype=torch.double)).sum() + out.variance.sum()
        (g,) = torch.autograd.grad(f, xs)
        fd = torch.zeros_like(xs)
        eps = 1e-6
        for i in range(xs.numel()):
            e = torch.zeros(xs.numel(), dtype=torch.double)
            e[i] = eps
            vals = []
            for sgn in (1, -1):
                o = model((xs.detach() + sgn * e.view_as(xs)))
                vals.append((o.mean * torch.tensor([1.0, -2.0, 0.5], dtype=torch.double)).sum() + o.variance.sum())
            fd.view(-1)[i] = (vals[0] - vals[1]) / (2 * eps)
    rec("prediction_gradient_vs_finite_differences", {"violates": not torch.allclose(g, fd, atol=1e-5), "detail": f"max diff {(g - fd).abs().max().item():.2e}"})
    return {"name": "C19 numerical gradient checks", "evaluations": ev, "distinct_nontrivial": len(seen),
            "bound": "4x5 kernel matrices with coincident points, batch shapes () and (2,)/(3,), m in {1,2,4} inducing values, 8 training / 3 test points",
            "rule": "a case = (check, configuration); distinct by that key", "samples": samples, "violations": violations,
            "wall_s": round(time.time() - t0, 2)}
