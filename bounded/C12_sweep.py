"""C12 bounded stand-in (NOT counted as proved): configuration sweep on real likelihood objects, dense float64.

Bound: event sizes n in {1..4}, t in {2,3}, batch ranks 0..1 of likelihood and distribution independently,
homoskedastic / fixed (stored, call-time, mismatching, learn_additional_noise on/off) / multitask (rank 0 and 2,
global/task noise switches, both layouts) / LikelihoodList; also a Monte-Carlo check that expected_log_prob is the
expectation of the conditional log density (2e5 draws, 5 sigma).
"""
from __future__ import annotations

import itertools
import time


def run(tier="quick", seed=0):
    import torch
    from contracts import C12_gaussian_likelihoods as K
    t0 = time.time()
    ev, seen, violations, samples = 0, set(), [], []

    def rec(key, res):
        nonlocal ev
        ev += 1
        seen.add(key)
        if len(samples) < 3:
            samples.append({"case": key, "ok": not res.get("violates"), "detail": str(res.get("detail"))[:200]})
        if res.get("violates") and not any(v["key"] == key for v in violations):
            violations.append({"key": key, "input": {"case": key}, "detail": res.get("detail"), "entry": res.get("entry")})

    for n in (1, 2, 4):
        for (nb, db) in K.batch_patterns():
            rec(f"homoskedastic/marginal/n{n}/{nb}{db}", K.replay_lik({"n": n}, (nb, db), "marginal", {}))
        for nb in (0, 1):
            for cl in ("expected_log_prob", "log_marginal", "forward"):
                rec(f"homoskedastic/{cl}/n{n}/{nb}", K.replay_lik({"n": n}, (nb,), cl, {}))
        for learn, nb, mode in itertools.product((False, True), (0, 1), ("stored", "call_time", "mismatch")):
            rec(f"fixed/marginal/n{n}/{learn}/{nb}/{mode}", K.replay_lik({"n": n}, (learn, nb, mode), "marginal", {"fixed": 1}))
    for learn, mode, meth in itertools.product((False, True), ("stored", "call_time"), ("expected_log_prob", "log_marginal", "forward")):
        rec(f"fixed/{meth}/{learn}/{mode}", K.replay_fixed_entry({}, (learn, mode, meth), "", {}))
    for params in K.mt_cases(None):
        rec(f"multitask/{params}", K.replay_mt({}, params, "", {}))
    for m, wn in [("__call__", False), ("__call__", True), ("forward", False), ("forward", True), ("expected_log_prob", False)]:
        rec(f"list/{m}/{wn}", K.replay_list({}, (m, wn), "", {}))
    # expected_log_prob is the expectation of log N(y | f, r) under f ~ N(m, v)  (Monte Carlo, seeded)
    import math
    from gpytorch.likelihoods import GaussianLikelihood
    from gpytorch.distributions import MultivariateNormal as MV
    g = torch.Generator().manual_seed(seed)
    lik = GaussianLikelihood().double()
    lik.noise = torch.tensor([0.37], dtype=torch.double)
    m = torch.randn(3, dtype=torch.double, generator=g)
    v = torch.rand(3, dtype=torch.double, generator=g) + 0.2
    y = torch.randn(3, dtype=torch.double, generator=g)
    d = MV(m, torch.diag(v))
    N = 200000
    f = m + v.sqrt() * torch.randn(N, 3, dtype=torch.double, generator=g)
    lp = torch.distributions.Normal(f, math.sqrt(0.37)).log_prob(y)
    mc, se = lp.mean(0), lp.std(0) / math.sqrt(N)
    got = lik.expected_log_prob(y, d)
    ok = bool(((got - mc).abs() < 5 * se + 1e-9).all())
    rec("expected_log_prob/is_expectation", {"violates": not ok, "detail": f"closed form {got.tolist()} vs MC {mc.tolist()} (se {se.tolist()})"})
    return {"name": "C12 configuration sweep on real likelihoods", "evaluations": ev, "distinct_nontrivial": len(seen),
            "bound": "n in {1,2,4}, t in {2,3}, batch ranks <= 1, all listed noise configurations; MC with 2e5 draws",
            "rule": "a case = (likelihood family, entry point, configuration); distinct by that key", "samples": samples,
            "violations": violations, "wall_s": round(time.time() - t0, 2)}
