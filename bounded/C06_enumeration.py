"""C06 bounded stand-in (NOT counted as proved): exhaustive index expressions / request forms on small shapes, real code, float64.

For a family of kernels (single-output, composed, multi-output with t = 2 and t = d + 1, batched, with and without active_dims):
  * diag=True == diagonal of the full matrix;  K(x1, x2) == K(x2, x1)^T;  lazy == eager evaluation
  * lazy[idx] == dense[idx] for EVERY index expression of the enumeration (ints, negative ints, slices with None / in-range /
    out-of-range / empty bounds and steps, index tensors, batch indices, Ellipsis forms); where dense indexing raises, lazy must too
  * transpose / repeat / unsqueeze of the lazy tensor commute with evaluation; blocks of K on stacked inputs == separate blocks
  * active_dims: k(active_dims=a)(x1, x2) == k()(x1[..., a], x2[..., a]), also for batched kernels, kernel[i] and expand_batch
Bound: n1 = 3, n2 = 2 rows (x t outputs), d = 3, batch shapes () and (2,), the enumerated index vocabulary below.
"""
from __future__ import annotations

import itertools
import time
import warnings


def run(tier="quick", seed=0, only=None):
    import torch
    import gpytorch
    from gpytorch import kernels as K
    from gpytorch.lazy import LazyEvaluatedKernelTensor
    warnings.filterwarnings("ignore")
    t0 = time.time()
    torch.manual_seed(seed)
    D = torch.double
    ev, seen, violations, samples = 0, set(), [], []
    skipped = []

    def rec(key, ok, detail="", inp=None):
        nonlocal ev
        ev += 1
        seen.add(key)
        if len(samples) < 3:
            samples.append({"case": key, "ok": bool(ok), "detail": str(detail)[:160]})
        if not ok and not any(v["key"] == key for v in violations):
            violations.append({"key": key, "input": inp or {"case": key}, "detail": str(detail), "entry": None})

    def randomize(k):
        with torch.no_grad():
            for p in k.parameters():
                p.add_(0.3 * torch.randn_like(p))
        return k

    class Rect21(K.Kernel):
        """a user-style kernel with DIFFERENT numbers of outputs per input on the two sides (num_outputs_per_input returns a tuple):
        rows 2i, 2i+1 are 1x and 2x the base covariance of point i"""
        has_lengthscale = True

        def num_outputs_per_input(self, x1, x2):
            return (2, 1)

        def forward(self, x1, x2, diag=False, **params):
            base = self.covar_dist(x1.div(self.lengthscale), x2.div(self.lengthscale), square_dist=True).div(-2).exp()
            res = torch.stack([base, 2 * base], dim=-2).reshape(*base.shape[:-2], 2 * base.size(-2), base.size(-1))
            return res

    def kernels():
        yield "rbf", lambda **kw: K.RBFKernel(**kw), 1
        yield "matern_ard", lambda **kw: K.MaternKernel(nu=1.5, ard_num_dims=kw.pop("ard", 3), **kw), 1
        yield "scale_rbf", lambda **kw: K.ScaleKernel(K.RBFKernel(**kw), batch_shape=kw.get("batch_shape", torch.Size([]))), 1
        yield "sum", lambda **kw: K.RBFKernel(**kw) + K.LinearKernel(**kw), 1
        yield "product", lambda **kw: K.RBFKernel(**kw) * K.PeriodicKernel(**kw), 1
        yield "multitask", lambda **kw: K.MultitaskKernel(K.RBFKernel(**kw), num_tasks=2, rank=1), 2  # task covariance shared across the batch
        yield "rbf_grad", lambda **kw: K.RBFKernelGrad(**kw), 4
        yield "rect21", lambda **kw: Rect21(**kw), (2, 1)

    def dense_of(k, a, b, **kw):
        with gpytorch.settings.lazily_evaluate_kernels(False):
            r = k(a, b, **kw)
        return r.to_dense() if hasattr(r, "to_dense") else r

    def lazy_of(k, a, b):
        with gpytorch.settings.lazily_evaluate_kernels(True):
            return k(a, b)

    def close(a, b):
        return a.shape == b.shape and torch.allclose(a, b, rtol=1e-9, atol=1e-11)

    def td(x):
        return x.to_dense() if hasattr(x, "to_dense") else x

    def axis_vocab(n, small):
        ints = list(range(-n, n))
        bounds = [None, 0, 1, 2, n - 1, n, n + 1, -1, -2, -n, -n - 1]
        steps = [None, 1, 2]
        if small:
            bounds = [None, 0, 1, n, -1]
            steps = [None, 2]
        sl = [slice(a, b, s) for a in bounds for b in bounds for s in steps]
        tens = [torch.tensor([0]), torch.tensor([n - 1, 0]), torch.tensor([-1, 1 % n])]
        return ints, sl, tens

    def describe(ix):
        def one(i):
            if isinstance(i, slice):
                return f"{'' if i.start is None else i.start}:{'' if i.stop is None else i.stop}" + ("" if i.step is None else f":{i.step}")
            if i is Ellipsis:
                return "..."
            if torch.is_tensor(i):
                return "T(" + " ".join(str(v) for v in i.tolist()) + ")"
            return str(i)
        return "[" + "; ".join(one(i) for i in ix) + "]"

    def compare_index(tag, lazy_fn, dense, ix):
        key = f"index/{tag}/{describe(ix)}"
        try:
            want = dense[ix]
            want_err = None
        except (IndexError, RuntimeError, ValueError) as e:
            want, want_err = None, e
        try:
            got = lazy_fn()[ix]
            got_err = None
            if want is not None and tuple(got.shape) == tuple(want.shape) and want.numel() == 0:
                rec(key, True, "empty selection: shapes agree")  # nothing to evaluate (dependency code cannot densify empty operators)
                return
            got = td(got)
        except (IndexError, RuntimeError, ValueError) as e:
            got, got_err = None, e
        except Exception as e:  # noqa: BLE001
            # any other exception: inside gpytorch code = the real code fails on this expression; inside the dependency only =
            # outside this property's code, counted as skipped
            from engine.runner import classify_replay_exception
            r = classify_replay_exception(e)
            if r.get("violates"):
                rec(key, False, r["detail"][:600], {"index": describe(ix), "kernel": tag})
            else:
                skipped.append(f"{tag}{describe(ix)}: {type(e).__name__} in dependency code")
            return
        if want_err is not None:
            # an index invalid for the dense matrix must not silently produce something for the lazy one
            rec(key, got_err is not None, f"dense indexing raises {type(want_err).__name__} but lazy indexing returned shape {None if got is None else tuple(got.shape)}", {"index": describe(ix), "kernel": tag})
            return
        if got_err is not None:
            rec(key, False, f"lazy indexing raised {type(got_err).__name__}: {str(got_err)[:200]} (dense result has shape {tuple(want.shape)})", {"index": describe(ix), "kernel": tag})
            return
        ok = tuple(got.shape) == tuple(want.shape) and (want.numel() == 0 or torch.allclose(got, want, rtol=1e-9, atol=1e-11))
        rec(key, ok, f"lazy{describe(ix)} shape {tuple(got.shape)} vs dense{describe(ix)} shape {tuple(want.shape)}"
            + ("" if tuple(got.shape) != tuple(want.shape) or want.numel() == 0 else f", max abs diff {(got - want).abs().max().item():.2e}"), {"index": describe(ix), "kernel": tag})

    n1, n2, d = 3, 2, 3
    for bshape in ((torch.Size([]), torch.Size([2])) if only in (None, "index") else ()):
        for name, mk, t in kernels():
            if only == "index" and name not in ("rbf", "multitask", "sum", "rect21"):
                continue
            if name == "rbf_grad" and len(bshape) and tier == "quick":
                continue
            k = randomize(mk(batch_shape=bshape) if name != "matern_ard" else mk(batch_shape=bshape)).double()
            x1 = torch.randn(*bshape, n1, d, dtype=D)
            x2 = torch.randn(*bshape, n2, d, dtype=D)
            tag = f"{name}/batch{list(bshape)}"
            dense = dense_of(k, x1, x2)
            lazy = lazy_of(k, x1, x2)
            rec(f"lazy_is_lazy/{tag}", isinstance(lazy, LazyEvaluatedKernelTensor), type(lazy).__name__)
            rec(f"lazy_equals_eager/{tag}", close(lazy.to_dense(), dense), "to_dense of the lazily evaluated kernel tensor vs eager evaluation")
            rec(f"lazy_shape/{tag}", tuple(lazy.shape) == tuple(dense.shape), f"{tuple(lazy.shape)} vs {tuple(dense.shape)}")
            if not isinstance(t, tuple):  # square-per-point kernels only
                rec(f"transpose/{tag}", close(dense_of(k, x2, x1), dense.transpose(-1, -2)), "K(x2, x1) vs K(x1, x2)^T")
                rec(f"lazy_transpose/{tag}", close(td(lazy_of(k, x1, x2).mT), dense.mT), "lazy.mT vs dense.mT")
                dsq = dense_of(k, x1, x1)
                try:
                    dg = dense_of(k, x1, x1, diag=True)
                    rec(f"diag/{tag}", close(dg, torch.diagonal(dsq, dim1=-2, dim2=-1)), "diag=True vs diagonal of the full matrix")
                    rec(f"lazy_diagonal/{tag}", close(lazy_of(k, x1, x1).diagonal(dim1=-1, dim2=-2), torch.diagonal(dsq, dim1=-2, dim2=-1)), "lazy.diagonal() vs dense diagonal")
                except Exception as e:  # noqa: BLE001
                    rec(f"diag/{tag}", False, f"{type(e).__name__}: {str(e)[:200]}")
                # blocks on stacked inputs
                xs = torch.cat([x1, x2], dim=-2)
                full = dense_of(k, xs, xs)
                tr_, tc_ = t if isinstance(t, tuple) else (t, t)
                r1, r2 = n1 * tr_, n2 * tc_
                rec(f"blocks/{tag}", close(full[..., :r1, r1:], dense) and close(full[..., :r1, :r1], dsq) and close(full[..., r1:, :r1], dense_of(k, x2, x1)),
                    "blocks of K on stacked inputs vs separately computed blocks")
                # repeat / unsqueeze
                reps = (*([1] * len(bshape)), 2, 3)
                rec(f"lazy_repeat/{tag}", close(td(lazy_of(k, x1, x2).repeat(*reps)), dense.repeat(*reps)), f"repeat{reps}")
                rec(f"lazy_unsqueeze/{tag}", close(td(lazy_of(k, x1, x2).unsqueeze(0)), dense.unsqueeze(0)), "unsqueeze(0)")
            # ---- index expressions
            R, C = dense.shape[-2], dense.shape[-1]
            small = tier == "quick"
            ri, rs, rt = axis_vocab(R, small)
            ci, cs, ct = axis_vocab(C, small)
            lf = lambda: lazy_of(k, x1, x2)  # noqa: E731  (a fresh lazy tensor each time: no caches carried between expressions)
            pre = [()] if not len(bshape) else ([(0,), (slice(None),), (torch.tensor([1, 0]),)] if small else [(0,), (-1,), (slice(None),), (torch.tensor([1, 0]),)])
            for pb in pre:
                lead = pb
                # slices on both axes (the lazy fast path), incl. the Ellipsis form
                # quick: every row slice x every (second) column slice of the small vocabulary; thorough: the large vocabulary (363 slices per
                # axis) in a cross pattern -- every row slice against every 19th column slice and vice versa (the full 131k-pair square per
                # kernel and prefix would take hours and adds no new slice forms)
                pairs = (itertools.product(rs, cs[:: 2 if len(bshape) else 1]) if small
                         else itertools.chain(itertools.product(rs, cs[::19]), itertools.product(rs[::19], cs)))
                for a, b_ in pairs:
                    compare_index(tag, lf, dense, (*lead, a, b_))
                if not len(bshape) or pb == (slice(None),):
                    for a, b_ in itertools.product(rs[:: 3 if small else 19], cs[:: 3 if small else 19]):
                        compare_index(tag, lf, dense, (Ellipsis, a, b_))
                # ints and tensors against slices, and against each other
                for a in ri + rt:
                    for b_ in [slice(None), slice(0, 1), slice(1, None, 2)] + ci[:2] + ct[:1]:
                        compare_index(tag, lf, dense, (*lead, a, b_))
                for b_ in ci + ct:
                    for a in [slice(None), slice(1, None), slice(None, None, 2)]:
                        compare_index(tag, lf, dense, (*lead, a, b_))
                # a single (row) index only
                for a in ri[:3] + rs[:5] + rt[:1]:
                    compare_index(tag, lf, dense, (*lead, a))
    # ---- active_dims
    for bshape in ((torch.Size([]), torch.Size([2])) if only in (None, "active_dims") else ()):
        ad = [0, 2]
        for name, mk in (("rbf", lambda **kw: K.RBFKernel(**kw)), ("matern_ard", lambda **kw: K.MaternKernel(nu=2.5, ard_num_dims=2, **kw)),
                         ("scale_rbf", lambda **kw: K.ScaleKernel(K.RBFKernel(**{q: v for q, v in kw.items() if q != "active_dims"}), **kw)),
                         ("sum", lambda **kw: K.RBFKernel(**kw) + K.MaternKernel(**kw))):
            tag = f"{name}/batch{list(bshape)}"
            torch.manual_seed(seed + 1)
            k_ad = randomize(mk(batch_shape=bshape, active_dims=ad)).double()
            torch.manual_seed(seed + 1)
            k_no = randomize(mk(batch_shape=bshape)).double()
            x1 = torch.randn(*bshape, n1, d, dtype=D)
            x2 = torch.randn(*bshape, n2, d, dtype=D)
            want = dense_of(k_no, x1[..., ad], x2[..., ad])
            rec(f"active_dims/eager/{tag}", close(dense_of(k_ad, x1, x2), want), "k(active_dims=[0,2])(x1,x2) vs k()(x1[...,[0,2]], x2[...,[0,2]])")
            rec(f"active_dims/lazy/{tag}", close(lazy_of(k_ad, x1, x2).to_dense(), want), "lazily evaluated")
            rec(f"active_dims/lazy_sliced/{tag}", close(td(lazy_of(k_ad, x1, x2)[..., 1:, :1]), want[..., 1:, :1]), "lazy[..., 1:, :1]")
            rec(f"active_dims/diag/{tag}", close(dense_of(k_ad, x1, x1, diag=True), torch.diagonal(dense_of(k_no, x1[..., ad], x1[..., ad]), dim1=-1, dim2=-2)), "diag=True")
            if len(bshape):
                for i in (0, 1):
                    try:
                        ki = k_ad[i]
                        got = dense_of(ki, x1[i], x2[i])
                        rec(f"active_dims/kernel_getitem/{tag}/{i}", close(got, want[i]), f"kernel[{i}](x1[{i}], x2[{i}]) vs element {i} of the batched result",
                            {"kernel": name, "active_dims": ad, "index": i})
                        lz = td(lazy_of(k_ad, x1, x2)[i])
                        rec(f"active_dims/lazy_batch_index/{tag}/{i}", close(lz, want[i]), f"lazy[{i}] vs dense[{i}]", {"kernel": name, "active_dims": ad, "index": i})
                    except Exception as e:  # noqa: BLE001
                        rec(f"active_dims/kernel_getitem/{tag}/{i}", False, f"{type(e).__name__}: {str(e)[:300]}", {"kernel": name, "active_dims": ad, "index": i})
            else:
                try:
                    ke = k_ad.expand_batch(torch.Size([2]))
                    xb1, xb2 = x1.expand(2, n1, d), x2.expand(2, n2, d)
                    rec(f"active_dims/expand_batch/{tag}", close(dense_of(ke, xb1, xb2), want.expand(2, *want.shape)), "expand_batch((2,)) vs the replicated result",
                        {"kernel": name, "active_dims": ad})
                except Exception as e:  # noqa: BLE001
                    rec(f"active_dims/expand_batch/{tag}", False, f"{type(e).__name__}: {str(e)[:300]}", {"kernel": name, "active_dims": ad})
    # ---- kernel[i] / expand_batch without active_dims (batch parameters sliced, source kernel untouched)
    for name, mk, t in (kernels() if only in (None, "active_dims") else ()):
        k = randomize(mk(batch_shape=torch.Size([2]))).double()
        x1 = torch.randn(2, n1, d, dtype=D)
        x2 = torch.randn(2, n2, d, dtype=D)
        dense = dense_of(k, x1, x2)
        before = [p.detach().clone() for p in k.parameters()]
        for i in (0, 1):
            try:
                rec(f"kernel_getitem/{name}/{i}", close(dense_of(k[i], x1[i], x2[i]), dense[i]), f"kernel[{i}] vs element {i}")
            except Exception as e:  # noqa: BLE001
                rec(f"kernel_getitem/{name}/{i}", False, f"{type(e).__name__}: {str(e)[:300]}")
        same = all(torch.equal(a, b) for a, b in zip(before, k.parameters())) and close(dense_of(k, x1, x2), dense)
        rec(f"kernel_getitem_leaves_source_untouched/{name}", same, "parameters and value of the source kernel after kernel[0], kernel[1]")
    return {"name": "C06 request-form / index-expression enumeration", "evaluations": ev, "distinct_nontrivial": len(seen),
            "bound": "n1=3, n2=2, d=3, outputs per input t in {1, 2, 4}, batch shapes () and (2,); index vocabulary: all ints, slices over bounds "
                     "{None,0,1,2,n-1,n,n+1,-1,-2,-n,-n-1} x steps {None,1,2} (quick: {None,0,1,n,-1} x {None,2}), three index tensors per axis, batch indices, Ellipsis forms",
            "rule": "a case = (check, kernel, batch shape, index expression); distinct by that key", "skipped_dependency_exceptions": len(skipped), "skipped_examples": skipped[:5], "samples": samples, "violations": violations,
            "wall_s": round(time.time() - t0, 2)}
