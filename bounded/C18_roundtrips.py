"""C18 bounded stand-in (NOT counted as proved): persistence round trips on real models, float64.

For every model family below an ORIGINAL model is driven through a history
    fresh (hyper-parameters set)  ->  trained (3 optimiser steps; Adam, NGD for natural variational parameters)
    ->  predicted (eval mode, prediction under no_grad, caches filled, one test point outside the training range)
    ->  predicted_with_grad (train(); eval(); prediction with autograd enabled: the caches hold graph tensors)
    ->  last (exact GPs: prediction + set_train_data(new inputs / targets) in eval mode; others: 2 more steps + prediction)
and at every save point copies are taken BEFORE the original is evaluated:
    state_dict_fresh        torch.save(state_dict) -> BytesIO -> torch.load -> load_state_dict into a freshly
                            constructed model (identical constructor arguments, current training data)
    state_dict_fresh_alt    the same, but the fresh model is constructed with OTHER numeric constructor values for
                            everything the state_dict is said to carry (constraint bounds, prior parameters, initial
                            inducing points / grid bounds) -- the classes ("architecture") are identical
    state_dict_used         load_state_dict into a model with other hyper-parameter values that has ALREADY made
                            eval-mode predictions (caches filled); predictions are taken right after loading WITHOUT
                            toggling train()/eval() (toggling would clear the caches and hide a stale cache)
    state_dict_used_holder  the same, through a plain torch.nn.Module (not a gpytorch.Module) holding model + likelihood
    state_dict_used_children the same, but every direct child (mean_module, covar_module, likelihood, variational_strategy)
                            is saved and loaded on its own (child.load_state_dict): transfer of a kernel / likelihood
    pickle                  pickle.loads(pickle.dumps((model, likelihood)))
    deepcopy                copy.deepcopy((model, likelihood))
Quantities compared between original and copy (the same seed before every model call):
    as_is_predictive/*      eval-mode models only: predictive mean / covariance without touching the mode first
    prior/mean, prior/covar train-mode output at the training inputs (approximate GPs: model.forward(x))
    objective, objective_grad   exact MLL / ELBO / predictive log likelihood / sum MLL and its gradient w.r.t. all
                            parameters (the gradient exposes modules shared between copy and original)
    log_prior_terms         every registered prior's log_prob at the current parameter value
    predictive/mean, covar, y_mean, y_var   eval-mode predictive distribution at the test points (+ likelihood marginal)
    state_entries           every entry of the state_dict right after the round trip (bounds, prior parameters, flags,
                            grids, random features)
    round_trip              the persistence operation itself completes
    independent_of_original the pickle / deepcopy taken at save point k still gives its own values after the
                            original has moved on to save point k+1 (control: evaluating the untouched copy twice gives
                            the same values; where it does not, the check is listed under "skipped")
Independent oracle (exact GPs with Gaussian noise and no priors, oracle=True): posterior mean / covariance and the
marginal log likelihood computed with dense torch.linalg (Cholesky) from the ORIGINAL's kernel(x1, x2).to_dense(),
mean(x) and noise values at the save point; the original and every copy are held to it (where the original itself
is off the oracle -- not a persistence matter -- that is recorded once under original/dense_oracle and the copies are
held to the original only).  gpytorch is only used to evaluate kernel / mean / noise parameters.

Tolerance: |a - b| <= 1e-6 * max|reference| + 1e-9 (float64) for every comparison; no looser tolerance is used.
CiqVariationalStrategy (contour integral quadrature, iterative msMINRES) is deterministic for equal seeds and is held
to the same tolerance between original and copy (it has no dense oracle).

Read as data, not state: training inputs / targets and the fixed observation noise of FixedNoiseGaussianLikelihood are
constructor arguments of the "freshly constructed model" (the state_dict does not carry them by design).
Not comparable (dropped): an eval-mode prediction of an approximate GP whose variational parameters are still
uninitialised ('fresh'): the first training-mode call initialises them with random noise.

Exceptions: raised under /repo/gpytorch = violation of that key; raised by the persistence operation itself
(load_state_dict reporting missing / unexpected keys or size mismatches, pickle refusing an object that gpytorch put
into the model, deepcopy refusing a graph tensor that gpytorch cached in the model) = violation too (the round trip of a
valid model fails); anything else is a harness problem and is re-raised.

Tiers: quick = one hyper-parameter draw, the holder / children mechanisms at the 'predicted' save point only (children:
a representative subset of families), independence check for the copies taken at 'fresh'; thorough = every mechanism
at every save point for every family, two hyper-parameter draws (the second with 5 training steps), every independence check.
"""
from __future__ import annotations

import copy
import io
import math
import pickle
import time
import warnings

import torch

import gpytorch
from gpytorch import constraints as C, kernels as K, likelihoods as L, means as M, priors as P, variational as V
from gpytorch.distributions import MultitaskMultivariateNormal as MTMVN, MultivariateNormal as MVN

D = torch.float64


# --------------------------------------------------------------------------------------------------------------------
# model classes (module level: pickle needs importable classes)
# --------------------------------------------------------------------------------------------------------------------
class ExactModel(gpytorch.models.ExactGP):
    def __init__(self, x, y, lik, mean, covar, out="mvn", extractor=None):
        super().__init__(x, y, lik)
        self.mean_module = mean
        self.covar_module = covar
        self.out = out
        self.extractor = extractor

    def forward(self, x):
        if self.extractor is not None:
            x = torch.tanh(self.extractor(x))
        mean, covar = self.mean_module(x), self.covar_module(x)
        if self.out == "mtmvn":
            return MTMVN(mean, covar)
        if self.out == "batch_mtmvn":
            return MTMVN.from_batch_mvn(MVN(mean, covar))
        return MVN(mean, covar)


class HadamardModel(gpytorch.models.ExactGP):
    def __init__(self, xs, y, lik, mean, covar, task_covar):
        super().__init__(xs, y, lik)
        self.mean_module = mean
        self.covar_module = covar
        self.task_covar_module = task_covar

    def forward(self, x, i):
        return MVN(self.mean_module(x), self.covar_module(x).mul(self.task_covar_module(i)))


class ApproxModel(gpytorch.models.ApproximateGP):
    def __init__(self, make_strategy, mean, covar):
        super().__init__(make_strategy(self))
        self.mean_module = mean
        self.covar_module = covar

    def forward(self, x):
        return MVN(self.mean_module(x), self.covar_module(x))


class Holder(torch.nn.Module):
    """a plain torch container (deep-kernel-learning style wrapper): NOT a gpytorch.Module"""

    def __init__(self, model, likelihood=None):
        super().__init__()
        self.scaler = torch.nn.Linear(1, 1)
        self.model = model
        self.likelihood = likelihood


def _mean_weights(m):  # prior closures must be importable for pickle
    return m.weights.squeeze(-1)


def _set_mean_weights(m, v):
    m.initialize(weights=v.unsqueeze(-1))


class Bundle:
    def __init__(self, model, lik):
        self.model, self.lik = model, lik

    def modules(self):
        return [self.model] if self.lik is None or any(self.lik is mod for mod in self.model.modules()) else [self.model, self.lik]


class PersistenceFailure(Exception):
    pass


# --------------------------------------------------------------------------------------------------------------------
# specs
# --------------------------------------------------------------------------------------------------------------------
class Spec:
    def __init__(self, name, kind, build, X, Y, Xs, X1=None, Y1=None, oracle=False, objective="mll", lik_kwargs=None, n_data=None,
                 heavy=False, Xh=None):
        self.name, self.kind, self._build = name, kind, build
        self.X, self.Y, self.Xs, self.X1, self.Y1 = X, Y, Xs, X1, Y1
        self.oracle, self.objective, self.lik_kwargs, self.heavy = oracle, objective, lik_kwargs or (lambda xs: {}), heavy
        self.Xh = Xs if Xh is None else Xh  # the points predicted at during the HISTORY (evaluation always uses Xs)

    def build(self, variant, data):
        return self._build(variant, *data)


def _v(variant, a, b):
    return a if variant == "orig" else b


def _data(n, d, seed, lo=0.0, hi=1.0):
    g = torch.Generator().manual_seed(seed)
    if d == 1:
        X = torch.linspace(lo, hi, n, dtype=D).unsqueeze(-1)
    else:
        X = lo + (hi - lo) * torch.rand(n, d, dtype=D, generator=g)
    Y = torch.sin(5 * X.sum(-1)) + 0.1 * torch.randn(n, dtype=D, generator=g)
    return X, Y


def _test_points(d, seed, lo=0.0, hi=1.0):
    g = torch.Generator().manual_seed(seed + 77)
    if d == 1:
        return torch.tensor([[0.07], [0.41], [0.83], [1.12]], dtype=D) * (hi - lo) + lo
    Xs = lo + (hi - lo) * torch.rand(4, d, dtype=D, generator=g)
    Xs[-1] = hi + 0.1 * (hi - lo)
    return Xs


def make_specs(tier):
    S = []
    n = 9
    X1d, Y1d = _data(n, 1, 1)
    X1d_b, Y1d_b = _data(n, 1, 2, 0.05, 1.2)
    Xs1 = _test_points(1, 1)
    X2d, Y2d = _data(n, 2, 3)
    X2d_b, Y2d_b = _data(n, 2, 4)
    Xs2 = _test_points(2, 3)

    def exact(name, parts, d=1, out="mvn", oracle=False, Y=None, Yb=None, lik_kwargs=None, extractor=None, heavy=False, xscale=1.0, Xs=None, Xh=None, Xb=None):
        X, Y0 = (X1d, Y1d) if d == 1 else (X2d * xscale, Y2d)
        Xb_, Y0b = (X1d_b, Y1d_b) if d == 1 else (X2d_b * xscale, Y2d_b)
        Xb = Xb_ if Xb is None else Xb
        Xs_ = (Xs1 if d == 1 else Xs2 * xscale) if Xs is None else Xs
        Y, Yb = (Y0 if Y is None else Y), (Y0b if Yb is None else Yb)

        def build(variant, x, y):
            mean, covar, lik = parts(variant)
            ext = extractor() if extractor is not None else None
            return Bundle(ExactModel(x, y, lik, mean, covar, out=out, extractor=ext), lik)
        S.append(Spec(name, "exact", build, X, Y, Xs_, Xb, Yb, oracle=oracle, lik_kwargs=lik_kwargs, heavy=heavy, Xh=Xh))

    # ---- exact GPs: kernels / constraints / priors / likelihoods -------------------------------------------------------
    exact("exact/rbf_scale_constant", lambda v: (M.ConstantMean(), K.ScaleKernel(K.RBFKernel()), L.GaussianLikelihood()), oracle=True)
    exact("exact/matern_ard_interval_bounds", lambda v: (
        M.ConstantMean(constant_constraint=C.Interval(_v(v, -3.0, -7.0), _v(v, 3.0, 7.0))),
        K.ScaleKernel(K.MaternKernel(nu=2.5, ard_num_dims=2, lengthscale_constraint=C.Interval(_v(v, 0.05, 0.01), _v(v, 4.0, 9.0))),
                      outputscale_constraint=C.Interval(_v(v, 0.1, 0.2), _v(v, 10.0, 20.0))),
        L.GaussianLikelihood(noise_constraint=C.Interval(_v(v, 1e-3, 1e-2), _v(v, 2.0, 5.0)))), d=2, oracle=True)
    exact("exact/rbf_greater_less_than_bounds", lambda v: (
        M.ZeroMean(),
        K.ScaleKernel(K.RBFKernel(lengthscale_constraint=C.GreaterThan(_v(v, 0.1, 0.3))), outputscale_constraint=C.LessThan(_v(v, 5.0, 8.0))),
        L.GaussianLikelihood(noise_constraint=C.GreaterThan(_v(v, 1e-2, 1e-3)))), oracle=True)
    exact("exact/priors_gamma_normal", lambda v: (
        M.ConstantMean(constant_prior=P.NormalPrior(_v(v, 0.1, -0.4), _v(v, 2.0, 0.7))),
        K.ScaleKernel(K.RBFKernel(lengthscale_prior=P.GammaPrior(_v(v, 3.0, 1.5), _v(v, 6.0, 2.0))),
                      outputscale_prior=P.GammaPrior(_v(v, 2.0, 4.0), _v(v, 0.15, 1.0))),
        L.GaussianLikelihood(noise_prior=P.GammaPrior(_v(v, 1.1, 2.2), _v(v, 0.05, 0.5)))))
    exact("exact/priors_lognormal_halfcauchy_halfnormal", lambda v: (
        M.ConstantMean(),
        K.ScaleKernel(K.MaternKernel(nu=1.5, lengthscale_prior=P.LogNormalPrior(_v(v, -1.2, 0.0), _v(v, 0.45, 1.0))),
                      outputscale_prior=P.HalfCauchyPrior(_v(v, 3.5, 1.0))),
        L.GaussianLikelihood(noise_prior=P.HalfNormalPrior(_v(v, 0.2, 1.0)))))

    def cast_parts(v):
        # the usual user path: build in the default dtype float32, then model.double()
        prev = torch.get_default_dtype()
        torch.set_default_dtype(torch.float32)
        try:
            parts = (M.ConstantMean(constant_prior=P.NormalPrior(_v(v, 0.1, -0.4), _v(v, 2.0, 0.7))),
                     K.ScaleKernel(K.MaternKernel(nu=1.5, lengthscale_prior=P.LogNormalPrior(_v(v, -1.2, 0.0), _v(v, 0.45, 1.0))),
                                   outputscale_prior=P.HalfCauchyPrior(_v(v, 3.5, 1.0))),
                     L.GaussianLikelihood(noise_prior=P.GammaPrior(_v(v, 1.1, 2.2), _v(v, 0.05, 0.5))))
        finally:
            torch.set_default_dtype(prev)
        return tuple(p.double() for p in parts)
    exact("exact/priors_built_float32_then_double", cast_parts)

    def misc_prior_parts(v):
        mean = M.LinearMean(1)
        mean.register_prior("weights_prior", P.MultivariateNormalPrior(torch.full((1,), _v(v, 0.3, -0.2), dtype=D),
                                                                     covariance_matrix=torch.eye(1, dtype=D) * _v(v, 2.0, 0.5)),
                            _mean_weights, _set_mean_weights)
        return (mean,
                K.ScaleKernel(K.RBFKernel(lengthscale_prior=P.SmoothedBoxPrior(_v(v, 0.01, 0.05), _v(v, 5.0, 8.0), sigma=_v(v, 0.1, 0.2))),
                              outputscale_prior=P.UniformPrior(_v(v, 0.0, 0.0), _v(v, 20.0, 50.0))),
                L.GaussianLikelihood(noise_prior=P.HorseshoePrior(_v(v, 0.3, 1.0))))
    exact("exact/priors_smoothedbox_uniform_mvn_horseshoe", misc_prior_parts)
    exact("exact/priors_registered_with_library_lambdas", lambda v: (
        M.ZeroMean(),
        K.ScaleKernel(K.RBFKernel()) + K.LinearKernel(variance_prior=P.GammaPrior(_v(v, 2.0, 3.0), _v(v, 1.0, 2.0)))
        + K.PolynomialKernel(power=2, offset_prior=P.GammaPrior(_v(v, 1.5, 2.5), _v(v, 1.0, 3.0))),
        L.GaussianLikelihood()))
    exact("exact/product_additive_active_dims", lambda v: (
        M.ConstantMean(),
        K.ScaleKernel(K.RBFKernel(active_dims=[0]) * K.PeriodicKernel(active_dims=[1])) + K.LinearKernel() + K.ConstantKernel(),
        L.GaussianLikelihood()), d=2, oracle=True)
    exact("exact/spectral_mixture", lambda v: (M.ConstantMean(), K.SpectralMixtureKernel(num_mixtures=2, ard_num_dims=1), L.GaussianLikelihood()),
          oracle=True)
    exact("exact/rq_cosine_piecewise", lambda v: (
        M.LinearMean(2), K.ScaleKernel(K.RQKernel()) + K.CosineKernel() * K.PiecewisePolynomialKernel(q=2, ard_num_dims=2),
        L.GaussianLikelihood()), d=2, oracle=True)
    exact("exact/cylindrical_arc", lambda v: (
        M.ConstantMean(),
        K.ScaleKernel(K.CylindricalKernel(num_angular_weights=3, radial_base_kernel=K.MaternKernel(nu=2.5))),
        L.GaussianLikelihood()), d=2, oracle=True, xscale=0.55)  # the cylindrical kernel needs |x| <= 1
    noise_fix = 0.05 + 0.1 * torch.rand(n, dtype=D, generator=torch.Generator().manual_seed(5))
    exact("exact/fixed_noise_learn_additional", lambda v: (
        M.ConstantMean(), K.ScaleKernel(K.RBFKernel()), L.FixedNoiseGaussianLikelihood(noise_fix.clone(), learn_additional_noise=True)),
        oracle=True, lik_kwargs=lambda xs: {"noise": torch.full((xs.shape[-2],), 0.07, dtype=D)})
    exact("exact/batch_shape_2", lambda v: (
        M.ConstantMean(batch_shape=torch.Size([2])),
        K.ScaleKernel(K.RBFKernel(batch_shape=torch.Size([2])), batch_shape=torch.Size([2])),
        L.GaussianLikelihood(batch_shape=torch.Size([2]))), Y=torch.stack([Y1d, Y1d.flip(0)]), Yb=torch.stack([Y1d_b, Y1d_b.flip(0)]), oracle=True)
    exact("exact/dkl_extractor_inside_model", lambda v: (M.ConstantMean(), K.ScaleKernel(K.RBFKernel()), L.GaussianLikelihood()),
          extractor=lambda: torch.nn.Linear(1, 1).double(), oracle=False)
    # ---- multitask exact -------------------------------------------------------------------------------------------------
    Ymt, Ymt_b = torch.stack([Y1d, Y1d.flip(0) * 0.5], -1), torch.stack([Y1d_b, Y1d_b.flip(0) * 0.5], -1)
    exact("multitask/kronecker_rank1", lambda v: (
        M.MultitaskMean(M.ConstantMean(), num_tasks=2), K.MultitaskKernel(K.RBFKernel(), num_tasks=2, rank=1),
        L.MultitaskGaussianLikelihood(num_tasks=2, rank=0)), out="mtmvn", Y=Ymt, Yb=Ymt_b, oracle=True)
    exact("multitask/kronecker_lik_rank1_noise_prior", lambda v: (
        M.MultitaskMean(M.ConstantMean(), num_tasks=2), K.MultitaskKernel(K.MaternKernel(nu=2.5), num_tasks=2, rank=1),
        L.MultitaskGaussianLikelihood(num_tasks=2, rank=1, noise_prior=P.GammaPrior(_v(v, 1.1, 2.0), _v(v, 0.5, 1.5)))), out="mtmvn", Y=Ymt, Yb=Ymt_b)
    exact("multitask/independent_batch", lambda v: (
        M.ConstantMean(batch_shape=torch.Size([2])),
        K.ScaleKernel(K.RBFKernel(batch_shape=torch.Size([2])), batch_shape=torch.Size([2])),
        L.MultitaskGaussianLikelihood(num_tasks=2, rank=0)), out="batch_mtmvn", Y=Ymt, Yb=Ymt_b, oracle=True)

    def hadamard_build(variant, xs, y, lkj=False):
        lik = L.GaussianLikelihood()
        prior = P.LKJCovariancePrior(2, _v(variant, 1.5, 3.0), P.GammaPrior(_v(variant, 2.0, 4.0), _v(variant, 1.0, 2.0))) if lkj else None
        return Bundle(HadamardModel(xs, y, lik, M.ConstantMean(), K.RBFKernel(), K.IndexKernel(num_tasks=2, rank=1, prior=prior)), lik)
    idx = (torch.arange(n) % 2).unsqueeze(-1)
    idx_s = torch.tensor([[0], [1], [1], [0]])
    S.append(Spec("multitask/hadamard_index_kernel", "exact", hadamard_build, (X1d, idx), Y1d, (Xs1, idx_s), (X1d_b, idx.flip(0)), Y1d_b, oracle=False))
    S.append(Spec("multitask/hadamard_index_kernel_lkj_prior", "exact", lambda v, xs, y: hadamard_build(v, xs, y, lkj=True), (X1d, idx), Y1d, (Xs1, idx_s),
                  (X1d_b, idx.flip(0)), Y1d_b, oracle=False))

    # ---- structured / approximate kernels in exact GPs -----------------------------------------------------------------------
    def sgpr_build(variant, x, y):
        lik = L.GaussianLikelihood()
        Z = torch.tensor(_v(variant, [[0.1], [0.4], [0.6], [0.95]], [[0.0], [0.3], [0.7], [1.0]]), dtype=D)
        return Bundle(ExactModel(x, y, lik, M.ConstantMean(), K.InducingPointKernel(K.ScaleKernel(K.RBFKernel()), inducing_points=Z, likelihood=lik)), lik)
    S.append(Spec("sgpr/inducing_point_kernel", "exact", sgpr_build, X1d, Y1d, Xs1, X1d_b, Y1d_b))

    exact("kiss/fixed_grid_1d", lambda v: (
        M.ConstantMean(), K.ScaleKernel(K.GridInterpolationKernel(K.RBFKernel(), grid_size=_v(v, 24, 24), grid_bounds=[_v(v, (-0.3, 1.6), (-0.4, 1.8))])),
        L.GaussianLikelihood()), oracle=True)
    exact("kiss/dynamic_grid_1d", lambda v: (
        M.ConstantMean(), K.ScaleKernel(K.GridInterpolationKernel(K.RBFKernel(), grid_size=24, num_dims=1)), L.GaussianLikelihood()), oracle=True)
    # the same, but every evaluation point lies strictly inside the training range; only the HISTORY contains one prediction
    # further out on both sides (the data-determined grid then stays put for all later calls of the original)
    exact("kiss/dynamic_grid_1d_history_saw_wider_inputs", lambda v: (
        M.ConstantMean(), K.ScaleKernel(K.GridInterpolationKernel(K.RBFKernel(), grid_size=24, num_dims=1)), L.GaussianLikelihood()), oracle=True,
        Xs=torch.tensor([[0.07], [0.41], [0.66], [0.93]], dtype=D), Xh=torch.tensor([[-0.25], [0.5], [1.3]], dtype=D), Xb=0.1 + 0.8 * X1d)
    exact("kiss/fixed_grid_2d", lambda v: (
        M.ConstantMean(), K.ScaleKernel(K.GridInterpolationKernel(K.MaternKernel(nu=2.5, ard_num_dims=2), grid_size=10,
                                                                   grid_bounds=[_v(v, (-0.3, 1.5), (-0.5, 1.7)), (-0.3, 1.5)])),
        L.GaussianLikelihood()), d=2, oracle=True)
    exact("rff/num_dims_given", lambda v: (M.ConstantMean(), K.ScaleKernel(K.RFFKernel(num_samples=6, num_dims=1)), L.GaussianLikelihood()), oracle=True)
    exact("rff/weights_drawn_at_first_call", lambda v: (M.ConstantMean(), K.ScaleKernel(K.RFFKernel(num_samples=6)), L.GaussianLikelihood()), oracle=True)

    def grid_build(variant, x, y):
        lik = L.GaussianLikelihood()
        grid = torch.linspace(0, 1, n, dtype=D).unsqueeze(-1)
        return Bundle(ExactModel(x, y, lik, M.ConstantMean(), K.GridKernel(K.RBFKernel(), grid=grid)), lik)
    S.append(Spec("grid/grid_kernel_1d", "exact", grid_build, X1d, Y1d, Xs1, X1d, Y1d_b, oracle=True))

    # ---- model list -----------------------------------------------------------------------------------------------------------
    def list_build(variant, xs, ys):
        models = []
        for i, (x, y) in enumerate(zip(xs, ys)):
            lik = L.GaussianLikelihood(noise_constraint=C.GreaterThan(_v(variant, 1e-3, 1e-2)))
            kern = K.ScaleKernel(K.RBFKernel() if i == 0 else K.MaternKernel(nu=0.5, lengthscale_prior=P.GammaPrior(_v(variant, 3.0, 2.0), 6.0)))
            models.append(ExactModel(x, y, lik, M.ConstantMean(), kern))
        ml = gpytorch.models.IndependentModelList(*models)
        return Bundle(ml, ml.likelihood)
    S.append(Spec("model_list/two_exact", "list", list_build, [X1d, X1d_b], [Y1d, Y1d_b], [Xs1, Xs1]))

    # ---- variational ------------------------------------------------------------------------------------------------------------
    m_ind = 4

    def Z0(variant, d=1):
        z = torch.linspace(0.05, 0.95, m_ind, dtype=D).unsqueeze(-1) if variant == "orig" else torch.linspace(0.0, 1.0, m_ind, dtype=D).unsqueeze(-1)
        return z if d == 1 else torch.cat([z, z.flip(0)], -1)

    def approx(name, strategy, lik=lambda v: L.GaussianLikelihood(), batch=torch.Size([]), objective="elbo", Y=None, kshape=None, heavy=False, d=1):
        kshape_ = batch if kshape is None else kshape

        def build(variant, x, y):
            model = ApproxModel(lambda self: strategy(self, variant), M.ConstantMean(batch_shape=kshape_),
                                K.ScaleKernel(K.RBFKernel(batch_shape=kshape_), batch_shape=kshape_))
            return Bundle(model, lik(variant))
        X, Y0 = (X1d, Y1d) if d == 1 else (X2d, Y2d)
        S.append(Spec(name, "approx", build, X, Y0 if Y is None else Y, Xs1 if d == 1 else Xs2, objective=objective, heavy=heavy))

    dists = {"cholesky": V.CholeskyVariationalDistribution, "mean_field": V.MeanFieldVariationalDistribution, "delta": V.DeltaVariationalDistribution,
             "natural": V.NaturalVariationalDistribution, "tril_natural": V.TrilNaturalVariationalDistribution}
    for dn, dist in dists.items():
        approx(f"svgp/whitened/{dn}", lambda self, v, dist=dist: V.VariationalStrategy(self, Z0(v), dist(m_ind), learn_inducing_locations=True))
    approx("svgp/whitened_fixed_inducing/cholesky", lambda self, v: V.VariationalStrategy(self, Z0(v), V.CholeskyVariationalDistribution(m_ind), learn_inducing_locations=False))
    for dn in ("cholesky", "mean_field"):
        approx(f"svgp/unwhitened/{dn}", lambda self, v, dist=dists[dn]: V.UnwhitenedVariationalStrategy(self, Z0(v), dist(m_ind), learn_inducing_locations=True))
    approx("svgp/batch_decoupled/cholesky", lambda self, v: V.BatchDecoupledVariationalStrategy(self, Z0(v), V.CholeskyVariationalDistribution(m_ind), learn_inducing_locations=True),
           kshape=torch.Size([2]))
    approx("svgp/orthogonally_decoupled/delta", lambda self, v: V.OrthogonallyDecoupledVariationalStrategy(
        V.VariationalStrategy(self, Z0(v), V.CholeskyVariationalDistribution(m_ind), learn_inducing_locations=True),
        torch.linspace(0.1, 0.9, 6, dtype=D).unsqueeze(-1) + _v(v, 0.0, 0.03), V.DeltaVariationalDistribution(6)))
    approx("svgp/ciq/natural", lambda self, v: V.CiqVariationalStrategy(self, Z0(v), V.NaturalVariationalDistribution(m_ind), learn_inducing_locations=True), heavy=True)
    approx("svgp/grid_interpolation/cholesky", lambda self, v: V.GridInterpolationVariationalStrategy(
        self, grid_size=8, grid_bounds=[_v(v, (-0.2, 1.4), (-0.3, 1.6))], variational_distribution=V.CholeskyVariationalDistribution(8)))
    approx("svgp/additive_grid_interpolation/cholesky", lambda self, v: V.AdditiveGridInterpolationVariationalStrategy(
        self, grid_size=6, grid_bounds=[_v(v, (-0.2, 1.4), (-0.3, 1.6))], num_dim=2, variational_distribution=V.CholeskyVariationalDistribution(6, batch_shape=torch.Size([2]))), d=2)
    approx("svgp/nearest_neighbor/mean_field", lambda self, v: V.NNVariationalStrategy(self, X1d.clone(), V.MeanFieldVariationalDistribution(n), k=3, training_batch_size=n))
    Y3 = torch.stack([Y1d, Y1d.flip(0), 0.5 * Y1d], -1)
    approx("multitask_svgp/lmc/cholesky", lambda self, v: V.LMCVariationalStrategy(
        V.VariationalStrategy(self, Z0(v), V.CholeskyVariationalDistribution(m_ind, batch_shape=torch.Size([2])), learn_inducing_locations=True),
        num_tasks=3, num_latents=2, latent_dim=-1), lik=lambda v: L.MultitaskGaussianLikelihood(num_tasks=3, rank=0), batch=torch.Size([2]), Y=Y3)
    approx("multitask_svgp/lmc/natural", lambda self, v: V.LMCVariationalStrategy(
        V.VariationalStrategy(self, Z0(v), V.NaturalVariationalDistribution(m_ind, batch_shape=torch.Size([2])), learn_inducing_locations=True),
        num_tasks=3, num_latents=2, latent_dim=-1), lik=lambda v: L.MultitaskGaussianLikelihood(num_tasks=3, rank=0), batch=torch.Size([2]), Y=Y3)
    approx("multitask_svgp/independent/mean_field", lambda self, v: V.IndependentMultitaskVariationalStrategy(
        V.VariationalStrategy(self, Z0(v), V.MeanFieldVariationalDistribution(m_ind, batch_shape=torch.Size([3])), learn_inducing_locations=True),
        num_tasks=3), lik=lambda v: L.MultitaskGaussianLikelihood(num_tasks=3, rank=0), batch=torch.Size([3]), Y=Y3)
    approx("svgp/whitened/cholesky_bernoulli", lambda self, v: V.VariationalStrategy(self, Z0(v), V.CholeskyVariationalDistribution(m_ind), learn_inducing_locations=True),
           lik=lambda v: L.BernoulliLikelihood(), Y=(Y1d > 0).to(D))
    approx("svgp/whitened/cholesky_student_t_predictive_ll", lambda self, v: V.VariationalStrategy(self, Z0(v), V.CholeskyVariationalDistribution(m_ind), learn_inducing_locations=True),
           lik=lambda v: L.StudentTLikelihood(deg_free_prior=P.GammaPrior(_v(v, 2.0, 3.0), _v(v, 0.5, 1.0))), objective="pll")
    approx("svgp/whitened/cholesky_beta_scale_prior", lambda self, v: V.VariationalStrategy(self, Z0(v), V.CholeskyVariationalDistribution(m_ind), learn_inducing_locations=True),
           lik=lambda v: L.BetaLikelihood(scale_prior=P.GammaPrior(_v(v, 2.0, 3.0), _v(v, 0.5, 1.0))), Y=torch.sigmoid(Y1d))
    return S


# --------------------------------------------------------------------------------------------------------------------
# mechanics
# --------------------------------------------------------------------------------------------------------------------
def _as_args(x):
    return tuple(x) if isinstance(x, (tuple, list)) else (x,)


def _params(b):
    seen, out = set(), []
    for mi, mod in enumerate(b.modules()):
        for name, p in mod.named_parameters():
            if id(p) not in seen:
                seen.add(id(p))
                out.append((f"{mi}.{name}", p))
    return out


def _hyper_names(b):
    var = set()
    for mod in b.modules():
        if hasattr(mod, "named_variational_parameters"):
            var |= {id(p) for _, p in mod.named_variational_parameters()}
    return [(name, p) for name, p in _params(b) if id(p) not in var]


def perturb(b, phase):
    with torch.no_grad():
        for i, (name, p) in enumerate(_hyper_names(b)):
            scale = 0.03 if "inducing_points" in name else 0.25
            p.add_(scale * torch.cos(phase + i + 0.7 * torch.arange(p.numel(), dtype=p.dtype)).view_as(p))


def objective_fn(spec, b):
    model, lik = b.model, b.lik
    if spec.kind == "exact":
        mll = gpytorch.mlls.ExactMarginalLogLikelihood(lik, model)
        return mll(model(*model.train_inputs), model.train_targets).sum()
    if spec.kind == "list":
        mll = gpytorch.mlls.SumMarginalLogLikelihood(lik, model)
        return mll(model(*[ti[0] for ti in model.train_inputs]), model.train_targets)
    cls = gpytorch.mlls.VariationalELBO if spec.objective == "elbo" else gpytorch.mlls.PredictiveLogLikelihood
    mll = cls(lik, model, num_data=spec.Y.shape[0])
    return mll(model(spec.X), spec.Y).sum()


def _dist_tensors(prefix, dist, out):
    dists = dist if isinstance(dist, list) else [dist]
    for i, dd in enumerate(dists):
        tag = prefix if len(dists) == 1 else f"{prefix}[{i}]"
        out[f"{tag}/mean"] = dd.mean.detach().clone()
        out[f"{tag}/covar"] = dd.covariance_matrix.detach().clone()


def _predict(spec, b, out, prefix, with_y=True, Xs=None, grad=False):
    model, lik = b.model, b.lik
    Xs = spec.Xs if Xs is None else Xs
    with torch.set_grad_enabled(grad), gpytorch.settings.fast_pred_var(False):
        torch.manual_seed(SEED)
        if spec.kind == "list":
            pred = model(*Xs)
        else:
            pred = model(*_as_args(Xs))
        _dist_tensors(prefix, pred, out)
        if with_y:
            torch.manual_seed(SEED)
            if spec.kind == "list":
                ys = lik(*pred)
                for i, yd in enumerate(ys):
                    out[f"{prefix}[{i}]/y_var"] = yd.variance.detach().clone()
            else:
                yd = lik(pred, **spec.lik_kwargs(_as_args(Xs)[0]))
                out[f"{prefix}/y_var"] = yd.variance.detach().clone()
                out[f"{prefix}/y_mean"] = yd.mean.detach().clone()


def evaluate(spec, b, as_is=True):
    """all observable quantities of a (model, likelihood) pair; the train / eval mode is restored afterwards"""
    out = {}
    model = b.model
    was_training = model.training
    if not was_training and as_is:
        _predict(spec, b, out, "as_is_predictive", with_y=False)
    for mod in b.modules():
        mod.train()
    with torch.no_grad():
        torch.manual_seed(SEED)
        if spec.kind == "exact":
            prior = model(*model.train_inputs)
        elif spec.kind == "list":
            prior = model(*[ti[0] for ti in model.train_inputs])
        else:
            prior = model.forward(spec.X)  # ApproximateGP.forward is the prior (model(x, prior=True) is not supported by every strategy)
        _dist_tensors("prior", prior, out)
    for _, p in _params(b):
        p.grad = None
    torch.manual_seed(SEED)
    obj = objective_fn(spec, b)
    out["objective"] = obj.detach().clone().reshape(1)
    if obj.requires_grad:
        obj.backward()
    out["objective_grad"] = torch.cat([(p.grad if p.grad is not None else torch.zeros_like(p)).reshape(-1) for _, p in _params(b)]) if _params(b) else torch.zeros(0, dtype=D)
    for _, p in _params(b):
        p.grad = None
    with torch.no_grad():
        terms = []
        for mod in b.modules():
            if hasattr(mod, "named_priors"):
                for name, module, prior, closure, _ in mod.named_priors():
                    terms.append(prior.log_prob(closure(module)).sum().reshape(1).to(D))
        out["log_prior_terms"] = torch.cat(terms) if terms else torch.zeros(0, dtype=D)
    for mod in b.modules():
        mod.eval()
    _predict(spec, b, out, "predictive")
    if was_training:
        for mod in b.modules():
            mod.train()
    return out


def state_of(b):
    st = {}
    for mi, mod in enumerate(b.modules()):
        for k, v in mod.state_dict().items():
            st[f"{mi}.{k}"] = v.detach().clone()
    return st


def save_state(b):
    """what a user stores: torch.save of each state_dict into a buffer"""
    blobs = []
    for mod in b.modules():
        buf = io.BytesIO()
        torch.save(mod.state_dict(), buf)
        blobs.append(buf.getvalue())
    return blobs


def save_children(b):
    """the state of every direct child module on its own (a user who stores / transfers the kernel, the mean and the likelihood separately)"""
    blobs = []
    for mod in b.modules():
        own = {k: v for k, v in mod.state_dict().items() if "." not in k}
        assert not own or isinstance(mod, torch.nn.Module) and not isinstance(mod, gpytorch.models.GP), f"parameters directly on the model: {list(own)}"
        d = {}
        for name, child in mod.named_children():
            buf = io.BytesIO()
            torch.save(child.state_dict(), buf)
            d[name] = buf.getvalue()
        buf = io.BytesIO()
        torch.save(own, buf)
        blobs.append((d, buf.getvalue()))
    return blobs


def load_children(b, blobs):
    for mod, (d, own) in zip(b.modules(), blobs):
        children = dict(mod.named_children())
        for name, blob in d.items():
            sd = torch.load(io.BytesIO(blob))
            _persist(lambda: children[name].load_state_dict(sd), "load_state_dict")
        own = torch.load(io.BytesIO(own))
        if own:  # a likelihood passed on its own has its parameters on itself: load them through the module
            _persist(lambda: mod.load_state_dict(own, strict=False), "load_state_dict")


def _persist(fn, what):
    """run a persistence operation; failures of the operation itself on a valid model are violations of the property"""
    try:
        return fn()
    except Exception as e:  # noqa: BLE001
        from engine.runner import classify_replay_exception
        r = classify_replay_exception(e)
        if r.get("violates"):
            raise
        msg = str(e)
        if isinstance(e, (pickle.PicklingError, AttributeError, TypeError)) and ("pickle" in msg.lower() or "local object" in msg.lower()):
            raise PersistenceFailure(f"{what} raised {type(e).__name__}: {msg[:400]}") from e
        if isinstance(e, RuntimeError) and ("state_dict" in msg or "size mismatch" in msg):
            raise PersistenceFailure(f"{what} raised {type(e).__name__}: {msg[:600]}") from e
        if isinstance(e, RuntimeError) and "deepcopy protocol" in msg:
            raise PersistenceFailure(f"{what} raised {type(e).__name__}: {msg[:160]} (the model holds a tensor with a grad_fn)") from e
        raise


def load_state(b, blobs):
    for mod, blob in zip(b.modules(), blobs):
        sd = torch.load(io.BytesIO(blob))
        _persist(lambda: mod.load_state_dict(sd), "load_state_dict")


def current_data(spec, orig):
    if spec.kind == "exact":
        ti = orig.model.train_inputs
        return (ti[0] if len(ti) == 1 else tuple(ti)), orig.model.train_targets
    if spec.kind == "list":
        return [ti[0] for ti in orig.model.train_inputs], list(orig.model.train_targets)
    return spec.X, spec.Y


def make_used(spec, data, phase):
    """a receiver with other hyper-parameter values that has already predicted in eval mode (caches filled)"""
    b = spec.build("orig", data)
    perturb(b, phase)
    if spec.kind == "approx":  # give q(u) some other values too
        for mod in b.modules():
            mod.train()
        with torch.no_grad():
            torch.manual_seed(99)
            b.model(spec.X)
            for _, p in b.model.named_variational_parameters():
                if p.dim() >= 2 and p.shape[-1] == p.shape[-2]:
                    continue
                p.add_(0.3)
    for mod in b.modules():
        mod.eval()
    tmp = {}
    _predict(spec, b, tmp, "p")
    return b


def train_steps(spec, b, steps):
    for mod in b.modules():
        mod.train()
    nat = []
    for mod in b.modules():
        for mm in mod.modules():
            if isinstance(mm, (V.NaturalVariationalDistribution, V.TrilNaturalVariationalDistribution)):
                nat += list(mm.parameters())
    nat_ids = {id(p) for p in nat}
    rest = [p for _, p in _params(b) if id(p) not in nat_ids]
    opts = [torch.optim.Adam(rest, lr=0.05)] if rest else []
    if nat:
        opts.append(gpytorch.optim.NGD(nat, num_data=spec.Y.shape[0], lr=0.1))
    for it in range(steps):
        for o in opts:
            o.zero_grad()
        torch.manual_seed(500 + it)
        loss = -objective_fn(spec, b)
        loss.backward()
        for o in opts:
            o.step()


def predict_history(spec, b, grad=False):
    for mod in b.modules():
        mod.eval()
    tmp = {}
    _predict(spec, b, tmp, "p", Xs=spec.Xh, grad=grad)


def oracle_exact(spec, b):
    """dense float64 GP regression from the model's own kernel / mean / noise values (independent of the prediction code)"""
    model, lik = b.model, b.lik
    X, Y = model.train_inputs[0], model.train_targets
    Xs = spec.Xs
    was = model.training
    model.eval()
    out = {}
    with torch.no_grad():
        def kern(a, c):
            if model.extractor is not None:
                a, c = torch.tanh(model.extractor(a)), torch.tanh(model.extractor(c))
            return model.covar_module(a, c).to_dense()
        Kxx, Ksx, Kss = kern(X, X), kern(Xs, X), kern(Xs, Xs)
        mx, ms = model.mean_module(X), model.mean_module(Xs)
        n = X.shape[-2]
        if model.out == "mtmvn":
            T = Y.shape[-1]
            mx, ms, y = mx.reshape(-1), ms.reshape(-1), Y.reshape(-1)
            R = torch.diag(lik.task_noises.repeat(n)) + lik.noise * torch.eye(n * T, dtype=D)
        elif model.out == "batch_mtmvn":
            # task-major blocks (non-interleaved): block-diagonal over the batch of kernels
            T = Y.shape[-1]
            Kxx, Ksx, Kss = torch.block_diag(*Kxx), torch.block_diag(*Ksx), torch.block_diag(*Kss)
            mx, ms, y = mx.reshape(-1), ms.reshape(-1), Y.transpose(-1, -2).reshape(-1)
            R = torch.diag(lik.task_noises.repeat_interleave(n)) + lik.noise * torch.eye(n * T, dtype=D)
        elif isinstance(lik, L.FixedNoiseGaussianLikelihood):
            y = Y
            R = torch.diag(lik.noise_covar.noise) + lik.second_noise * torch.eye(n, dtype=D)
        else:
            y = Y
            R = lik.noise.unsqueeze(-1) * torch.eye(n, dtype=D)
        S = Kxx + R
        Lc = torch.linalg.cholesky(S)
        resid = (y - mx).unsqueeze(-1)
        alpha = torch.cholesky_solve(resid, Lc)
        mean = ms + (Ksx @ alpha).squeeze(-1)
        cov = Kss - Ksx @ torch.cholesky_solve(Ksx.transpose(-1, -2), Lc)
        nn = y.shape[-1]
        lml = -0.5 * (resid.transpose(-1, -2) @ alpha).squeeze(-1).squeeze(-1) - Lc.diagonal(dim1=-1, dim2=-2).log().sum(-1) - 0.5 * nn * math.log(2 * math.pi)
        if model.out == "batch_mtmvn":
            ns, T = Xs.shape[-2], Y.shape[-1]
            mean = mean.view(T, ns).transpose(-1, -2)
            perm = torch.arange(T * ns).view(T, ns).t().reshape(-1)  # interleave: the predictive distribution is reported point-major
            cov = cov[perm][:, perm]
        elif model.out == "mtmvn":
            mean = mean.view(Xs.shape[-2], Y.shape[-1])
        out["predictive/mean"], out["predictive/covar"] = mean, cov
        out["objective"] = (lml / nn).sum().reshape(1)
    if was:
        model.train()
    return out


def close(ref, got):
    if ref.shape != got.shape:
        return False, f"shape {tuple(got.shape)} vs original {tuple(ref.shape)}"
    if ref.numel() == 0:
        return True, "empty"
    ref, got = ref.to(D), got.to(D)
    fin_r, fin_g = torch.isfinite(ref), torch.isfinite(got)
    if not bool((fin_r == fin_g).all()) or not bool((ref[~fin_r] == got[~fin_g]).all() if (~fin_r).any() else True):
        return False, "non-finite entries differ"
    if not fin_r.any():
        return True, "all non-finite, identical"
    diff = (ref[fin_r] - got[fin_g]).abs().max().item()
    scale = ref[fin_r].abs().max().item()
    return diff <= 1e-6 * scale + 1e-9, f"max abs diff {diff:.3e} (scale {scale:.3e})"


SEED = 4321  # the same seed before every model call: uninitialised variational parameters are initialised (randomly) by whichever call comes first
CHILDREN_QUICK = ("exact/rbf_scale_constant", "exact/priors_gamma_normal", "multitask/kronecker_rank1", "sgpr/inducing_point_kernel", "kiss/fixed_grid_1d",
                  "grid/grid_kernel_1d", "model_list/two_exact", "svgp/whitened/cholesky", "svgp/unwhitened/cholesky", "multitask_svgp/lmc/cholesky")
SAVE_POINTS = ("fresh", "trained", "predicted", "predicted_with_grad", "last")
CHILD_LEVEL_LOADS = False
MECHS = ("state_dict_fresh", "state_dict_fresh_alt", "state_dict_used", "state_dict_used_holder", "state_dict_used_children", "pickle", "deepcopy")


def run(tier="quick", seed=0, only=None):
    from engine.runner import classify_replay_exception
    warnings.filterwarnings("ignore")
    t0 = time.time()
    prev_dtype = torch.get_default_dtype()
    torch.set_default_dtype(D)
    ev, seen, violations, samples, skipped, timing = 0, set(), [], [], [], {}

    def rec(key, ok, detail="", inp=None):
        nonlocal ev
        ev += 1
        seen.add(key)
        if len(samples) < 3:
            samples.append({"case": key, "ok": bool(ok), "detail": str(detail)[:160]})
        if not ok and not any(v["key"] == key for v in violations):
            violations.append({"key": key, "input": inp or {"case": key}, "detail": str(detail), "entry": None})

    def guarded(key, fn, inp=None):
        """returns (True, value) or (False, None) after recording a violation; harness problems are re-raised"""
        try:
            return True, fn()
        except PersistenceFailure as e:
            rec(key, False, str(e), inp)
            return False, None
        except Exception as e:  # noqa: BLE001
            r = classify_replay_exception(e)
            if r.get("violates"):
                rec(key, False, r["detail"][:700], inp)
                return False, None
            raise

    def compare(base, ref, got, mech, inp, ref_has_as_is):
        for q, val in got.items():
            if q.startswith("as_is_predictive"):
                rq = q if (mech in ("pickle", "deepcopy") and ref_has_as_is) else q.replace("as_is_predictive", "predictive")
            else:
                rq = q
            if rq not in ref:
                continue
            ok, detail = close(ref[rq], val)
            rec(f"{base}/{q}", ok, f"{detail}; copy vs original", inp)

    try:
        specs = [s for s in make_specs(tier) if only is None or only in s.name]
        ndraws = 1 if tier == "quick" else 2
        for spec, draw in [(sp_, dr) for sp_ in specs for dr in range(ndraws)]:
            ts = time.time()
            torch.manual_seed(seed)
            sname = spec.name if draw == 0 else f"{spec.name}@draw{draw}"  # further hyper-parameter draws / longer training (thorough tier)
            data0 = (spec.X, spec.Y)
            try:
                orig = spec.build("orig", data0)
            except ImportError as e:
                skipped.append({"spec": spec.name, "reason": f"optional dependency missing: {e}"})
                continue
            perturb(orig, 0.3 + seed + 1.3 * draw)
            prev = None
            points = SAVE_POINTS if (tier != "quick" or not spec.heavy) else ("trained", "predicted")
            for sp in points:
                inp0 = {"family": spec.name, "draw": draw, "save_point": sp, "history": list(points[: points.index(sp) + 1]), "seed": seed,
                        "hyperparameters": "raw parameters of the constructor defaults + 0.25*cos(0.3+seed+1.3*draw+i+0.7*j) (i: parameter index, j: element index)"}

                def advance(sp=sp):
                    if sp == "trained":
                        train_steps(spec, orig, 3 + 2 * draw)
                    elif sp == "predicted":
                        predict_history(spec, orig)
                    elif sp == "predicted_with_grad":
                        for mod in orig.modules():  # back to training mode and on to eval mode again (clears the test-time caches),
                            mod.train()             # then a prediction with autograd enabled (e.g. for the gradient of an acquisition function)
                        predict_history(spec, orig, grad=True)
                    elif sp == "last":
                        if spec.kind == "exact":
                            predict_history(spec, orig)
                            orig.model.set_train_data(spec.X1, spec.Y1, strict=False)
                        else:
                            train_steps(spec, orig, 2)
                            predict_history(spec, orig)
                ok, _ = guarded(f"{sname}/{sp}/original/history", advance, inp0)
                if not ok:
                    break
                data = current_data(spec, orig)
                # ---- take the copies before anything else happens to the original
                copies = {}
                okb, blobs = guarded(f"{sname}/{sp}/state_dict/save", lambda: save_state(orig), inp0)
                holder_blob = None
                if okb:
                    def hsave():
                        buf = io.BytesIO()
                        h = Holder(orig.model, None if len(orig.modules()) == 1 else orig.lik)
                        torch.save(h.state_dict(), buf)
                        return buf.getvalue()
                    _, holder_blob = guarded(f"{sname}/{sp}/state_dict_used_holder/save", hsave, inp0)
                _, child_blobs = guarded(f"{sname}/{sp}/state_dict_used_children/save", lambda: save_children(orig), inp0)
                ref_state = state_of(orig)
                for mech in MECHS:
                    if mech == "state_dict_used_children" and not CHILD_LEVEL_LOADS:
                        # NOT held against the code: the property speaks of saving / loading THE MODEL's state_dict; loading each child's
                        # state_dict separately leaves the parent's prediction caches alone by construction of torch's protocol
                        # (_load_from_state_dict clears the loaded module and its descendants).  The first version of this sweep counted it
                        # (over-demand, see DESIGN.md 10.4); set CHILD_LEVEL_LOADS = True to see those comparisons.
                        continue
                    if tier == "quick" and mech in ("state_dict_used_holder", "state_dict_used_children") and sp != "predicted":
                        continue
                    if tier == "quick" and mech == "state_dict_used_children" and spec.name not in CHILDREN_QUICK:
                        continue

                    def make(mech=mech):
                        if mech == "pickle":
                            mdl, lk = _persist(lambda: pickle.loads(pickle.dumps((orig.model, orig.lik))), "pickle.dumps / loads")
                            return Bundle(mdl, lk)
                        if mech == "deepcopy":
                            mdl, lk = _persist(lambda: copy.deepcopy((orig.model, orig.lik)), "copy.deepcopy")
                            return Bundle(mdl, lk)
                        if blobs is None:
                            return None
                        if mech == "state_dict_fresh":
                            b = spec.build("orig", data)
                        elif mech == "state_dict_fresh_alt":
                            b = spec.build("alt", data)
                        else:
                            b = make_used(spec, data, 1.9)
                        if mech == "state_dict_used_children":
                            if child_blobs is None:
                                return None
                            load_children(b, child_blobs)
                        elif mech == "state_dict_used_holder":
                            if holder_blob is None:
                                return None
                            h = Holder(b.model, None if len(b.modules()) == 1 else b.lik)
                            sd = torch.load(io.BytesIO(holder_blob))
                            _persist(lambda: h.load_state_dict(sd), "load_state_dict")
                        else:
                            load_state(b, blobs)
                        return b
                    okm, cp = guarded(f"{sname}/{sp}/{mech}/round_trip", make, dict(inp0, mechanism=mech))
                    if okm and cp is not None:
                        rec(f"{sname}/{sp}/{mech}/round_trip", True, "completed")
                        copies[mech] = cp
                        # every state entry, right after the round trip (before any call can create / change buffers)
                        st = state_of(cp)
                        bad = [k for k in ref_state if k not in st or st[k].shape != ref_state[k].shape or not close(ref_state[k].to(D), st[k].to(D))[0]]
                        extra = [k for k in st if k not in ref_state]
                        rec(f"{sname}/{sp}/{mech}/state_entries", not bad and not extra,
                            f"entries differing from the saved state: {bad[:6]}; entries only in the copy: {extra[:6]}", dict(inp0, mechanism=mech))
                # ---- the original's own values
                ok, ref = guarded(f"{sname}/{sp}/original/evaluate", lambda: evaluate(spec, orig), inp0)
                if not ok:
                    break
                orc = None
                if spec.oracle:
                    ok, orc = guarded(f"{sname}/{sp}/original/oracle_inputs", lambda: oracle_exact(spec, orig), inp0)
                    if ok:
                        for q, val in list(orc.items()):
                            okq, detail = close(val, ref[q])
                            rec(f"{sname}/{sp}/original/dense_oracle/{q}", okq, f"{detail}; original vs dense float64 GP regression", inp0)
                            if not okq:  # the original itself is off (not a persistence matter): the copies are held to the original only
                                del orc[q]
                ref_has_as_is = any(q.startswith("as_is") for q in ref)
                cur = {}
                for mech, cp in copies.items():
                    inp = dict(inp0, mechanism=mech)
                    base = f"{sname}/{sp}/{mech}"
                    # uninitialised variational parameters (approximate GPs at 'fresh') are initialised randomly by the first
                    # training-mode call; an eval-mode prediction before that is not comparable with anything
                    ok, got = guarded(f"{base}/evaluate", lambda: evaluate(spec, cp, as_is=not (spec.kind == "approx" and sp == "fresh")), inp)
                    if not ok:
                        continue
                    compare(base, ref, got, mech, inp, ref_has_as_is)
                    if orc is not None:
                        for q, val in orc.items():
                            okq, detail = close(val, got[q])
                            rec(f"{base}/dense_oracle/{q}", okq, f"{detail}; copy vs dense float64 GP regression from the original's kernel / mean / noise", inp)
                            if "as_is_" + q in got:
                                okq, detail = close(val, got["as_is_" + q])
                                rec(f"{base}/dense_oracle/as_is_{q}", okq, f"{detail}; copy vs dense float64 GP regression from the original's kernel / mean / noise", inp)
                    if mech in ("pickle", "deepcopy") and (tier != "quick" or sp == "fresh"):
                        # control for the independence check below: a second evaluation of the untouched copy must give the same values
                        # (it does not for kernels whose state moves with the inputs they have seen, e.g. a data-determined KISS-GP grid)
                        ok2, got2 = guarded(f"{base}/evaluate_again", lambda: evaluate(spec, cp), inp)
                        if ok2:
                            moved = [q for q in got if q in got2 and not close(got[q], got2[q])[0]]
                            if moved:
                                skipped.append({"spec": f"{base}/independent_of_original", "reason": f"evaluating the copy twice already changes {moved[:4]} (state that moves with the inputs seen); independence not checkable"})
                            else:
                                cur[mech] = (cp, got2)
                # ---- copies of the previous save point must not have moved with the original
                if prev is not None:
                    psp, pcopies = prev
                    for mech, (cp, vals) in pcopies.items():
                        base = f"{sname}/{psp}/{mech}/independent_of_original"
                        inp = dict(inp0, mechanism=mech, note=f"copy taken at '{psp}', re-evaluated after the original moved on to '{sp}'")
                        ok, got = guarded(f"{base}/evaluate", lambda: evaluate(spec, cp), inp)
                        if ok:
                            for q in vals:
                                if q in got:
                                    okq, detail = close(vals[q], got[q])
                                    rec(f"{base}/{q}", okq, f"{detail}; the copy's values after vs before the original changed", inp)
                prev = (sp, cur)
            timing[sname] = round(time.time() - ts, 2)
    finally:
        torch.set_default_dtype(prev_dtype)
    return {"name": "C18 persistence round trips (state_dict / pickle / deepcopy) vs the original and a dense oracle",
            "evaluations": ev, "distinct_nontrivial": len(seen),
            "bound": "n = 9 training points, 4 test points (one outside the training range), 1-d / 2-d inputs, m = 4..8 inducing points, grids of 6..24 points, "
                     "batch shapes () / (2,) / (3,), 2..3 tasks; histories fresh -> trained (3 / 5 steps) -> predicted -> predicted with autograd on -> set_train_data / retrained; "
                     f"{len(MECHS)} persistence mechanisms per save point; {len(timing)} model families",
            "rule": "a case = (family / configuration, save point, mechanism, quantity); distinct by that key",
            "samples": samples, "violations": violations, "skipped": skipped, "timing": timing, "wall_s": round(time.time() - t0, 2)}
