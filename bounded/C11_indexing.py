"""C11 bounded stand-in (NOT counted as proved): real MultitaskMultivariateNormal objects, dense oracle.

Bound: shapes (n,t) in {(2,3),(3,2),(1,3),(3,1),(3,3)} x batch in {(), (2,)} x interleaved in {T,F};
index expressions built from ints in [-n, n), slices with start/stop in {None,-4,-1,0,1,2,4} and
step in {None,2}, ellipsis forms and index tensors (incl. negative entries); quick tier: a seeded
sample, thorough tier: the full product for event indices.  Also mean / variance / log_prob /
constructors against the dense joint.
"""
from __future__ import annotations

import itertools
import random
import time


def run(tier="quick", seed=0):
    import torch
    from contracts.C11_mtmvn import _joint, _mk_real, gather_check
    from gpytorch.distributions import MultitaskMultivariateNormal as MT, MultivariateNormal as MV
    t0 = time.time()
    rng = random.Random(seed)
    evaluations = 0
    seen = set()
    violations, samples = [], []

    def rec(key, inp, res):
        nonlocal evaluations
        evaluations += 1
        seen.add(key)
        if len(samples) < 3:
            samples.append({"case": key, "input": inp, "ok": not res.get("violates")})
        if res.get("violates") and not any(v["key"] == key.split("#")[0] for v in violations):
            violations.append({"key": key.split("#")[0], "input": inp, "detail": res.get("detail"), "entry": None})

    vals = [None, -4, -1, 0, 1, 2, 4]
    slices = [slice(a, b, c) for a in vals for b in vals for c in (None, 2)]
    shapes = [(2, 3), (3, 2), (1, 3), (3, 1), (3, 3)]
    for (n, t) in shapes:
        for il in (True, False):
            for bs in ([], [2]):
                d, mean, S = _mk_real(n, t, bs, il, seed=seed)
                m5, c5 = _joint(d)
                # layout of mean / variance / log_prob
                ok = torch.equal(d.mean, mean)
                rec(f"mean/{il}", {"n": n, "t": t, "batch": bs}, {"violates": not ok, "detail": "mean property != constructor mean"})
                N = n * t
                want_var = torch.diagonal(c5.reshape(*bs, N, N), dim1=-1, dim2=-2).reshape(*bs, n, t) if il else \
                    torch.stack([torch.stack([c5[(..., i, a, i, a)] for a in range(t)], -1) for i in range(n)], -2)
                rec(f"variance/{il}", {"n": n, "t": t, "batch": bs}, {"violates": not torch.allclose(d.variance, want_var), "detail": "variance != diag of joint"})
                v = torch.randn(*bs, n, t, dtype=torch.double)
                flat_cov = c5.permute(*range(len(bs)), len(bs), len(bs) + 1, len(bs) + 2, len(bs) + 3).reshape(*bs, N, N)
                ref = torch.distributions.MultivariateNormal(m5.reshape(*bs, N), flat_cov)
                import gpytorch
                with gpytorch.settings.fast_computations(log_prob=False):
                    got = d.log_prob(v)
                rec(f"log_prob/{il}", {"n": n, "t": t, "batch": bs},
                    {"violates": not torch.allclose(got, ref.log_prob(v.reshape(*bs, N)), atol=1e-8), "detail": "log_prob != dense joint density"})
                # index expressions
                ints_n = list(range(-n, n))
                ints_t = list(range(-t, t))
                tens_n = [torch.tensor([0, n - 1, -1]), torch.tensor([-n, 0])]
                tens_t = [torch.tensor([t - 1, -t, 0]), torch.tensor([-1, 0])]
                ev = []
                for a in ints_n + slices + tens_n:
                    for b in ints_t + slices + tens_t:
                        if torch.is_tensor(a) and torch.is_tensor(b) and a.shape != b.shape:
                            continue
                        ev.append((a, b))
                if tier == "quick":
                    ev = rng.sample(ev, min(len(ev), 90))
                for (a, b) in ev:
                    forms = [(a, b)]
                    if bs:
                        forms = [(0, a, b), (slice(None), a, b), (Ellipsis, a, b), (-1, Ellipsis, b)]
                        if tier == "quick":
                            forms = [rng.choice(forms)]
                    else:
                        forms.append((Ellipsis, a, b))
                    for idx in forms:
                        r = gather_check(d, idx)
                        rec(f"getitem/{il}/{_kind(idx)}#{n},{t},{bs},{idx!r}", {"n": n, "t": t, "batch": bs, "interleaved": il, "idx": repr(idx)}, r)
                for idx in ([(a,) for a in ints_n[:2] + slices[:6]] if not bs else [(0,), (slice(None),), (1, slice(1, None)), (Ellipsis,), (0, Ellipsis)]):
                    r = gather_check(d, idx if len(idx) > 1 else idx[0])
                    rec(f"getitem/{il}/{_kind(idx)}#{n},{t},{bs},{idx!r}", {"idx": repr(idx)}, r)
    # constructors
    from contracts.C11_mtmvn import replay_ctor
    for params, cl in ([((r, td), "fbm") for r in (1, 2, 3) for td in range(-r, r)] + [((r,), "frm") for r in (0, 1, 2)] +
                       [((k, r), "fim") for k in (2, 3) for r in (0, 1)]):
        res = replay_ctor({}, params, cl, {})
        rec(f"ctor/{cl}/{params}", {"params": list(params)}, res)
    return {
        "name": "C11 real objects vs dense gather oracle", "evaluations": evaluations, "distinct_nontrivial": len(seen),
        "bound": "n,t<=3, batch rank<=1, ints in range, slices start/stop in {None,-4,-1,0,1,2,4} step in {None,2}, index tensors incl. negative entries; "
                 + ("seeded sample of 90 event-index pairs per object" if tier == "quick" else "full product of event-index pairs"),
        "rule": "a case = (shape, layout, index expression) or (constructor, parameters); distinct by that key; all compare full mean and every covariance entry",
        "samples": samples, "violations": violations, "wall_s": round(time.time() - t0, 2),
    }


def _kind(idx):
    import torch
    idx = idx if isinstance(idx, tuple) else (idx,)
    out = []
    for x in idx:
        out.append("int" if isinstance(x, int) else "slice" if isinstance(x, slice) else "ellipsis" if x is Ellipsis else "tensor" if torch.is_tensor(x) else "?")
    return "+".join(out)
