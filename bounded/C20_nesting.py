"""C20 bounded stand-in (NOT counted as proved): well-nested programs of with-blocks run natively.

Bound: every ordered pair of exported settings classes nested to depth 2 (exhaustive, boundary
arguments), plus seeded random programs of depth <= 3 / length <= 4 with an exception raised at a
random block boundary.  Oracle: a stack machine (innermost block of a class determines its value,
None keeps the outer value for per-dtype contexts).  This is also the CPython cross-check of the
heap domain used by the proof tier.
"""
from __future__ import annotations

import itertools
import random
import time


def _classes():
    import torch  # noqa: F401
    import gpytorch.settings as S
    import gpytorch.beta_features as B
    out = []
    for mod in (S, B):
        for n in mod.__all__:
            out.append((n, getattr(mod, n)))
    out.append(("min_fixed_noise", S.min_fixed_noise))
    return out


def _kind(C):
    names = [b.__name__ for b in C.__mro__]
    for k in ("_dtype_value_context", "_feature_flag", "_value_context"):
        if k in names:
            return k
    return "composite"


def observe(C):
    import torch
    k = _kind(C)
    if k == "_feature_flag":
        o = {"on": C.on()}
        if hasattr(C, "num_probe_vectors"):
            o["npv"] = C.num_probe_vectors()
        return o
    if k == "_value_context":
        return {"value": C.value()}
    if k == "_dtype_value_context":
        return {d: C.value(getattr(torch, d)) for d in ("float", "double", "half")}
    if C.__name__ == "fast_computations":
        return {f: getattr(C, f).on() for f in ("covar_root_decomposition", "log_prob", "solves")}
    if C.__name__ == "linalg_dtypes":
        import linear_operator.settings as LS
        return {"symeig": LS._linalg_dtype_symeig.value(), "cholesky": LS._linalg_dtype_cholesky.value()}
    raise AssertionError(C)


def arg_choices(name, C):
    import torch
    k = _kind(C)
    if k == "_feature_flag":
        if name == "fast_pred_var":
            return [dict(state=True, num_probe_vectors=3), dict(state=False, num_probe_vectors=7)]
        return [dict(state=True), dict(state=False)]
    if k == "_value_context":
        if name == "observation_nan_policy":
            return [dict(value="mask"), dict(value="fill")]
        if name.startswith("_linalg_dtype"):
            return [dict(value=torch.float), dict(value=torch.double)]
        return [dict(value=7), dict(value=0.125)]
    if k == "_dtype_value_context":
        return [dict(float_value=0.5), dict(double_value=0.25, half_value=0.75), dict(float_value=1.5, double_value=2.5, half_value=3.5)]
    if name == "fast_computations":
        return [dict(covar_root_decomposition=False, log_prob=True, solves=False), dict(log_prob=False)]
    if name == "linalg_dtypes":
        return [dict(default=torch.float), dict(default=torch.double, symeig=torch.float)]
    raise AssertionError(name)


def expected_inside(name, C, outer, args):
    import torch
    k = _kind(C)
    e = dict(outer)
    if k == "_feature_flag":
        e["on"] = args.get("state", True)
        if "npv" in e:
            e["npv"] = args.get("num_probe_vectors", 1)
    elif k == "_value_context":
        e["value"] = args["value"]
    elif k == "_dtype_value_context":
        for d in ("float", "double", "half"):
            if args.get(d + "_value") is not None:
                e[d] = args[d + "_value"]
    elif name == "fast_computations":
        for f in ("covar_root_decomposition", "log_prob", "solves"):
            e[f] = args.get(f, True)
    elif name == "linalg_dtypes":
        dflt = args.get("default", torch.double)
        e["symeig"] = args.get("symeig") or dflt
        e["cholesky"] = args.get("cholesky") or dflt
    return e


class Boom(Exception):
    pass


def run_program(prog, classes, raise_at=None):
    """prog: nested list [(name, args, [children...]), ...]; returns list of failures"""
    cmap = dict(classes)
    fails = []
    counter = [0]

    def snapshot():
        return {n: observe(C) for n, C in classes}

    def block(items):
        for name, args, children in items:
            C = cmap[name]
            before = snapshot()
            exp_in = dict(before)
            exp_in[name] = expected_inside(name, C, before[name], args)
            # members of the composites are also visible through their own classes
            try:
                with C(**args):
                    inside = snapshot()
                    _cmp(inside, exp_in, f"inside {name}({args})", fails, composite=name)
                    counter[0] += 1
                    if raise_at == counter[0]:
                        raise Boom()
                    block(children)
                    _cmp(snapshot(), exp_in, f"after children of {name}({args})", fails, composite=name)
            finally:
                after = snapshot()
                _cmp(after, before, f"after exit of {name}({args})", fails)

    try:
        block(prog)
    except Boom:
        pass
    return fails


_LINKED = {"fast_computations": (), "linalg_dtypes": ("_linalg_dtype_symeig", "_linalg_dtype_cholesky"),
           "_linalg_dtype_symeig": ("linalg_dtypes",), "_linalg_dtype_cholesky": ("linalg_dtypes",)}


def _cmp(got, exp, where, fails, composite=None):
    skip = set(_LINKED.get(composite, ())) if composite else set()
    for n in exp:
        if n in skip:
            continue
        if got[n] != exp[n]:
            fails.append({"where": where, "setting": n, "got": repr(got[n]), "expected": repr(exp[n])})


def run(tier="quick", seed=0):
    t0 = time.time()
    classes = _classes()
    rng = random.Random(seed)
    base = {n: observe(C) for n, C in classes}
    evaluations = distinct = 0
    violations = []
    samples = []
    seen = set()

    def raw_state():
        import linear_operator.settings as LS
        out = {}
        for C in [c for _, c in classes] + [LS._fast_covar_root_decomposition, LS._fast_log_prob, LS._fast_solves]:
            for klass in C.__mro__[:-1]:
                for f, v in list(vars(klass).items()):
                    if f.startswith("_") and not f.startswith("__") and not callable(v) and not isinstance(v, (classmethod, staticmethod)):
                        out[(klass, f)] = v
        return out

    raw0 = raw_state()

    def record(prog, raise_at, fails):
        nonlocal evaluations, distinct
        # a leak found by one program must not pollute the next: put the raw class attributes back
        for (klass, f), v in raw0.items():
            if vars(klass).get(f, None) is not v:
                setattr(klass, f, v)
        for (klass, f) in set(raw_state()) - set(raw0):
            delattr(klass, f)
        evaluations += 1
        key = repr((prog, raise_at))
        if key not in seen:
            seen.add(key)
            distinct += 1
        if len(samples) < 2:
            samples.append({"program": repr(prog)[:300], "raise_at": raise_at, "failures": len(fails)})
        for f in fails:
            k = f"nesting/{f['setting']}/{f['where'].split(' ')[0]}"
            if not any(v["key"] == k for v in violations):
                violations.append({"key": k, "input": {"program": repr(prog), "raise_at": raise_at}, "detail": f,
                                   "entry": None})

    # exhaustive depth-2 over ordered pairs (first argument choice of each), with and without a raise inside
    names = [n for n, _ in classes]
    cm = dict(classes)
    for a, b in itertools.product(names, names):
        for ra in (None, 2):
            prog = [(a, arg_choices(a, cm[a])[0], [(b, arg_choices(b, cm[b])[-1], [])])]
            record(prog, ra, run_program(prog, classes, ra))
    # every class alone with every argument choice, exception at the boundary
    for n in names:
        for args in arg_choices(n, cm[n]):
            for ra in (None, 1):
                prog = [(n, args, [])]
                record(prog, ra, run_program(prog, classes, ra))
    # seeded random programs, depth <= 3, length <= 4
    nrand = 300 if tier == "quick" else 5000

    def gen(depth, budget):
        items = []
        while budget[0] > 0 and rng.random() < (0.9 if not items else 0.4):
            budget[0] -= 1
            n = rng.choice(names)
            kids = gen(depth + 1, budget) if depth < 3 else []
            items.append((n, rng.choice(arg_choices(n, cm[n])), kids))
        return items

    for _ in range(nrand):
        prog = gen(1, [4])
        if not prog:
            continue
        ra = rng.choice([None, 1, 2, 3])
        record(prog, ra, run_program(prog, classes, ra))
    final = {n: observe(C) for n, C in classes}
    if final != base:
        violations.append({"key": "nesting/final_state", "input": {}, "detail": "settings differ after all programs", "entry": None})
    return {
        "name": "C20 nested with-programs on the real modules", "bound": f"all ordered class pairs at depth 2 (+raise), every class x argument choice (+raise), {nrand} seeded random programs of depth<=3 length<=4",
        "evaluations": evaluations, "distinct_nontrivial": distinct,
        "rule": "a case is one program (nested blocks with arguments, optional raise position); distinct by its text; all are non-trivial (>=1 block, observers compared at every boundary)",
        "samples": samples, "violations": violations, "wall_s": round(time.time() - t0, 2),
    }
