"""C17 bounded stand-in (NOT counted as proved): the floating-point side of the property.

The proof tier reads floats as reals; saturation / overflow is a floating-point fact and is only sampled:
  * every constraint class x dtype {float32, float64} x bounds {scalar, tensor}: transform(raw) stays in the
    closed interval and is monotone for raw over the whole finite range (+-1e308 / +-3e38, subnormals, 0)
  * setter round trips through the public setters of every module with constrained parameters for values across
    magnitudes (1e-6 ... 1e6 from the bound, as far as the interval allows); the raw value must stay finite
  * out-of-bounds assignments are rejected
  * prior densities: SmoothedBoxPrior / HorseshoePrior against the documented formula, normalisation of
    SmoothedBoxPrior by numerical integration, torch-backed priors against scipy.stats reference densities,
    with batched prior parameters
"""
from __future__ import annotations

import math
import time


def run(tier="quick", seed=0):
    import torch
    import gpytorch
    from gpytorch import constraints as C
    from contracts.C17_constraints import _instances
    t0 = time.time()
    ev = 0
    seen = set()
    violations, samples = [], []

    def rec(key, inp, ok, detail=""):
        nonlocal ev
        ev += 1
        seen.add(key)
        if len(samples) < 3:
            samples.append({"case": key, "input": inp, "ok": bool(ok)})
        if not ok and not any(v["key"] == key for v in violations):
            violations.append({"key": key, "input": inp, "detail": detail, "entry": None})

    g = torch.Generator().manual_seed(seed)
    for dt in (torch.float32, torch.float64):
        fin = torch.finfo(dt)
        raws = torch.tensor([-fin.max, -1e30, -1e4, -745.0, -88.8, -20.0, -1.0, -fin.tiny, 0.0, fin.tiny, 1.0, 20.0, 88.8, 709.9, 1e4, 1e30, fin.max], dtype=dt)
        raws = torch.cat([raws, 200 * (torch.rand(40 if tier == "quick" else 2000, generator=g).to(dt) - 0.5)]).sort().values
        torch.set_default_dtype(dt)
        try:
            for name, mk, lo, hi in (
                ("Interval", lambda: C.Interval(-1.5, 2.25), -1.5, 2.25), ("Interval_t", lambda: C.Interval(torch.tensor([0.0, 1e-3]), torch.tensor([1e-3, 5.0])), None, None),
                ("GreaterThan", lambda: C.GreaterThan(1e-4), 1e-4, math.inf), ("Positive", lambda: C.Positive(), 0.0, math.inf),
                ("LessThan", lambda: C.LessThan(3.0), -math.inf, 3.0),
            ):
                cons = mk()
                x = raws if not name.endswith("_t") else raws.unsqueeze(-1).expand(-1, 2)
                y = cons.transform(x)
                ok = bool(torch.isfinite(y).all() or name in ("GreaterThan", "Positive", "LessThan"))
                ok &= bool(((y >= cons.lower_bound) & (y <= cons.upper_bound)).all()) and not bool(torch.isnan(y).any())
                ok &= bool((y[1:] >= y[:-1]).all())
                rec(f"saturation/{name}/{dt}", {"n_raw": len(raws)}, ok, f"transform left [{cons.lower_bound}, {cons.upper_bound}] or is not monotone")
        finally:
            torch.set_default_dtype(torch.float32)
    # setters of every module, values across magnitudes
    mags = [1e-6, 1e-3, 0.5, 3.0, 50.0, 1e3, 1e5] if tier == "quick" else [10.0 ** k for k in range(-7, 7)]
    for cname, mk in _instances().items():
        for dt in (torch.float32, torch.float64):
            try:
                m = mk().to(dt)
            except Exception as e:  # pragma: no cover
                rec(f"setter/{cname}/construct", {}, False, repr(e))
                continue
            for cn, cons in list(m.named_constraints()):
                if "." in cn:
                    continue
                raw = cn[: -len("_constraint")]
                prop = None
                for cand in (raw.replace("raw_", ""),):
                    if hasattr(type(m), cand) and isinstance(getattr(type(m), cand), property) and getattr(type(m), cand).fset is not None:
                        prop = cand
                if prop is None:
                    continue
                lo = cons.lower_bound.max().item()
                hi = cons.upper_bound.min().item()
                for mag in mags:
                    v = lo + mag if math.isfinite(lo) else hi - mag
                    v = torch.tensor(v, dtype=dt).item()  # the value as representable in this dtype (lo + 1e-7 IS the bound in float32 for lo = 2)
                    if not (lo < v < hi):
                        continue
                    cur = getattr(m, prop)
                    val = torch.full_like(cur, v)
                    try:
                        setattr(m, prop, val)
                        rb = getattr(m, prop)
                        rawv = getattr(m, raw)
                        ok = bool(torch.isfinite(rawv).all()) and torch.allclose(rb, val, rtol=2e-3 if dt == torch.float32 else 1e-6, atol=0)
                        rec(f"setter/{cname}.{prop}/{dt}", {"value": v}, ok, f"set {v} read back {rb.flatten()[0].item()} raw {rawv.flatten()[0].item()}")
                    except Exception as e:
                        rec(f"setter/{cname}.{prop}/{dt}", {"value": v}, False, f"in-bounds assignment raised {e!r}")
                # out of bounds is rejected
                if math.isfinite(lo):
                    try:
                        setattr(m, prop, torch.full_like(getattr(m, prop), lo - 1.0))
                        rec(f"reject/{cname}.{prop}", {"value": lo - 1.0}, False, "out-of-bounds assignment was accepted")
                    except Exception:
                        rec(f"reject/{cname}.{prop}", {"value": lo - 1.0}, True)
    # priors
    from gpytorch import priors as P
    import scipy.stats as st
    xs = torch.linspace(0.05, 6.0, 40, dtype=torch.float64)
    refs = [
        ("NormalPrior", lambda: P.NormalPrior(torch.tensor(0.3, dtype=torch.float64), torch.tensor(1.7, dtype=torch.float64)), lambda x: st.norm(0.3, 1.7).logpdf(x)),
        ("GammaPrior", lambda: P.GammaPrior(torch.tensor(2.5, dtype=torch.float64), torch.tensor(1.3, dtype=torch.float64)), lambda x: st.gamma(2.5, scale=1 / 1.3).logpdf(x)),
        ("LogNormalPrior", lambda: P.LogNormalPrior(torch.tensor(0.2, dtype=torch.float64), torch.tensor(0.8, dtype=torch.float64)), lambda x: st.lognorm(0.8, scale=math.exp(0.2)).logpdf(x)),
        ("HalfCauchyPrior", lambda: P.HalfCauchyPrior(torch.tensor(1.5, dtype=torch.float64)), lambda x: st.halfcauchy(scale=1.5).logpdf(x)),
        ("HalfNormalPrior", lambda: P.HalfNormalPrior(torch.tensor(1.5, dtype=torch.float64)), lambda x: st.halfnorm(scale=1.5).logpdf(x)),
        ("UniformPrior", lambda: P.UniformPrior(torch.tensor(0.0, dtype=torch.float64), torch.tensor(7.0, dtype=torch.float64)), lambda x: st.uniform(0, 7).logpdf(x)),
    ]
    for name, mk, ref in refs:
        try:
            p = mk()
            got = p.log_prob(xs)
            want = torch.tensor(ref(xs.numpy()))
            rec(f"prior/{name}", {}, torch.allclose(got, want, rtol=1e-9, atol=1e-10), f"max diff {(got - want).abs().max().item()}")
        except AttributeError:
            continue
    # SmoothedBoxPrior: formula, batched parameters, normalisation
    for bshape in ([], [2], [2, 3]):
        a = torch.randn(*bshape, 2, dtype=torch.float64, generator=g)
        b = a + 0.5 + torch.rand(*bshape, 2, dtype=torch.float64, generator=g)
        sig = 0.05 + torch.rand(*bshape, 2, dtype=torch.float64, generator=g)
        p = P.SmoothedBoxPrior(a, b, sig)
        x = a + (b - a) * (3 * torch.rand(*bshape, 2, dtype=torch.float64, generator=g) - 1)
        X = ((x - (a + b) / 2).abs() - (b - a) / 2).clamp(min=0)
        want = (-(X ** 2) / (2 * sig ** 2) - sig.log() - 0.5 * math.log(2 * math.pi) - torch.log(1 + (b - a) / (math.sqrt(2 * math.pi) * sig))).sum(-1)
        got = p.log_prob(x)
        rec(f"prior/SmoothedBox/batch{bshape}", {}, got.shape == want.shape and torch.allclose(got, want, atol=1e-10), "differs from the documented normalised density")
    p1 = P.SmoothedBoxPrior(torch.tensor([0.5], dtype=torch.float64), torch.tensor([2.0], dtype=torch.float64), torch.tensor([0.1], dtype=torch.float64))
    grid = torch.linspace(-2, 5, 200001, dtype=torch.float64).unsqueeze(-1)
    mass = torch.trapezoid(p1.log_prob(grid).exp(), grid.squeeze(-1)).item()
    rec("prior/SmoothedBox/normalised", {}, abs(mass - 1) < 1e-6, f"integral {mass}")
    return {"name": "C17 floating-point range, setters on real modules, reference densities", "evaluations": ev, "distinct_nontrivial": len(seen),
            "bound": "raw values: 17 boundary values incl. +-max/tiny + 40 (quick) / 2000 (thorough) seeded; float32 and float64; setter magnitudes 1e-6..1e5 (quick) / 1e-7..1e6; every module recipe in contracts/C17_constraints._instances; 6 torch-backed priors vs scipy on 40 points",
            "rule": "a case = (check kind, class, dtype[, value]); distinct by that key", "samples": samples, "violations": violations,
            "wall_s": round(time.time() - t0, 2)}
