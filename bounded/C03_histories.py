"""C03 bounded stand-in (NOT counted as proved): evaluation-mode outputs are history independent, real models, float64.

A history (finite sequence of public state-changing operations) is applied to one freshly built model object; then the NEXT
evaluation-mode prediction (mean and dense covariance, under torch.no_grad) is taken under an observation setting
(A = default settings on 3 test points, B = settings.fast_pred_var(True) on 4 other test points) and compared with

  vs_fresh : a freshly constructed model of the same class, built on the CURRENT training data, that received the history
             model's state_dict() through load_state_dict (the literal statement of the property), and
  vs_dense : an INDEPENDENT dense float64 oracle written here (torch.linalg on dense matrices).  gpytorch is used by the oracle
             only to evaluate kernel(x1, x2).to_dense(), mean(x) and likelihood.noise on a third, fresh instance that
             received the PARAMETERS only (no buffers); the posterior algebra (Cholesky solves) is done here.

Enumeration (per family; "both" = every history is run twice, once per observation setting; "alt" = one observation per
history, A / B alternating with the parity of the sum of the operation indices; the exact plan is echoed in result["bound"]):
  quick     exact_default, exact_sgpr, var_whitened: ALL histories of length 0..2 over the extended alphabet (both) and ALL
            histories of length 3 over the core alphabet (alt); exact_ski_fixed, var_unwhitened: length 0..2 extended (both);
            exact_ski_dynamic, exact_ski_dynamic_range: length 0..2 core (both).  (An interpolation-kernel history costs ~30 ms,
            a default-kernel one ~10 ms: length 3 for all seven families does not fit into 90 s.)
  thorough  exact_default: length 0..3 extended (both), length 4 core (alt), 200 sampled of length 5; exact_sgpr, var_whitened:
            length 0..3 extended (both) + 200 sampled of length 4; exact_ski_fixed, exact_ski_dynamic, var_unwhitened: length 0..2
            extended (both), length 3 core (both) + 200 sampled of length 4; exact_ski_dynamic_range: length 0..2 core (both),
            length 3 core (alt).

Operations.  Core alphabet (9 for exact GPs, 8 for variational GPs: no std)
  pA    eval-mode prediction, default settings, test set A (3 points)
  pB    eval-mode prediction, settings.fast_pred_var(True), test set B (4 points)
  mode  train()/eval() switch (toggles the mode of the model and its likelihood)
  step  one optimiser step (SGD, lr 0.05, zero_grad first) on -MLL / -ELBO taken in training mode (calls .train() first when
        the model is in eval mode; the model is left in training mode, so step>step are two consecutive iterations of a
        training loop).  The objective value of the step is compared with the one a fresh model holding the same state
        computes in training mode (key step_loss/vs_fresh; gpytorch against gpytorch, no dense oracle)
  std   set_train_data(inputs, targets, strict=False) toggling between two data sets of the same shapes   [exact GPs only]
  lsd   load_state_dict of a state dict with other values (toggles between the 'other' and the initial state dict)
  fant  get_fantasy_model(2 new points) in eval mode; the documented "call the model first" RuntimeError is the expected
        answer when no prediction strategy exists.  The fantasy model itself is also predicted with (setting A) and compared
        with the dense oracle on the augmented data (exact GPs) / with the fantasy model of a fresh model (variational GPs)
  prior eval-mode call under settings.prior_mode(True) (variational: model(x, prior=True)); its output is compared with the
        dense prior  N(mean(x), kernel(x, x)) (the test block of one joint kernel evaluation on [train; test])
  bwd   eval-mode prediction with grad under settings.detach_test_caches(False) and fast_pred_var(True) (so that both the
        mean cache and the covariance cache carry a graph) followed by (mean.sum() + variance.sum()).backward()
Extended alphabet = core + argument variants
  stdX  set_train_data(inputs=..., strict=False) only;  stdY  set_train_data(targets=..., strict=False) only   [exact GPs only]
  bwdA  like bwd with fast_pred_var(False)
All of pA, pB, fant, prior, bwd, bwdA are evaluation-mode calls: they call .eval() first (a no-op when already in eval mode).
Direct parameter edits in eval mode are excluded by the property and never made.

Families (1-d inputs, n = 6 training points, m = 4 inducing points, batch shape ())
  exact_default        ConstantMean + ScaleKernel(RBF), GaussianLikelihood
  exact_ski_fixed      ScaleKernel(GridInterpolationKernel(RBF, grid_size 16, grid_bounds (-0.6, 1.6)))
  exact_ski_dynamic    ScaleKernel(GridInterpolationKernel(RBF, grid_size 16, num_dims 1)) (data-determined grid); both training
                       sets have the same range [0, 1] and every test / fantasy point lies inside it, so "the" grid is
                       unambiguous: the one determined by the training inputs
  exact_ski_dynamic_range  the same kernel, but test set B and the second training set reach outside [0, 1].  "The bounds of
                       the grid will automatically be determined by data" is read as: by the inputs the prediction is about -
                       the dense oracle makes ONE joint kernel evaluation on [train; test] with a fresh kernel (one grid for
                       all blocks); vs_fresh needs no reading at all
  exact_sgpr           InducingPointKernel(ScaleKernel(RBF), 4 inducing points); get_fantasy_model is documented as unsupported
                       (NotImplementedError, checked once) and is not in the alphabet
  var_whitened         VariationalStrategy + CholeskyVariationalDistribution, learned inducing locations, Gaussian likelihood
  var_unwhitened       UnwhitenedVariationalStrategy + CholeskyVariationalDistribution

Oracle formulas.  exact GP:  mean* + K*x (Kxx + s2 I)^-1 (y - mean),  K** - K*x (Kxx + s2 I)^-1 Kx*  with K the model's own
(possibly interpolated) kernel evaluated jointly on [train; test].  SGPR: Q = Kxz Kzz^-1 Kzx from the base kernel; training
covariance Q + diag(k - q) (documented settings.sgpr_diagonal_correction, default on) + s2 I, cross covariance Q*x, test
covariance the exact base kernel (standard SGPR / FITC predictive).  Variational (whitened): L = chol(Kzz + j I),
A = L^-1 Kzx, mean = mu_x + A^T m, cov = Kxx + j I + A^T (S - I) A;  (unwhitened): B = (Kzz + j I)^-1 Kzx,
mean = mu_x + B^T (m - mu_z), cov = Kxx - Kxz B + B^T S B, with j = strategy.jitter_val (the documented Cholesky jitter,
1e-6 for float64 at the pinned version; it is part of the computation, so it is in the oracle and not in the tolerance).

Tolerance: |got - want| <= 1e-6 * (1 + |want|) everywhere (vs_fresh and vs_dense); no looser tolerance is used.
An exception raised inside gpytorch by an operation of the history or by the observation is a violation (key
<family>/op_raised/<history before the operation>/<operation>); an exception without a gpytorch frame (e.g. autograd's
"backward through the graph a second time") is a violation exactly when the same operation succeeds on a fresh model holding the
same parameters and data (history-dependent failure), otherwise it is re-raised as a harness problem.  The rest of such a
history is not run.
Keys: <family>/obs<A|B>/<history, '>'-separated, '-' = empty>/<vs_fresh|vs_dense>/<mean|covar>;
      <family>/<prior_call/vs_dense | fantasy_model/vs_dense | fantasy_model/vs_fresh>/<history ending in that operation>/<mean|covar>;
      <family>/step_loss/vs_fresh/<history ending in step>.
Not covered: batch shapes other than (), multi-dimensional inputs, fast_pred_samples, skip_posterior_variances,
observation_nan_policy (C16), multitask models, the numerical value of the variational fantasy model (OVC approximation with
undocumented jitters - only compared with the fantasy model of a fresh model), load_state_dict(strict=False) of partial state
dicts, CUDA.
"""
from __future__ import annotations

import hashlib
import itertools
import random
import time
import warnings


def run(tier="quick", seed=0, only=None, max_len=None, verbose=False):
    import torch
    import gpytorch
    from gpytorch.distributions import MultivariateNormal as MVN
    from engine.runner import classify_replay_exception
    warnings.filterwarnings("ignore")
    t0 = time.time()
    torch.manual_seed(seed)
    rng = random.Random(seed)
    D = torch.double
    S_ = gpytorch.settings
    ev, seen, violations, samples, skipped = 0, set(), [], [], []
    TOL = 1e-6

    def rec(key, ok, detail="", inp=None):
        nonlocal ev
        ev += 1
        seen.add(key)
        if len(samples) < 3:
            samples.append({"case": key, "ok": bool(ok), "detail": str(detail)[:160]})
        if not ok and not any(v["key"] == key for v in violations):
            violations.append({"key": key, "input": inp or {"case": key}, "detail": str(detail), "entry": None})
            if verbose:
                print("VIOLATION", key, "::", str(detail)[:300], flush=True)

    def close(a, b):
        return a.shape == b.shape and bool(torch.isfinite(a).all()) and bool(((a - b).abs() <= TOL * (1 + b.abs())).all())

    def cmp_detail(a, b):
        if a.shape != b.shape:
            return f"shape {tuple(a.shape)} vs {tuple(b.shape)}"
        d = (a - b).abs()
        i = int(d.argmax()) if d.numel() else 0
        return f"max abs diff {d.max().item():.3e} (got {a.reshape(-1)[i].item():.8f}, want {b.reshape(-1)[i].item():.8f})"

    # ------------------------------------------------------------------ data
    n = 6
    X1 = torch.linspace(0, 1, n, dtype=D).unsqueeze(-1)
    y1 = torch.sin(4 * X1).squeeze(-1) + 0.05 * torch.tensor([0.3, -1.1, 0.7, 0.2, -0.5, 0.9], dtype=D)
    X2 = torch.tensor([[0.0], [0.13], [0.37], [0.52], [0.81], [1.0]], dtype=D)
    y2 = torch.cos(3 * X2).squeeze(-1) - 0.2
    X2_wide = torch.tensor([[-0.3], [0.13], [0.37], [0.52], [0.81], [1.25]], dtype=D)
    XA = torch.tensor([[0.11], [0.47], [0.93]], dtype=D)
    XB = torch.tensor([[0.05], [0.33], [0.61], [0.77]], dtype=D)
    XB_wide = torch.tensor([[0.05], [0.33], [0.61], [1.4]], dtype=D)
    XF = torch.tensor([[0.25], [0.71]], dtype=D)
    yF = torch.tensor([0.4, -0.6], dtype=D)
    Z0 = torch.tensor([[0.1], [0.35], [0.65], [0.9]], dtype=D)

    # ------------------------------------------------------------------ models
    class Exact(gpytorch.models.ExactGP):
        def __init__(self, x, y, kind):
            lik = gpytorch.likelihoods.GaussianLikelihood()
            super().__init__(x, y, lik)
            self.mean_module = gpytorch.means.ConstantMean()
            rbf = gpytorch.kernels.RBFKernel()
            if kind == "default":
                self.covar_module = gpytorch.kernels.ScaleKernel(rbf)
            elif kind == "ski_fixed":
                self.covar_module = gpytorch.kernels.ScaleKernel(
                    gpytorch.kernels.GridInterpolationKernel(rbf, grid_size=16, grid_bounds=[(-0.6, 1.6)]))
            elif kind == "ski_dynamic":
                self.covar_module = gpytorch.kernels.ScaleKernel(
                    gpytorch.kernels.GridInterpolationKernel(rbf, grid_size=16, num_dims=1))
            elif kind == "sgpr":
                self.covar_module = gpytorch.kernels.InducingPointKernel(
                    gpytorch.kernels.ScaleKernel(rbf), inducing_points=Z0.clone(), likelihood=lik)
            self.kind = kind

        def forward(self, x):
            return MVN(self.mean_module(x), self.covar_module(x))

    class SVGP(gpytorch.models.ApproximateGP):
        def __init__(self, whitened):
            vd = gpytorch.variational.CholeskyVariationalDistribution(Z0.size(-2))
            cls = gpytorch.variational.VariationalStrategy if whitened else gpytorch.variational.UnwhitenedVariationalStrategy
            vs = cls(self, Z0.clone(), vd, learn_inducing_locations=True)
            super().__init__(vs)
            self.mean_module = gpytorch.means.ConstantMean()
            self.covar_module = gpytorch.kernels.ScaleKernel(gpytorch.kernels.RBFKernel())
            self.likelihood = gpytorch.likelihoods.GaussianLikelihood()
            self.whitened = whitened

        def forward(self, x):
            return MVN(self.mean_module(x), self.covar_module(x))

    PARAMS = [dict(ls=0.30, os=1.2, c=0.3, noise=0.05), dict(ls=0.45, os=0.8, c=-0.2, noise=0.11)]
    QM = [torch.tensor([0.5, -0.3, 0.8, 0.1], dtype=D), torch.tensor([-0.4, 0.6, 0.2, -0.7], dtype=D)]
    QL = [torch.tensor([[0.7, 0, 0, 0], [0.1, 0.6, 0, 0], [-0.2, 0.05, 0.8, 0], [0.0, 0.1, -0.1, 0.5]], dtype=D),
          torch.tensor([[0.4, 0, 0, 0], [-0.1, 0.9, 0, 0], [0.2, 0.1, 0.5, 0], [0.1, 0.0, 0.2, 0.7]], dtype=D)]

    def rbf_of(m):
        k = m.covar_module
        if isinstance(k, gpytorch.kernels.InducingPointKernel):
            return k.base_kernel.base_kernel, k.base_kernel
        b = k.base_kernel
        if isinstance(b, gpytorch.kernels.GridInterpolationKernel):
            b = b.base_kernel
        return b, k

    def set_params(m, pi):
        p = PARAMS[pi]
        rbf, scale = rbf_of(m)
        rbf.lengthscale = p["ls"]
        scale.outputscale = p["os"]
        m.mean_module.constant.data.fill_(p["c"])
        m.likelihood.noise = p["noise"]
        if isinstance(m, SVGP):
            vd = m.variational_strategy._variational_distribution
            vd.variational_mean.data.copy_(QM[pi])
            vd.chol_variational_covar.data.copy_(QL[pi])
            m.variational_strategy.variational_params_initialized.fill_(1)
            if pi == 1:
                m.variational_strategy.inducing_points.data.add_(0.03)
        elif m.kind == "sgpr" and pi == 1:
            m.covar_module.inducing_points.data.add_(0.03)
        return m

    class Fam:
        def __init__(self, name, kind, sub, data, XA, XB, core, ext):
            self.name, self.kind, self.sub, self.data, self.XA, self.XB = name, kind, sub, data, XA, XB
            self.core, self.ext = core, ext
            self.sds = None
            self.pnames = {k for k, _ in self.new(0).named_parameters()}

        def xy(self, di):
            """di = (index of the current training inputs, index of the current training targets)"""
            if isinstance(di, int):
                di = (di, di)
            return self.data[di[0]][0], self.data[di[1]][1]

        def new(self, di, pi=0):
            X, y = self.xy(di)
            if self.kind == "exact":
                m = Exact(X, y, self.sub).double()
            else:
                m = SVGP(self.sub == "whitened").double()
            return set_params(m, pi)

        def state_dicts(self):
            if self.sds is None:
                out = []
                for pi in (0, 1):
                    m = self.new(0, pi)
                    if self.kind == "exact":  # initialise the data-determined grid on the training inputs like a trained model
                        m.train()
                        m(*m.train_inputs)
                    out.append({k: v.detach().clone() for k, v in m.state_dict().items()})
                self.sds = out
            return self.sds

    EX_CORE = ["pA", "pB", "mode", "step", "std", "lsd", "fant", "prior", "bwd"]
    EX_EXT = EX_CORE + ["stdX", "stdY", "bwdA"]
    VAR_CORE = ["pA", "pB", "mode", "step", "lsd", "fant", "prior", "bwd"]
    VAR_EXT = VAR_CORE + ["bwdA"]
    d_same, d_wide = [(X1, y1), (X2, y2)], [(X1, y1), (X2_wide, y2)]
    nofant = lambda ops: [o for o in ops if o != "fant"]  # noqa: E731
    fams = [
        Fam("exact_default", "exact", "default", d_same, XA, XB, EX_CORE, EX_EXT),
        Fam("exact_ski_fixed", "exact", "ski_fixed", d_same, XA, XB, EX_CORE, EX_EXT),
        Fam("exact_ski_dynamic", "exact", "ski_dynamic", d_same, XA, XB, EX_CORE, EX_EXT),
        Fam("exact_sgpr", "exact", "sgpr", d_same, XA, XB, nofant(EX_CORE), nofant(EX_EXT)),
        Fam("var_whitened", "var", "whitened", d_same, XA, XB, VAR_CORE, VAR_EXT),
        Fam("var_unwhitened", "var", "unwhitened", d_same, XA, XB, VAR_CORE, VAR_EXT),
        Fam("exact_ski_dynamic_range", "exact", "ski_dynamic", d_wide, XA, XB_wide, EX_CORE, EX_EXT),
    ]
    if only is not None:
        fams = [f for f in fams if f.name in (only if isinstance(only, (list, tuple)) else [only])]

    # ------------------------------------------------------------------ hashing of (state_dict, data)
    def sd_hash(sd, names=None):
        h = hashlib.sha1()
        for k in sorted(sd):
            if names is not None and k not in names:
                continue
            h.update(k.encode())
            h.update(sd[k].detach().contiguous().numpy().tobytes())
        return h.hexdigest()

    # ------------------------------------------------------------------ dense oracle
    def chol_solve(Kmat, rhs):
        return torch.cholesky_solve(rhs, torch.linalg.cholesky(Kmat))

    def kernel_model(fam, sd, di):
        """a fresh instance holding the PARAMETERS of sd only (no buffers: no grid, no flags); used for kernel / mean / noise values"""
        km = fam.new(di)
        km.load_state_dict({k: v for k, v in sd.items() if k in fam.pnames}, strict=False)
        km.eval()
        return km

    dense_cache = {}

    def dense_posterior(fam, sd, di, Xs, extra=None):
        """posterior mean / covariance at Xs of the exact GP with the parameters in sd and the data di (+ extra points)"""
        key = (fam.name, sd_hash(sd, fam.pnames), di, tuple(Xs.reshape(-1).tolist()), extra is not None)
        if key in dense_cache:
            return dense_cache[key]
        km = kernel_model(fam, sd, di)
        X, y = fam.xy(di)
        if extra is not None:
            X, y = torch.cat([X, extra[0]]), torch.cat([y, extra[1]])
        nt = X.size(0)
        with torch.no_grad():
            Xfull = torch.cat([X, Xs])
            mu = km.mean_module(Xfull)
            s2 = km.likelihood.noise.reshape(())
            if fam.sub == "sgpr":
                base, Zp = km.covar_module.base_kernel, km.covar_module.inducing_points
                Kzz, Kzx = base(Zp, Zp).to_dense(), base(Zp, Xfull).to_dense()
                Q = Kzx.T @ chol_solve(Kzz, Kzx)
                kd = base(X, X).to_dense().diagonal()
                Ktt = Q[:nt, :nt] + torch.diag((kd - Q[:nt, :nt].diagonal()).clamp_min(0))
                Kst = Q[nt:, :nt]
                Kss = base(Xs, Xs).to_dense()
            else:
                K = km.covar_module(Xfull).to_dense()
                Ktt, Kst, Kss = K[:nt, :nt], K[nt:, :nt], K[nt:, nt:]
            A = Ktt + s2 * torch.eye(nt, dtype=D)
            mean = mu[nt:] + Kst @ chol_solve(A, (y - mu[:nt]).unsqueeze(-1)).squeeze(-1)
            cov = Kss - Kst @ chol_solve(A, Kst.T)
        dense_cache[key] = (mean, cov)
        return mean, cov

    def dense_prior(fam, sd, di, Xs):
        key = (fam.name, "prior", sd_hash(sd, fam.pnames), di)
        if key not in dense_cache:
            km = kernel_model(fam, sd, di)
            X = fam.xy(di)[0]
            with torch.no_grad():  # one joint kernel evaluation on [train; test] like dense_posterior (one grid for a data-determined grid)
                K = km.covar_module(torch.cat([X, Xs])).to_dense()
                dense_cache[key] = (km.mean_module(Xs), K[X.size(0):, X.size(0):])
        return dense_cache[key]

    def dense_variational(fam, sd, Xs):
        key = (fam.name, sd_hash(sd, fam.pnames), tuple(Xs.reshape(-1).tolist()))
        if key in dense_cache:
            return dense_cache[key]
        km = kernel_model(fam, sd, 0)
        Zp = sd["variational_strategy.inducing_points"].detach()
        m = sd["variational_strategy._variational_distribution.variational_mean"].detach()
        Lq = torch.tril(sd["variational_strategy._variational_distribution.chol_variational_covar"].detach())
        Sq = Lq @ Lq.T
        nz = Zp.size(0)
        j = float(km.variational_strategy.jitter_val)
        with torch.no_grad():
            Xfull = torch.cat([Zp, Xs])
            K = km.covar_module(Xfull).to_dense()
            mu = km.mean_module(Xfull)
            Kzz, Kzx, Kxx = K[:nz, :nz] + j * torch.eye(nz, dtype=D), K[:nz, nz:], K[nz:, nz:]
            if fam.sub == "whitened":
                A = torch.linalg.solve_triangular(torch.linalg.cholesky(Kzz), Kzx, upper=False)
                mean = mu[nz:] + A.T @ m
                cov = Kxx + j * torch.eye(Xs.size(0), dtype=D) + A.T @ (Sq - torch.eye(nz, dtype=D)) @ A
            else:
                B = chol_solve(Kzz, Kzx)
                mean = mu[nz:] + B.T @ (m - mu[:nz])
                cov = Kxx - Kzx.T @ B + B.T @ Sq @ B
        dense_cache[key] = (mean, cov)
        return mean, cov

    # ------------------------------------------------------------------ operations
    def predict(m, fam, which):
        m.eval()
        X = fam.XA if which == "A" else fam.XB
        with torch.no_grad(), S_.fast_pred_var(which == "B"):
            out = m(X)
            return out.mean.clone(), out.covariance_matrix.clone()

    class St:
        pass

    def new_state(fam):
        st = St()
        st.fam, st.di, st.si = fam, (0, 0), 0
        st.M = fam.new(0)
        st.opt = torch.optim.SGD(st.M.parameters(), lr=0.05)
        return st

    def fresh_like(st):
        """freshly constructed model on the current data holding the history model's state_dict"""
        R = st.fam.new(st.di)
        R.load_state_dict(st.M.state_dict())
        return R

    FANT_MSG = "Fantasy observations can only be added after making predictions"
    done_checks = set()

    def apply(op, st, prefix_key, checks):
        """apply one operation to st.M; `checks` collects (key, ok, detail) for outputs produced by the operation itself
        (computed once per distinct history prefix)"""
        fam, M = st.fam, st.M
        if op == "pA":
            predict(M, fam, "A")
        elif op == "pB":
            predict(M, fam, "B")
        elif op == "mode":
            M.train(not M.training)
        elif op == "step":
            if not M.training:  # like a training loop: train() once, then consecutive steps without a mode call in between
                M.train()
            st.opt.zero_grad()
            X, y = fam.xy(st.di)
            if fam.kind == "exact":
                mll = gpytorch.mlls.ExactMarginalLogLikelihood(M.likelihood, M)
            else:
                mll = gpytorch.mlls.VariationalELBO(M.likelihood, M, num_data=X.size(0))
            loss = -mll(M(X), y)
            k_loss = f"{fam.name}/step_loss/vs_fresh/{prefix_key}"
            if k_loss not in done_checks:  # the training-mode objective must not depend on the history either
                done_checks.add(k_loss)
                R = fresh_like(st)
                R.train()
                mll_r = type(mll)(R.likelihood, R) if fam.kind == "exact" else type(mll)(R.likelihood, R, num_data=X.size(0))
                with torch.no_grad():
                    want = -mll_r(R(X), y)
                checks.append((k_loss, close(loss.detach(), want), cmp_detail(loss.detach(), want)))
            loss.backward()
            st.opt.step()
        elif op in ("std", "stdX", "stdY"):
            st.di = (st.di[0] ^ (op != "stdY"), st.di[1] ^ (op != "stdX"))
            X, y = fam.xy(st.di)
            if op == "std":
                M.set_train_data(X, y, strict=False)
            elif op == "stdX":
                M.set_train_data(inputs=X, strict=False)
            else:
                M.set_train_data(targets=y, strict=False)
        elif op == "lsd":
            st.si ^= 1
            M.load_state_dict(fam.state_dicts()[st.si])
        elif op == "fant":
            M.eval()
            try:
                fm = M.get_fantasy_model(XF, yF)
            except RuntimeError as e:
                if fam.kind == "exact" and FANT_MSG in str(e) and M.prediction_strategy is None:
                    return  # the documented answer when no prediction has been made since the last invalidation
                raise
            tag = "fantasy_model/vs_dense" if fam.kind == "exact" else "fantasy_model/vs_fresh"
            k_mean, k_cov = f"{fam.name}/{tag}/{prefix_key}/mean", f"{fam.name}/{tag}/{prefix_key}/covar"
            if k_mean in done_checks:
                return
            done_checks.add(k_mean)
            fm.eval()
            with torch.no_grad():
                out = fm(fam.XA)
                got = (out.mean.clone(), out.covariance_matrix.clone())
            if fam.kind == "exact":
                want = dense_posterior(fam, M.state_dict(), st.di, fam.XA, extra=(XF, yF))
            else:
                R = fresh_like(st)
                R.eval()
                with torch.no_grad():
                    o2 = R.get_fantasy_model(XF, yF).eval()(fam.XA)
                    want = (o2.mean.clone(), o2.covariance_matrix.clone())
            checks.append((k_mean, close(got[0], want[0]), cmp_detail(got[0], want[0])))
            checks.append((k_cov, close(got[1], want[1]), cmp_detail(got[1], want[1])))
        elif op == "prior":
            M.eval()
            with torch.no_grad(), S_.prior_mode(True):
                out = M(fam.XA, prior=True) if fam.kind == "var" else M(fam.XA)
                got = (out.mean.clone(), out.covariance_matrix.clone())
            k_mean, k_cov = f"{fam.name}/prior_call/vs_dense/{prefix_key}/mean", f"{fam.name}/prior_call/vs_dense/{prefix_key}/covar"
            if k_mean in done_checks:
                return
            done_checks.add(k_mean)
            want = dense_prior(fam, M.state_dict(), st.di, fam.XA)
            checks.append((k_mean, close(got[0], want[0]), cmp_detail(got[0], want[0])))
            checks.append((k_cov, close(got[1], want[1]), cmp_detail(got[1], want[1])))
        elif op in ("bwd", "bwdA"):
            M.eval()
            with S_.detach_test_caches(False), S_.fast_pred_var(op == "bwd"):
                out = M(fam.XA)
                (out.mean.sum() + out.variance.sum()).backward()
        else:
            raise ValueError(op)

    # ------------------------------------------------------------------ reference for the observation
    fresh_cache = {}

    def fresh_prediction(st, which, sd):
        key = (st.fam.name, sd_hash(sd), st.di, which)
        if key not in fresh_cache:
            fresh_cache[key] = predict(fresh_like(st), st.fam, which)
        return fresh_cache[key]

    def describe(fam, seq, which):
        return {
            "family": fam.name, "history": list(seq), "observation": which,
            "observation_settings": {"A": "defaults, test set A", "B": "fast_pred_var(True), test set B"}.get(
                which, "n/a: the output / exception of the last operation of the history"),
            "train_sets": [[X.reshape(-1).tolist(), y.tolist()] for X, y in fam.data],
            "test_A": fam.XA.reshape(-1).tolist(), "test_B": fam.XB.reshape(-1).tolist(),
            "fantasy_points": [XF.reshape(-1).tolist(), yF.tolist()], "inducing_points": Z0.reshape(-1).tolist(),
            "initial_parameters": PARAMS[0], "other_state_dict_parameters": PARAMS[1],
            "variational_mean": [q.tolist() for q in QM], "chol_variational_covar": [q.tolist() for q in QL],
            "optimizer": "SGD lr 0.05",
        }

    def handle_exception(e, key, replay_on_fresh, inp):
        """record as a violation, or re-raise harness problems"""
        r = classify_replay_exception(e)
        if r.get("violates"):
            rec(key, False, r["detail"][:700], inp)
            return
        try:
            replay_on_fresh()
        except Exception:  # noqa: BLE001  the operation fails on a fresh model too: not history dependent -> harness problem
            raise e
        rec(key, False, f"history-dependent failure: {type(e).__name__}: {str(e)[:160]} ... (the same call succeeds on a freshly "
            "constructed model holding the same parameters and data)", inp)

    def run_history(fam, seq, which):
        tag = ">".join(seq) if seq else "-"
        st = new_state(fam)
        for i, op in enumerate(seq):
            checks = []
            try:
                apply(op, st, ">".join(seq[: i + 1]), checks)
            except Exception as e:  # noqa: BLE001
                key = f"{fam.name}/op_raised/{'>'.join(seq[:i]) or '-'}/{op}"
                if key in seen:
                    return

                def on_fresh(op=op, st=st):
                    st2 = St()
                    st2.fam, st2.di, st2.si, st2.M = st.fam, st.di, st.si, fresh_like(st)
                    st2.opt = torch.optim.SGD(st2.M.parameters(), lr=0.05)
                    if op == "fant" and fam.kind == "exact":
                        predict(st2.M, fam, "A")
                    apply(op, st2, "-", [])
                handle_exception(e, key, on_fresh, describe(fam, seq[: i + 1], None))
                return
            for key, ok, detail in checks:
                rec(key, ok, detail, None if ok else describe(fam, seq[: i + 1], None))
        try:
            got = predict(st.M, fam, which)
        except Exception as e:  # noqa: BLE001
            handle_exception(e, f"{fam.name}/obs{which}/{tag}/raised", lambda: predict(fresh_like(st), fam, which), describe(fam, seq, which))
            return
        sd = st.M.state_dict()
        want_f = fresh_prediction(st, which, sd)
        Xs = fam.XA if which == "A" else fam.XB
        want_d = dense_posterior(fam, sd, st.di, Xs) if fam.kind == "exact" else dense_variational(fam, sd, Xs)
        for nm, want in (("vs_fresh", want_f), ("vs_dense", want_d)):
            for q, (g, w) in (("mean", (got[0], want[0])), ("covar", (got[1], want[1]))):
                ok = close(g, w)
                rec(f"{fam.name}/obs{which}/{tag}/{nm}/{q}", ok, cmp_detail(g, w), None if ok else describe(fam, seq, which))

    # ------------------------------------------------------------------ enumeration
    # A block = (alphabet, lengths, observation mode).  'both': every history is run twice, once per observation setting;
    # 'alt': one observation setting per history, A / B alternating with the parity of the sum of the operation indices.
    # ext = core + argument variants (stdX / stdY: set_train_data with inputs only / targets only; bwdA: backward without fast_pred_var)
    def blocks(fam):
        nm = fam.name
        if max_len is not None:
            return [("ext", range(0, max_len + 1), "both")]
        if tier == "quick":
            if nm in ("exact_default", "exact_sgpr", "var_whitened"):
                return [("ext", range(0, 3), "both"), ("core", [3], "alt")]
            if nm in ("exact_ski_dynamic", "exact_ski_dynamic_range"):
                return [("core", range(0, 3), "both")]
            return [("ext", range(0, 3), "both")]
        if nm == "exact_default":
            return [("ext", range(0, 4), "both"), ("core", [4], "alt"), ("sample-ext", 5, 200)]
        if nm in ("exact_sgpr", "var_whitened"):
            return [("ext", range(0, 4), "both"), ("sample-ext", 4, 200)]
        if nm == "exact_ski_dynamic_range":
            return [("core", range(0, 3), "both"), ("core", [3], "alt")]
        return [("ext", range(0, 3), "both"), ("core", [3], "both"), ("sample-ext", 4, 200)]

    n_hist = 0
    bound_parts = []
    for fam in fams:
        if fam.sub == "sgpr":  # documented limitation: SGPR has no fantasy support
            m = fam.new(0)
            predict(m, fam, "A")
            try:
                m.get_fantasy_model(XF, yF)
                skipped.append("exact_sgpr: get_fantasy_model unexpectedly worked; it is not in the alphabet")
            except NotImplementedError:
                skipped.append("exact_sgpr/fant: get_fantasy_model raises the documented NotImplementedError (no fantasy support "
                               "for SGPR); the operation is not in this family's alphabet")
        plan, planned, desc = [], set(), []

        def add(seq, which):
            if (seq, which) not in planned:
                planned.add((seq, which))
                plan.append((seq, which))

        for blk in blocks(fam):
            if blk[0] == "sample-ext":
                _, length, count = blk
                for _ in range(count):
                    seq = tuple(rng.choice(fam.ext) for _ in range(length))
                    add(seq, "AB"[sum(fam.ext.index(o) for o in seq) % 2])
                desc.append(f"{count} sampled histories of length {length} over the extended alphabet (one observation each)")
                continue
            alph_name, lengths, mode = blk
            alph = fam.ext if alph_name == "ext" else fam.core
            for length in lengths:
                for seq in itertools.product(alph, repeat=length):
                    if mode == "both":
                        add(seq, "A")
                        add(seq, "B")
                    else:
                        add(seq, "AB"[sum(alph.index(o) for o in seq) % 2])
            desc.append(f"all histories of length {min(lengths)}..{max(lengths)} over the {'extended' if alph_name == 'ext' else 'core'} alphabet "
                        f"({len(alph)} operations), " + ("both observation settings" if mode == "both" else "one observation setting (A / B alternating)"))
        for seq, which in plan:
            run_history(fam, seq, which)
            n_hist += 1
        bound_parts.append(f"{fam.name}: " + " + ".join(desc))
        if verbose:
            print(fam.name, "done", round(time.time() - t0, 1), "s", ev, "evaluations", len(violations), "violations", flush=True)
    if tier == "quick" and max_len is None:
        skipped.append("quick tier (time budget): histories of length 3 only for exact_default, exact_sgpr, var_whitened; the interpolation "
                       "families and var_unwhitened go to length 2 (length 3 / 4 and sampled longer ones in the thorough tier)")

    return {"name": "C03 histories vs fresh model / dense oracle", "evaluations": ev, "distinct_nontrivial": len(seen),
            "bound": "; ".join(bound_parts)
                     + f". Core alphabet {EX_CORE} (variational: without std), extended = core + ['stdX', 'stdY', 'bwdA'] (variational: + ['bwdA']); "
                       "observation A = defaults on 3 test points, B = fast_pred_var on 4 test points; "
                       f"n = {n} training points, 4 inducing points, 2 fantasy points, 1-d inputs, batch shape (), float64; {n_hist} histories run",
            "rule": "a case = (family, observation setting, history, reference in {fresh model, dense oracle}, quantity in {mean, covar}) "
                    "plus per-operation outputs (prior call, fantasy model, raised exception) keyed by the history prefix; distinct by that key",
            "samples": samples, "violations": violations, "skipped": skipped, "wall_s": round(time.time() - t0, 2)}
