"""C05 bounded stand-in (NOT counted as proved): float64 oracle sweep of every CPU kernel exported by gpytorch.kernels.

Every comparison is  kernel(x1, x2) as computed by gpytorch   vs   the documented covariance function re-implemented here
from the class docstring / the cited definition with explicit pairwise differences (no gpytorch code is called by an
oracle).  Parameters are drawn in range and set through the public setters; the oracle uses the values that were *set*.

Modes per configuration: dense n1 x n2 matrix with n1 != n2, dense matrix with x1 == x2, diag=True (x1 == x2).
Batch configurations: kernel batch () with inputs (); kernel batch (2,) with inputs (2,); kernel batch () with inputs (2,).
Code paths: default; x1.requires_grad (generic autograd path of RBF / Matern, non-shortcut branch of sq_dist);
gpytorch.settings.trace_mode(True) (RBF / Matern generic path).

Derivative kernels are compared with torch.autograd derivatives of the scalar base kernel k(a, b), arranged in the
documented per-point interleaved layout  row = i * m + a  (a = 0: value, a = 1..d: d/dx_a, a = d+1..2d: d^2/dx_a^2).

Conventions / stated deviations from atol 1e-8 (tested as |got - want| <= atol * (1 + |want|)):
  * x1 == x2 dense matrix of kernels with a kink at distance 0 (Matern-1/2, PiecewisePolynomial q = 0, composites containing
    them): atol 1e-6, because the library takes sqrt of a quadratic-expansion squared distance whose rounding noise
    (~1e-15) becomes ~3e-8 at coincident points (not zeroed when the lengthscale requires grad); n1 x n2 stays at 1e-8.
  * x1 == x2 dense matrix of products that contain LinearKernel / PolynomialKernel factors: atol 1e-6, because ProductKernel
    multiplies root decompositions (linear_operator MulLinearOperator) and a rank-deficient factor receives the Cholesky
    jitter (1e-8 .. 1e-6) of psd_safe_cholesky on its diagonal; n1 x n2 and diag=True stay at 1e-8.
  * MaternKernel: the docstring's d is read as the lengthscale-scaled Euclidean *distance* (its own words); the oracle is
    the Bessel form 2^(1-nu)/Gamma(nu) (sqrt(2nu) d)^nu K_nu(sqrt(2nu) d) through scipy.special.kv (limit 1 at d = 0).
  * SpectralMixtureKernel: mixture_scales is the standard deviation of the spectral Gaussians (Wilson & Adams' v_q is its
    square); d = 1 against Wilson & Adams eq. 12, d > 1 against the product over dimensions of 1-d mixtures.
  * CylindricalKernel: the class perturbs the Kumaraswamy warping by eps (1 - (1 - r^a + eps)^b); default eps = 1e-6 is
    compared with the exact warping at atol 1e-4, an instance with eps = 1e-12 at atol 1e-8.
  * GaussianSymmetrizedKLKernel: the class adds 1e-8 to both variances; compared with the exact symmetrised KL at 1e-6.
  * DistributionalInputKernel / GaussianSymmetrizedKLKernel: docstring k = exp(-a d) with a the lengthscale, taken literally.
  * MultitaskKernel / LCMKernel: compared in the interleaved layout K[(i,t),(j,s)] = Kx[i,j] Kt[t,s] that
    MultitaskMultivariateNormal documents; the literal docstring order "K_TT kron K_XX" is a separate key.
  * RFFKernel: against the inner product of the documented sin / cos features built from the kernel's own random weights.
  * GridKernel: evaluated on its own full grid (ragged grid sizes), Toeplitz on and off; only product-structured base
    kernels (RBF; any kernel for d = 1) because for the others "the base kernel on the grid" and "Kronecker product of
    1-d kernels" differ and the documentation does not say which is meant.
  * GridInterpolationKernel: against W K_UU W^T with W built HERE from Keys' cubic convolution weights on the kernel's grid
    (read back from kernel.grid) and K_UU from the RBF formula on the Cartesian grid; data-determined (float64) grid at
    atol 1e-8, user-supplied grid_bounds (the class builds that grid in float32) at 1e-5.  (No "SKI is close to the exact
    kernel" check: the documentation gives no error bound to hold it to.)
  * InducingPointKernel: K_xz K_zz^{-1} K_zx (no jitter is added unless the Cholesky of K_zz fails, it does not here);
    in eval mode with x1 == x2 the documented sgpr_diagonal_correction replaces the diagonal by the exact one; atol 1e-7.
  * Matern52KernelGrad at coincident points (r = 0, where autograd through sqrt is undefined): the limits 1, 0 and
    (5/3) delta_pq / l_p^2 given by the docstring formulas.
Skipped: gpytorch.kernels.keops (needs KeOps), MultiDeviceKernel (needs CUDA devices), Kernel (abstract).
"""
from __future__ import annotations

import contextlib
import itertools
import math
import time
import warnings


def run(tier="quick", seed=0):
    import torch
    import gpytorch
    from gpytorch import kernels as GK

    t0 = time.time()
    torch.manual_seed(seed)
    gen = torch.Generator().manual_seed(seed)
    dt = torch.float64
    ev, seen, violations, samples = 0, set(), [], []

    def rec(key, ok, detail="", inp=None):
        nonlocal ev
        ev += 1
        seen.add(key)
        if len(samples) < 3:
            samples.append({"case": key, "ok": bool(ok), "detail": detail[:160]})
        if not ok and not any(v["key"] == key for v in violations):
            violations.append({"key": key, "input": inp if inp is not None else {"case": key}, "detail": detail, "entry": None})

    # ------------------------------------------------------------------ helpers (own code)
    def U(lo, hi, *shape):
        return lo + (hi - lo) * torch.rand(*shape, dtype=dt, generator=gen)

    def tl(t):
        return t.tolist() if torch.is_tensor(t) else t

    def diffs(x1, x2):  # (..., n1, n2, d)
        return x1.unsqueeze(-2) - x2.unsqueeze(-3)

    def sqd(x1, x2, ls):  # ls: (..., 1, D)
        return (diffs(x1, x2) / ls.unsqueeze(-2)).pow(2).sum(-1)

    def tail(t, k):  # append k singleton dims
        return t.reshape(*t.shape, *([1] * k))

    def gp(key, fn, inp):
        """run gpytorch code; an exception is a violation of `key`"""
        try:
            return fn()
        except Exception as e:  # noqa: BLE001 - by design: gpytorch raising on valid input is the finding
            rec(key, False, f"gpytorch raised {type(e).__name__}: {str(e)[:400]}", inp)
            return None

    def compare(key, call, want, inp, atol=1e-8):
        try:
            got = call()
            if not torch.is_tensor(got):
                got = got.to_dense()
        except Exception as e:  # noqa: BLE001
            rec(key, False, f"gpytorch raised {type(e).__name__}: {str(e)[:400]}", inp)
            return
        got = got.detach()
        if tuple(got.shape) != tuple(want.shape):
            rec(key, False, f"shape {tuple(got.shape)} != expected {tuple(want.shape)}", inp)
            return
        g64 = got.to(dt)
        diff = (g64 - want).abs() / (1 + want.abs())
        diff = torch.where(torch.isfinite(g64), diff, torch.full_like(diff, math.inf))
        if diff.numel() == 0:
            rec(key, True, "empty", inp)
            return
        flat = int(diff.reshape(-1).argmax())
        err = float(diff.reshape(-1)[flat])
        idx = []
        for s in reversed(diff.shape):
            idx.append(flat % s)
            flat //= s
        idx = tuple(reversed(idx))
        det = (f"max |got-want|/(1+|want|) = {err:.3e} (atol {atol:g}) at index {idx}: expected {float(want[idx]):.12g}, "
               f"got {float(g64[idx]):.12g}" + ("" if got.dtype == dt else f"; result dtype {got.dtype}"))
        rec(key, err <= atol, det, inp)

    def modes(prefix, kern, oracle, x1, x2, inp, atol=1e-8, paths=("default",), which=("full", "sym", "diag"), atol_sym=None):
        """kern: built gpytorch kernel (or None if construction already failed); oracle(x1, x2) -> dense tensor.
        atol_sym: stated looser tolerance for the x1 == x2 dense matrix only (see module docstring)."""
        if kern is None:
            return
        for path in paths:
            for mode in which:
                key = f"{prefix}/{path}/{mode}"
                if mode == "full":
                    want = oracle(x1, x2)
                elif mode == "sym":
                    want = oracle(x1, x1)
                else:
                    want = oracle(x1, x1).diagonal(dim1=-2, dim2=-1)

                def call(mode=mode, path=path):
                    a, b = x1.clone(), x2.clone()
                    if path == "x_requires_grad":
                        a.requires_grad_(True)
                    ctx = gpytorch.settings.trace_mode(True) if path == "trace_mode" else contextlib.nullcontext()
                    with ctx:
                        if mode == "full":
                            out = kern(a, b).to_dense()
                        elif mode == "sym":
                            out = kern(a).to_dense()
                        else:
                            out = kern(a, diag=True)
                            if not torch.is_tensor(out):
                                out = out.to_dense()
                    return out

                compare(key, call, want, dict(inp, x1=tl(x1), x2=tl(x2), mode=mode, path=path), atol_sym if (mode == "sym" and atol_sym) else atol)

    # ------------------------------------------------------------------ scalar formulas (documented definitions)
    try:
        from scipy.special import gamma as _gamma, kv as _kv
    except Exception:  # pragma: no cover
        _kv = None

    def matern_of_r(r, nu):
        if _kv is not None:
            z = math.sqrt(2 * nu) * r
            zz = z.clamp_min(1e-300).numpy()
            val = torch.from_numpy((2 ** (1 - nu) / _gamma(nu)) * zz ** nu * _kv(nu, zz))
            return torch.where(z > 0, val, torch.ones_like(val))
        if nu == 0.5:
            return torch.exp(-r)
        if nu == 1.5:
            return (1 + math.sqrt(3) * r) * torch.exp(-math.sqrt(3) * r)
        return (1 + math.sqrt(5) * r + 5.0 / 3.0 * r ** 2) * torch.exp(-math.sqrt(5) * r)

    def f_rbf(ls):
        return lambda x1, x2: torch.exp(-0.5 * sqd(x1, x2, ls))

    def f_matern(ls, nu):
        return lambda x1, x2: matern_of_r(sqd(x1, x2, ls).sqrt(), nu)

    def f_rq(ls, alpha):  # alpha (..., 1)
        return lambda x1, x2: (1 + sqd(x1, x2, ls) / (2 * tail(alpha, 1))).pow(-tail(alpha, 1))

    def f_periodic(ls, per):  # both (..., 1, D)
        return lambda x1, x2: torch.exp(-2 * (torch.sin(math.pi * diffs(x1, x2) / per.unsqueeze(-2)).pow(2) / ls.unsqueeze(-2)).sum(-1))

    def f_cosine(per):  # (..., 1, 1)
        return lambda x1, x2: torch.cos(math.pi * diffs(x1, x2).pow(2).sum(-1).sqrt() / per)

    def f_linear(var):  # (..., 1, D)
        return lambda x1, x2: (x1.unsqueeze(-2) * x2.unsqueeze(-3) * var.unsqueeze(-2)).sum(-1)

    def f_poly(offset, power):  # offset (..., 1)
        return lambda x1, x2: ((x1.unsqueeze(-2) * x2.unsqueeze(-3)).sum(-1) + tail(offset, 1)) ** power

    def f_const(c):  # (..., 1)
        def f(x1, x2):
            shape = torch.broadcast_shapes(x1.shape[:-2], x2.shape[:-2], c.shape[:-1]) + (x1.shape[-2], x2.shape[-2])
            return tail(c, 1).expand(shape).clone()
        return f

    def f_pp(ls, q):
        def f(x1, x2):
            D = x1.shape[-1]
            j = D // 2 + q + 1
            r = sqd(x1, x2, ls).sqrt()
            base = (1 - r).clamp_min(0)
            if q == 0:
                return base ** j
            if q == 1:
                return base ** (j + 1) * ((j + 1) * r + 1)
            if q == 2:
                return base ** (j + 2) * (1 + (j + 2) * r + (j ** 2 + 4 * j + 3) / 3.0 * r ** 2)
            return base ** (j + 3) * (1 + (j + 3) * r + (6 * j ** 2 + 36 * j + 45) / 15.0 * r ** 2 + (j ** 3 + 9 * j ** 2 + 23 * j + 15) / 15.0 * r ** 3)
        return f

    # ------------------------------------------------------------------ leaf factories: (ctor string, build, oracle, params)
    def B(b):
        return torch.Size(b)

    def leaf(kind, b, d, ard=False, active=None, **kw):
        D = d if ard else 1
        ad = {} if active is None else {"active_dims": tuple(active)}
        ardkw = {"ard_num_dims": d} if ard else {}
        sel = (lambda x: x) if active is None else (lambda x: x[..., list(active)])
        if kind == "rbf":
            ls = U(0.4, 1.6, *b, 1, D)
            def build():
                k = GK.RBFKernel(batch_shape=B(b), **ardkw, **ad).double(); k.lengthscale = ls; return k
            return f"RBFKernel({ardkw},{ad},batch={list(b)})", build, (lambda a, c: f_rbf(ls)(sel(a), sel(c))), {"lengthscale": tl(ls)}
        if kind == "matern":
            nu = kw["nu"]
            ls = U(0.4, 1.6, *b, 1, D)
            def build():
                k = GK.MaternKernel(nu=nu, batch_shape=B(b), **ardkw, **ad).double(); k.lengthscale = ls; return k
            return f"MaternKernel(nu={nu},{ardkw},{ad},batch={list(b)})", build, (lambda a, c: f_matern(ls, nu)(sel(a), sel(c))), {"lengthscale": tl(ls)}
        if kind == "rq":
            ls, al = U(0.4, 1.6, *b, 1, D), U(0.3, 3.0, *b, 1)
            def build():
                k = GK.RQKernel(batch_shape=B(b), **ardkw, **ad).double(); k.lengthscale = ls; k.alpha = al; return k
            return f"RQKernel({ardkw},{ad},batch={list(b)})", build, (lambda a, c: f_rq(ls, al)(sel(a), sel(c))), {"lengthscale": tl(ls), "alpha": tl(al)}
        if kind == "periodic":
            ls, per = U(0.5, 2.0, *b, 1, D), U(0.7, 2.5, *b, 1, D)
            def build():
                k = GK.PeriodicKernel(batch_shape=B(b), **ardkw, **ad).double(); k.lengthscale = ls; k.period_length = per; return k
            return f"PeriodicKernel({ardkw},{ad},batch={list(b)})", build, (lambda a, c: f_periodic(ls, per)(sel(a), sel(c))), {"lengthscale": tl(ls), "period_length": tl(per)}
        if kind == "cosine":
            per = U(0.7, 2.5, *b, 1, 1)
            def build():
                k = GK.CosineKernel(batch_shape=B(b), **ad).double(); k.period_length = per; return k
            return f"CosineKernel({ad},batch={list(b)})", build, (lambda a, c: f_cosine(per)(sel(a), sel(c))), {"period_length": tl(per)}
        if kind == "linear":
            var = U(0.3, 2.0, *b, 1, D)
            def build():
                k = GK.LinearKernel(batch_shape=B(b), **ardkw, **ad).double(); k.variance = var; return k
            return f"LinearKernel({ardkw},{ad},batch={list(b)})", build, (lambda a, c: f_linear(var)(sel(a), sel(c))), {"variance": tl(var)}
        if kind == "poly":
            p = kw["power"]
            off = U(0.2, 2.0, *b, 1)
            def build():
                k = GK.PolynomialKernel(power=p, batch_shape=B(b), **ad).double(); k.offset = off; return k
            return f"PolynomialKernel(power={p},{ad},batch={list(b)})", build, (lambda a, c: f_poly(off, p)(sel(a), sel(c))), {"offset": tl(off)}
        if kind == "const":
            cst = U(0.2, 2.0, *b, 1)
            def build():
                k = GK.ConstantKernel(batch_shape=B(b), **ad).double(); k.constant = cst; return k
            return f"ConstantKernel(batch={list(b)})", build, f_const(cst), {"constant": tl(cst)}
        if kind == "pp":
            q = kw["q"]
            ls = U(1.0, 2.5, *b, 1, D)
            def build():
                k = GK.PiecewisePolynomialKernel(q=q, batch_shape=B(b), **ardkw, **ad).double(); k.lengthscale = ls; return k
            return f"PiecewisePolynomialKernel(q={q},{ardkw},{ad},batch={list(b)})", build, (lambda a, c: f_pp(ls, q)(sel(a), sel(c))), {"lengthscale": tl(ls)}
        raise KeyError(kind)

    N_PAIRS = [(4, 5)] if tier == "quick" else [(4, 5), (2, 7), (1, 3)]
    DRAWS = 1 if tier == "quick" else 5
    DIMS = (1, 3)
    BATCHES = (((), ()), ((2,), (2,)), ((), (2,)))  # (kernel batch shape, input batch shape)

    def btag(kb, xb):
        return f"kb{list(kb)}xb{list(xb)}"

    def X(xb, n, d, lo=-1.2, hi=1.2):
        return U(lo, hi, *xb, n, d)

    def sweep(n1, n2, draw):
        first = draw == 0 and (n1, n2) == N_PAIRS[0]
        G = ("default", "x_requires_grad")

        # ================================================================== 1. basic kernels
        basic = [("RBFKernel", "rbf", {}, True, G + ("trace_mode",))]
        for nu in (0.5, 1.5, 2.5):
            basic.append((f"MaternKernel/nu{nu}", "matern", {"nu": nu}, True, G + ("trace_mode",)))
        basic += [("RQKernel", "rq", {}, True, G), ("PeriodicKernel", "periodic", {}, True, G), ("CosineKernel", "cosine", {}, False, G),
                  ("LinearKernel", "linear", {}, True, G), ("ConstantKernel", "const", {}, False, ("default",))]
        for p in (1, 2, 3, 4):
            basic.append((f"PolynomialKernel/power{p}", "poly", {"power": p}, False, G))
        for q in (0, 1, 2, 3):
            basic.append((f"PiecewisePolynomialKernel/q{q}", "pp", {"q": q}, True, G))
        for name, kind, kw, has_ard, paths in basic:
            for d in DIMS:
                for kb, xb in BATCHES:
                    for ard in ((False, True) if has_ard else (False,)):
                        ctor, build, oracle, params = leaf(kind, kb, d, ard=ard, **kw)
                        prefix = f"{name}/{'ard' if ard else 'iso'}/d{d}/{btag(kb, xb)}"
                        inp = {"kernel": ctor, "params": params}
                        kern = gp(prefix + "/construct", build, inp)
                        kink = name in ("MaternKernel/nu0.5", "PiecewisePolynomialKernel/q0")
                        modes(prefix, kern, oracle, X(xb, n1, d), X(xb, n2, d), inp, paths=paths, atol_sym=1e-6 if kink else None)

        # ================================================================== 2. ScaleKernel, sums, products, operators, nesting
        def scaled(b, inner_build, inner_oracle):
            os_ = U(0.2, 2.0, *b) if len(b) else U(0.2, 2.0, 1).squeeze(0)
            def build():
                k = GK.ScaleKernel(inner_build(), batch_shape=B(b)).double(); k.outputscale = os_; return k
            return build, (lambda a, c: tail(os_, 2) * inner_oracle(a, c)), {"outputscale": tl(os_)}

        triples = {"rbf_ard,matern1.5,periodic": (("rbf", {"ard": True}), ("matern", {"nu": 1.5}), ("periodic", {})),
                   "linear,rbf,poly2": (("linear", {}), ("rbf", {}), ("poly", {"power": 2})),
                   "rq,const,matern0.5": (("rq", {}), ("const", {}), ("matern", {"nu": 0.5}))}
        SYM_TOL = {"rbf_ard,matern1.5,periodic": None, "linear,rbf,poly2": 1e-6, "rq,const,matern0.5": 1e-6}  # x1 == x2 only, see docstring
        exprs = {
            "k1+k2": (lambda a, b, c: a + b, lambda A, Bm, C: A + Bm),
            "k1*k2": (lambda a, b, c: a * b, lambda A, Bm, C: A * Bm),
            "k3*(k1+k2)": (lambda a, b, c: c * (a + b), lambda A, Bm, C: C * (A + Bm)),
            "(k1+k2)*k3": (lambda a, b, c: (a + b) * c, lambda A, Bm, C: (A + Bm) * C),
            "k1*(k2*k3)": (lambda a, b, c: a * (b * c), lambda A, Bm, C: A * Bm * C),
            "(k1*k2)*k3": (lambda a, b, c: (a * b) * c, lambda A, Bm, C: A * Bm * C),
            "k1+(k2+k3)": (lambda a, b, c: a + (b + c), lambda A, Bm, C: A + Bm + C),
            "(k1+k2)+k3": (lambda a, b, c: (a + b) + c, lambda A, Bm, C: A + Bm + C),
            "k1+k2*k3": (lambda a, b, c: a + b * c, lambda A, Bm, C: A + Bm * C),
            "k1*k2+k3": (lambda a, b, c: a * b + c, lambda A, Bm, C: A * Bm + C),
            "(k1+k2)*(k3+k1)": (lambda a, b, c: (a + b) * (c + a), lambda A, Bm, C: (A + Bm) * (C + A)),
            "k1*k2+k2*k3": (lambda a, b, c: a * b + b * c, lambda A, Bm, C: A * Bm + Bm * C),
            "AdditiveKernel(k1,k2,k3)": (lambda a, b, c: GK.AdditiveKernel(a, b, c), lambda A, Bm, C: A + Bm + C),
            "ProductKernel(k1,k2,k3)": (lambda a, b, c: GK.ProductKernel(a, b, c), lambda A, Bm, C: A * Bm * C),
            "AdditiveKernel(k1,ProductKernel(k2,k3))": (lambda a, b, c: GK.AdditiveKernel(a, GK.ProductKernel(b, c)), lambda A, Bm, C: A + Bm * C),
            "ProductKernel(AdditiveKernel(k1,k2),k3)": (lambda a, b, c: GK.ProductKernel(GK.AdditiveKernel(a, b), c), lambda A, Bm, C: (A + Bm) * C),
        }
        for tname, spec in triples.items():
            for d in DIMS:
                for kb, xb in BATCHES:
                    leaves = [leaf(kind, kb, d, **kw) for kind, kw in spec]
                    x1, x2 = X(xb, n1, d), X(xb, n2, d)
                    inp = {"kernel": None, "leaves": [l[0] for l in leaves], "params": [l[3] for l in leaves]}
                    for ename, (bexpr, oexpr) in exprs.items():
                        prefix = f"composite/{ename}/{tname}/d{d}/{btag(kb, xb)}"
                        inp_e = dict(inp, kernel=ename)
                        kern = gp(prefix + "/construct", lambda: bexpr(*[l[1]() for l in leaves]), inp_e)
                        orc = lambda a, c: oexpr(*[l[2](a, c) for l in leaves])  # noqa: E731
                        modes(prefix, kern, orc, x1, x2, inp_e, atol_sym=SYM_TOL[tname])
                        # the same expression under an output scale
                        sb, so, sp = scaled(kb, lambda: bexpr(*[l[1]() for l in leaves]), orc)
                        prefix = f"composite/ScaleKernel({ename})/{tname}/d{d}/{btag(kb, xb)}"
                        inp_s = dict(inp, kernel=f"ScaleKernel({ename})", outputscale=sp["outputscale"])
                        modes(prefix, gp(prefix + "/construct", sb, inp_s), so, x1, x2, inp_s, atol_sym=SYM_TOL[tname])
                    # scaled leaves inside sums / products
                    s1b, s1o, s1p = scaled(kb, leaves[0][1], leaves[0][2])
                    s2b, s2o, s2p = scaled(kb, leaves[1][1], leaves[1][2])
                    for ename, bexpr, oexpr in (("Scale(k1)+Scale(k2)", lambda: s1b() + s2b(), lambda a, c: s1o(a, c) + s2o(a, c)),
                                                ("Scale(k1)*k3+Scale(k2)", lambda: s1b() * leaves[2][1]() + s2b(), lambda a, c: s1o(a, c) * leaves[2][2](a, c) + s2o(a, c)),
                                                ("k3*(Scale(k1)+Scale(k2))", lambda: leaves[2][1]() * (s1b() + s2b()), lambda a, c: leaves[2][2](a, c) * (s1o(a, c) + s2o(a, c)))):
                        prefix = f"composite/{ename}/{tname}/d{d}/{btag(kb, xb)}"
                        inp_e = dict(inp, kernel=ename, outputscales=[s1p["outputscale"], s2p["outputscale"]])
                        modes(prefix, gp(prefix + "/construct", bexpr, inp_e), oexpr, x1, x2, inp_e, atol_sym=SYM_TOL[tname])
        # ScaleKernel of each plain kernel, and active_dims
        for kb, xb in BATCHES:
            for d in DIMS:
                for kind, kw in (("rbf", {"ard": True}), ("matern", {"nu": 2.5}), ("linear", {}), ("periodic", {}), ("poly", {"power": 3})):
                    ctor, build, oracle, params = leaf(kind, kb, d, **kw)
                    sb, so, sp = scaled(kb, build, oracle)
                    prefix = f"ScaleKernel/{kind}/d{d}/{btag(kb, xb)}"
                    inp = {"kernel": f"ScaleKernel({ctor})", "params": dict(params, **sp)}
                    modes(prefix, gp(prefix + "/construct", sb, inp), so, X(xb, n1, d), X(xb, n2, d), inp, paths=G)
            l1 = leaf("rbf", kb, 1, active=(0,))
            l2 = leaf("matern", kb, 2, ard=True, active=(1, 2), nu=1.5)
            l3 = leaf("rbf", kb, 1, active=(2,))
            s3b, s3o, s3p = scaled(kb, l3[1], l3[2])
            x1, x2 = X(xb, n1, 3), X(xb, n2, 3)
            inp = {"kernel": "RBF(active_dims=(0,)) * Matern1.5(ard, active_dims=(1,2)) + ScaleKernel(RBF(active_dims=(2,)))", "params": [l1[3], l2[3], l3[3], s3p]}
            prefix = f"composite/active_dims/d3/{btag(kb, xb)}"
            modes(prefix, gp(prefix + "/construct", lambda: l1[1]() * l2[1]() + s3b(), inp), lambda a, c: l1[2](a, c) * l2[2](a, c) + s3o(a, c), x1, x2, inp)

        # ================================================================== 3. spectral kernels
        Q = 3
        for d in (1, 2, 3):
            for kb, xb in BATCHES:
                w, mu, sg = U(0.2, 1.5, *kb, Q), U(0.1, 1.2, *kb, Q, 1, d), U(0.2, 1.0, *kb, Q, 1, d)
                def build():
                    k = GK.SpectralMixtureKernel(num_mixtures=Q, ard_num_dims=d, batch_shape=B(kb)).double()
                    k.mixture_weights = w; k.mixture_means = mu; k.mixture_scales = sg
                    return k
                def oracle(a, c):
                    tau = diffs(a, c)  # (..., n1, n2, d)
                    if d == 1:  # Wilson & Adams (2013) eq. 12 with P = 1, v_q = sigma_q^2
                        t = tau[..., 0]
                        out = torch.zeros_like(t)
                        for q_ in range(Q):
                            wq, mq, vq = w[..., q_], mu[..., q_, 0, 0], sg[..., q_, 0, 0] ** 2
                            out = out + tail(wq, 2) * torch.exp(-2 * math.pi ** 2 * t ** 2 * tail(vq, 2)) * torch.cos(2 * math.pi * t * tail(mq, 2))
                        return out
                    t = tau.unsqueeze(-4)  # (..., 1, n1, n2, d)
                    comp = torch.exp(-2 * math.pi ** 2 * t ** 2 * sg.unsqueeze(-2) ** 2) * torch.cos(2 * math.pi * t * mu.unsqueeze(-2))
                    return (tail(w, 3) * comp).sum(-4).prod(-1)  # product over dimensions of 1-d mixtures
                prefix = f"SpectralMixtureKernel/{'wilson_adams' if d == 1 else 'product_of_1d_mixtures'}/d{d}/{btag(kb, xb)}"
                inp = {"kernel": f"SpectralMixtureKernel(num_mixtures={Q}, ard_num_dims={d}, batch={list(kb)})", "params": {"mixture_weights": tl(w), "mixture_means": tl(mu), "mixture_scales": tl(sg)}}
                modes(prefix, gp(prefix + "/construct", build, inp), oracle, X(xb, n1, d), X(xb, n2, d), inp, paths=G)
        S = 5
        for d in DIMS:
            for kb, xb in BATCHES:
                for ard in (False, True):
                    Z, ls = U(0.1, 1.5, *kb, S, d), U(0.4, 1.6, *kb, 1, d if ard else 1)
                    def build():
                        k = GK.SpectralDeltaKernel(num_dims=d, num_deltas=S, batch_shape=B(kb), **({"ard_num_dims": d} if ard else {})).double()
                        k.Z = Z; k.lengthscale = ls
                        return k
                    def oracle(a, c):
                        arg = ((diffs(a, c) / ls.unsqueeze(-2)).unsqueeze(-2) * Z.unsqueeze(-3).unsqueeze(-3)).sum(-1)  # (..., n1, n2, S)
                        return torch.cos(2 * math.pi * arg).mean(-1)
                    prefix = f"SpectralDeltaKernel/{'ard' if ard else 'iso'}/d{d}/{btag(kb, xb)}"
                    inp = {"kernel": f"SpectralDeltaKernel(num_dims={d}, num_deltas={S}, ard={ard}, batch={list(kb)})", "params": {"Z": tl(Z), "lengthscale": tl(ls)}}
                    modes(prefix, gp(prefix + "/construct", build, inp), oracle, X(xb, n1, d), X(xb, n2, d), inp, paths=G)

        # ================================================================== 4. Arc, Cylindrical, Hamming, distributional
        for d in DIMS:
            for kb, xb in BATCHES:
                for ard in (False, True):
                    for bname in ("matern2.5", "rbf"):
                        D = d if ard else 1
                        ls, ang, rad = U(0.5, 2.0, *kb, 1, D), U(0.15, 0.85, *kb, 1, D), U(0.5, 2.0, *kb, 1, D)
                        def build():
                            base = GK.MaternKernel(nu=2.5) if bname == "matern2.5" else GK.RBFKernel()
                            k = GK.ArcKernel(base, batch_shape=B(kb), **({"ard_num_dims": d} if ard else {})).double()
                            k.lengthscale = ls; k.angle = ang; k.radius = rad
                            return k
                        def oracle(a, c):
                            def emb(x):
                                ph = math.pi * ang * x / ls
                                return torch.cat([rad * torch.sin(ph), rad * torch.cos(ph)], -1)
                            r2 = diffs(emb(a), emb(c)).pow(2).sum(-1)
                            return matern_of_r(r2.sqrt(), 2.5) if bname == "matern2.5" else torch.exp(-0.5 * r2)
                        prefix = f"ArcKernel/{bname}/{'ard' if ard else 'iso'}/d{d}/{btag(kb, xb)}"
                        inp = {"kernel": f"ArcKernel({bname} base with unit lengthscale, ard={ard}, batch={list(kb)})", "params": {"lengthscale": tl(ls), "angle": tl(ang), "radius": tl(rad)}}
                        modes(prefix, gp(prefix + "/construct", build, inp), oracle, X(xb, n1, d), X(xb, n2, d), inp)
        for d in DIMS:
            for kb, xb in BATCHES:
                for eps, atol in ((1e-6, 1e-4), (1e-12, 1e-8)):
                    P = 3
                    aw, al, be, lr = U(0.2, 1.5, *kb, P), U(0.6, 2.0, *kb, 1), U(1.0, 2.5, *kb, 1), U(0.4, 1.2, *kb, 1, 1)
                    def build():
                        rk = GK.RBFKernel(batch_shape=B(kb))
                        k = GK.CylindricalKernel(num_angular_weights=P, radial_base_kernel=rk, eps=eps, batch_shape=B(kb)).double()
                        rk.lengthscale = lr; k.angular_weights = aw; k.alpha = al; k.beta = be
                        return k
                    def oracle(a, c):
                        def split(x):
                            r = x.pow(2).sum(-1, keepdim=True).sqrt()
                            return 1 - (1 - r ** tail(al, 1)) ** tail(be, 1), x / r
                        t1, a1 = split(a)
                        t2, a2 = split(c)
                        gram = (a1.unsqueeze(-2) * a2.unsqueeze(-3)).sum(-1)
                        ang_k = sum(tail(aw[..., p], 2) * gram ** p for p in range(P))
                        return torch.exp(-0.5 * sqd(t1, t2, lr)) * ang_k
                    prefix = f"CylindricalKernel/eps{eps:g}/d{d}/{btag(kb, xb)}"
                    inp = {"kernel": f"CylindricalKernel(num_angular_weights={P}, radial_base_kernel=RBFKernel, eps={eps}, batch={list(kb)})",
                           "params": {"angular_weights": tl(aw), "alpha": tl(al), "beta": tl(be), "radial lengthscale": tl(lr)}}
                    s = 0.9 / math.sqrt(d)
                    xa, xc = X(xb, n1, d, -s, s), X(xb, n2, d, -s, s)
                    if d == 1:  # keep |x| away from 0 (angle undefined there)
                        xa, xc = xa + 0.05 * torch.sign(xa), xc + 0.05 * torch.sign(xc)
                        xa, xc = xa.clamp(-0.95, 0.95), xc.clamp(-0.95, 0.95)
                    modes(prefix, gp(prefix + "/construct", build, inp), oracle, xa, xc, inp, atol=atol)
        T, V = 3, 4
        for kb, xb in BATCHES:
            al, be = U(0.3, 2.0, *kb, 1), U(0.5, 2.5, *kb, 1)
            t1 = torch.randint(0, V, (*xb, n1, T), generator=gen)
            t2 = torch.randint(0, V, (*xb, n2, T), generator=gen)
            t2[..., 0, :] = t1[..., 0, :]  # one coincident sequence
            oh = lambda t: torch.nn.functional.one_hot(t, V).reshape(*t.shape[:-1], T * V).to(dt)  # noqa: E731
            def build():
                k = GK.HammingIMQKernel(vocab_size=V, batch_shape=B(kb)).double(); k.alpha = al; k.beta = be; return k
            def oracle(a, c):
                ta, tc = a.reshape(*a.shape[:-1], T, V).argmax(-1), c.reshape(*c.shape[:-1], T, V).argmax(-1)
                dist = (ta.unsqueeze(-2) != tc.unsqueeze(-3)).sum(-1).to(dt)
                return ((1 + tail(al, 1)) / (tail(al, 1) + dist)) ** tail(be, 1)
            prefix = f"HammingIMQKernel/T{T}V{V}/{btag(kb, xb)}"
            inp = {"kernel": f"HammingIMQKernel(vocab_size={V}, batch={list(kb)}) on flattened one-hot sequences", "params": {"alpha": tl(al), "beta": tl(be)}, "tokens1": tl(t1), "tokens2": tl(t2)}
            modes(prefix, gp(prefix + "/construct", build, inp), oracle, oh(t1), oh(t2), inp)
        for d in DIMS:
            for kb, xb in BATCHES:
                for lname in ("lengthscale=1", "random_lengthscale"):
                    a_ = torch.ones(*kb, 1, 1, dtype=dt) if lname == "lengthscale=1" else U(0.4, 1.6, *kb, 1, 1)
                    def build_kl():
                        k = GK.GaussianSymmetrizedKLKernel(batch_shape=B(kb)).double(); k.lengthscale = a_; return k
                    def symkl(a, c):
                        from torch.distributions import Normal, kl_divergence
                        p = Normal(a[..., :d].unsqueeze(-2), a[..., d:].exp().sqrt().unsqueeze(-2))
                        q = Normal(c[..., :d].unsqueeze(-3), c[..., d:].exp().sqrt().unsqueeze(-3))
                        return (kl_divergence(p, q) + kl_divergence(q, p)).sum(-1)
                    xa = torch.cat([X(xb, n1, d), X(xb, n1, d, -1.0, 1.0)], -1)
                    xc = torch.cat([X(xb, n2, d), X(xb, n2, d, -1.0, 1.0)], -1)
                    prefix = f"GaussianSymmetrizedKLKernel/{lname}/d{d}/{btag(kb, xb)}"
                    inp = {"kernel": f"GaussianSymmetrizedKLKernel(batch={list(kb)}); inputs [means, log-variances]; documented k = exp(-a * symKL) with a = lengthscale", "params": {"lengthscale": tl(a_)}}
                    modes(prefix, gp(prefix + "/construct", build_kl, inp), lambda a, c: torch.exp(-a_ * symkl(a, c)), xa, xc, inp, atol=1e-6)
                    # DistributionalInputKernel with a user distance (squared distance of the means)
                    dist_fn = lambda u, v: (u[..., :d].unsqueeze(-2) - v[..., :d].unsqueeze(-3)).pow(2).sum(-1)  # noqa: E731
                    def build_di():
                        k = GK.DistributionalInputKernel(distance_function=dist_fn, batch_shape=B(kb)).double(); k.lengthscale = a_; return k
                    prefix = f"DistributionalInputKernel/{lname}/d{d}/{btag(kb, xb)}"
                    inp = {"kernel": f"DistributionalInputKernel(distance = squared distance of the first {d} coordinates, batch={list(kb)}); documented k = exp(-a * dist)", "params": {"lengthscale": tl(a_)}}
                    modes(prefix, gp(prefix + "/construct", build_di, inp), lambda a, c: torch.exp(-a_ * dist_fn(a, c)), xa, xc, inp)

        # ================================================================== 5. additive / product structure
        d = 3
        for kb, xb in BATCHES:
            for max_degree in (None, 2, 1):
                R = d if max_degree is None else max_degree
                ls, os_ = U(0.4, 1.6, *kb, 1, d), U(0.2, 1.5, *kb, R)
                def build():
                    k = GK.NewtonGirardAdditiveKernel(GK.RBFKernel(ard_num_dims=d, batch_shape=B(kb)), num_dims=d, max_degree=max_degree, batch_shape=B(kb)).double()
                    k.base_kernel.lengthscale = ls; k.outputscale = os_
                    return k
                def oracle(a, c):
                    per_dim = torch.exp(-0.5 * (diffs(a, c) / ls.unsqueeze(-2)) ** 2)  # (..., n1, n2, d): the 1-d base kernels
                    out = 0
                    for deg in range(1, R + 1):
                        e = sum(math.prod(per_dim[..., i] for i in comb) for comb in itertools.combinations(range(d), deg))
                        out = out + tail(os_[..., deg - 1], 2) * e
                    return out
                prefix = f"NewtonGirardAdditiveKernel/max_degree{max_degree}/d{d}/{btag(kb, xb)}"
                inp = {"kernel": f"NewtonGirardAdditiveKernel(RBFKernel(ard_num_dims={d}), num_dims={d}, max_degree={max_degree}, batch={list(kb)})", "params": {"base lengthscale": tl(ls), "outputscale": tl(os_)}}
                modes(prefix, gp(prefix + "/construct", build, inp), oracle, X(xb, n1, d), X(xb, n2, d), inp)
            for sname, cls, red in (("AdditiveStructureKernel", GK.AdditiveStructureKernel, lambda t: t.sum(-1)), ("ProductStructureKernel", GK.ProductStructureKernel, lambda t: t.prod(-1))):
                for bname in ("rbf_iso", "rbf_ard", "matern1.5_iso", "periodic_iso", "scale(rbf_iso)"):
                    D = d if bname.endswith("ard") else 1
                    ls, per, os_ = U(0.5, 1.6, *kb, 1, D), U(0.7, 2.5, *kb, 1, 1), (U(0.2, 2.0, *kb) if len(kb) else U(0.2, 2.0, 1).squeeze(0))
                    def build():
                        kw = {"batch_shape": B(kb)}
                        if bname.startswith("rbf"):
                            base = GK.RBFKernel(**kw, **({"ard_num_dims": d} if D > 1 else {}))
                        elif bname.startswith("matern"):
                            base = GK.MaternKernel(nu=1.5, **kw)
                        elif bname.startswith("periodic"):
                            base = GK.PeriodicKernel(**kw)
                        else:
                            base = GK.ScaleKernel(GK.RBFKernel(**kw), **kw)
                        k = cls(base, num_dims=d).double()
                        inner = base.base_kernel if bname.startswith("scale") else base
                        inner.lengthscale = ls
                        if bname.startswith("periodic"):
                            inner.period_length = per
                        if bname.startswith("scale"):
                            base.outputscale = os_
                        return k
                    def oracle(a, c):
                        z = diffs(a, c)  # (..., n1, n2, d): each 1-d kernel k'(x^(i), x'^(i))
                        lsd = ls.unsqueeze(-2)
                        if bname.startswith("rbf"):
                            per_dim = torch.exp(-0.5 * (z / lsd) ** 2)
                        elif bname.startswith("matern"):
                            per_dim = matern_of_r((z / lsd).abs(), 1.5)
                        elif bname.startswith("periodic"):
                            per_dim = torch.exp(-2 * torch.sin(math.pi * z / per.unsqueeze(-2)) ** 2 / lsd)
                        else:
                            per_dim = tail(os_, 3) * torch.exp(-0.5 * (z / lsd) ** 2)
                        return red(per_dim)
                    prefix = f"{sname}/{bname}/d{d}/{btag(kb, xb)}"
                    inp = {"kernel": f"{sname}({bname}, num_dims={d}), base batch={list(kb)}", "params": {"lengthscale": tl(ls), "period_length": tl(per), "outputscale": tl(os_)}}
                    modes(prefix, gp(prefix + "/construct", build, inp), oracle, X(xb, n1, d), X(xb, n2, d), inp)

        # ================================================================== 6. index / multitask kernels
        def task_cov(Bf, v):
            return Bf @ Bf.transpose(-1, -2) + torch.diag_embed(v)

        for kb, xb in BATCHES:
            for T_, rank in ((3, 1), (4, 2)):
                Bf, v = U(-1.0, 1.0, *kb, T_, rank), U(0.1, 1.0, *kb, T_)
                i1 = torch.randint(0, T_, (*xb, n1, 1), generator=gen)
                i2 = torch.randint(0, T_, (*xb, n2, 1), generator=gen)
                def build():
                    k = GK.IndexKernel(num_tasks=T_, rank=rank, batch_shape=B(kb)).double()
                    k.covar_factor.data.copy_(Bf); k.var = v
                    return k
                def oracle(a, c):
                    M = task_cov(Bf, v)
                    bs = torch.broadcast_shapes(a.shape[:-2], M.shape[:-2])
                    M_, a_, c_ = M.expand(*bs, T_, T_), a.expand(*bs, *a.shape[-2:]).long(), c.expand(*bs, *c.shape[-2:]).long()
                    out = torch.zeros(*bs, a.shape[-2], c.shape[-2], dtype=dt)
                    for bi in itertools.product(*[range(s) for s in bs]):
                        for i in range(a.shape[-2]):
                            for j in range(c.shape[-2]):
                                out[bi + (i, j)] = M_[bi + (int(a_[bi + (i, 0)]), int(c_[bi + (j, 0)]))]
                    return out
                prefix = f"IndexKernel/T{T_}rank{rank}/{btag(kb, xb)}"
                inp = {"kernel": f"IndexKernel(num_tasks={T_}, rank={rank}, batch={list(kb)})", "params": {"covar_factor": tl(Bf), "var": tl(v)}}
                modes(prefix, gp(prefix + "/construct", build, inp), oracle, i1, i2, inp)
        for d in DIMS:
            for kb, xb in BATCHES:
                for T_, rank in ((2, 1), (3, 2)):
                    Bf, v, ls = U(-1.0, 1.0, *kb, T_, rank), U(0.1, 1.0, *kb, T_), U(0.4, 1.6, *kb, 1, 1)
                    def build():
                        k = GK.MultitaskKernel(GK.RBFKernel(batch_shape=B(kb)), num_tasks=T_, rank=rank, batch_shape=B(kb)).double()
                        k.data_covar_module.lengthscale = ls; k.task_covar_module.covar_factor.data.copy_(Bf); k.task_covar_module.var = v
                        return k
                    def kron(Kx, Kt, interleaved=True):
                        if interleaved:  # row = i * T + t
                            out = Kx.unsqueeze(-1).unsqueeze(-3) * Kt.unsqueeze(-2).unsqueeze(-4)  # (..., n1, T, n2, T)
                        else:  # row = t * n + i  (K_TT kron K_XX)
                            out = Kt.unsqueeze(-1).unsqueeze(-3) * Kx.unsqueeze(-2).unsqueeze(-4)  # (..., T, n1, T, n2)
                        s = out.shape
                        return out.reshape(*s[:-4], s[-4] * s[-3], s[-2] * s[-1])
                    prefix = f"MultitaskKernel/T{T_}rank{rank}/interleaved_layout/d{d}/{btag(kb, xb)}"
                    inp = {"kernel": f"MultitaskKernel(RBFKernel, num_tasks={T_}, rank={rank}, batch={list(kb)})", "params": {"data lengthscale": tl(ls), "covar_factor": tl(Bf), "var": tl(v)}}
                    kern = gp(prefix + "/construct", build, inp)
                    x1, x2 = X(xb, n1, d), X(xb, n2, d)
                    modes(prefix, kern, lambda a, c: kron(f_rbf(ls)(a, c), task_cov(Bf, v)), x1, x2, inp)
                    # NOTE: the class docstring writes the matrix as K_TT kron K_XX (task-major); the code, MultitaskMultivariateNormal's
                    # documented (interleaved) layout and every consumer use K_XX kron K_TT.  The docstring formula is read up to this
                    # permutation of rows/columns (a documentation inconsistency, recorded in DESIGN.md), not held against the code.
            for xb in ((), (2,)):
                T_ = 2
                Bs, vs = [U(-1.0, 1.0, T_, r) for r in (1, 2)], [U(0.1, 1.0, T_) for _ in range(2)]
                ls = [U(0.4, 1.6, 1, 1) for _ in range(2)]
                def build():
                    k = GK.LCMKernel([GK.RBFKernel(), GK.MaternKernel(nu=1.5)], num_tasks=T_, rank=[1, 2]).double()
                    for m, l_, b_, v_ in zip(k.covar_module_list, ls, Bs, vs):
                        m.data_covar_module.lengthscale = l_; m.task_covar_module.covar_factor.data.copy_(b_); m.task_covar_module.var = v_
                    return k
                def oracle(a, c):
                    out = 0
                    for f, b_, v_ in zip((f_rbf(ls[0]), f_matern(ls[1], 1.5)), Bs, vs):
                        Kx, Kt = f(a, c), task_cov(b_, v_)
                        o = Kx.unsqueeze(-1).unsqueeze(-3) * Kt.unsqueeze(-2).unsqueeze(-4)
                        out = out + o.reshape(*o.shape[:-4], o.shape[-4] * T_, o.shape[-2] * T_)
                    return out
                prefix = f"LCMKernel/RBF+Matern1.5/T{T_}/d{d}/{btag((), xb)}"
                inp = {"kernel": "LCMKernel([RBFKernel, MaternKernel(1.5)], num_tasks=2, rank=[1, 2])", "params": {"lengthscales": tl(torch.stack(ls)), "covar_factors": [tl(b_) for b_ in Bs], "vars": [tl(v_) for v_ in vs]}}
                modes(prefix, gp(prefix + "/construct", build, inp), oracle, X(xb, n1, d), X(xb, n2, d), inp)

        # ================================================================== 7. RFF
        Dn = 6
        for d in DIMS:
            for kb, xb in BATCHES:
                for ard in (False, True):
                    for given in (True, False):
                        ls = U(0.4, 1.6, *kb, 1, d if ard else 1)
                        def build():
                            k = GK.RFFKernel(num_samples=Dn, batch_shape=B(kb), **({"num_dims": d} if given else {}), **({"ard_num_dims": d} if ard else {})).double()
                            k.lengthscale = ls
                            return k
                        prefix = f"RFFKernel/{'ard' if ard else 'iso'}/{'num_dims_given' if given else 'num_dims_inferred'}/d{d}/{btag(kb, xb)}"
                        inp = {"kernel": f"RFFKernel(num_samples={Dn}, num_dims={d if given else None}, ard={ard}, batch={list(kb)})", "params": {"lengthscale": tl(ls)}}
                        kern = gp(prefix + "/construct", build, inp)
                        x1, x2 = X(xb, n1, d), X(xb, n2, d)
                        if kern is not None and not given:  # weights are drawn on first use
                            if gp(prefix + "/first_call", lambda: kern(x1, x2).to_dense(), inp) is None:
                                continue
                        if kern is None:
                            continue
                        W = kern.randn_weights.detach().clone()  # (*kb, d, D)
                        inp = dict(inp, randn_weights=tl(W))
                        def oracle(a, c):
                            om = W / ls.transpose(-1, -2)  # omega_i = w_i / lengthscale  (per dimension)
                            feat = lambda x: torch.cat([torch.cos(x @ om), torch.sin(x @ om)], -1) / math.sqrt(Dn)  # noqa: E731
                            return feat(a) @ feat(c).transpose(-1, -2)
                        modes(prefix, kern, oracle, x1, x2, inp)
                        # and the closed form (1/D) sum_i cos(omega_i^T (x - x'))
                        def oracle2(a, c):
                            om = (W / ls.transpose(-1, -2)).transpose(-1, -2)  # (*kb, D, d)
                            arg = (diffs(a, c).unsqueeze(-2) * om.unsqueeze(-3).unsqueeze(-3)).sum(-1)
                            return torch.cos(arg).mean(-1)
                        modes(prefix + "/mean_cos_form", kern, oracle2, x1, x2, inp, which=("full",))

        # ================================================================== 8. grid kernels
        def cart(grid):  # Cartesian product, LAST dimension fastest (own ordering)
            return torch.cartesian_prod(*grid).reshape(-1, len(grid))

        for gsizes in ((4,), (3, 4), (3, 4, 2)):
            d = len(gsizes)
            for kb, xb in (((), ()), ((2,), (2,))):
                for ard in ((False, True) if d > 1 else (False,)):
                    for toep in (True, False):
                        for bname in (("rbf",) if d > 1 else ("rbf", "matern1.5", "periodic")):
                            grid = [torch.linspace(-1.0 + 0.1 * i, 1.0, g, dtype=dt) for i, g in enumerate(gsizes)]
                            ls, per = U(0.4, 1.6, *kb, 1, d if ard else 1), U(0.9, 2.5, *kb, 1, 1)
                            def build():
                                kw = {"batch_shape": B(kb), **({"ard_num_dims": d} if ard else {})}
                                base = GK.RBFKernel(**kw) if bname == "rbf" else (GK.MaternKernel(nu=1.5, **kw) if bname == "matern1.5" else GK.PeriodicKernel(**kw))
                                k = GK.GridKernel(base, [g.clone() for g in grid]).double()
                                base.lengthscale = ls
                                if bname == "periodic":
                                    base.period_length = per
                                return k
                            def oracle(a, c):
                                if bname == "rbf":
                                    return f_rbf(ls)(a, c)
                                if bname == "matern1.5":
                                    return f_matern(ls, 1.5)(a, c)
                                return f_periodic(ls, per)(a, c)
                            prefix = f"GridKernel/{bname}/{'ard' if ard else 'iso'}/grid{list(gsizes)}/toeplitz={toep}/{btag(kb, xb)}"
                            inp = {"kernel": f"GridKernel({bname}, grid sizes {list(gsizes)}, ard={ard}, batch={list(kb)}), use_toeplitz({toep})", "params": {"lengthscale": tl(ls), "period_length": tl(per)}, "grid": [tl(g) for g in grid]}
                            kern = gp(prefix + "/construct", build, inp)
                            if kern is None:
                                continue
                            mine = cart(grid[::-1]).flip(-1)  # first dimension fastest: the documented "column-major" order
                            full = kern.full_grid.detach().clone()
                            rec(prefix + "/full_grid_is_first_dim_fastest", tuple(full.shape) == tuple(mine.shape) and bool(torch.equal(full, mine)), "kernel.full_grid vs own enumeration", inp)
                            xg = mine.expand(*xb, *mine.shape).clone()
                            want = oracle(xg, xg)
                            inp_g = dict(inp, x1="kernel.full_grid", x2="kernel.full_grid")
                            def ctx():
                                return gpytorch.settings.use_toeplitz(toep)
                            def call_full():
                                with ctx():
                                    return kern(xg, xg).to_dense()
                            def call_sym():
                                with ctx():
                                    return kern(xg).to_dense()
                            def call_diag():
                                with ctx():
                                    return kern(xg, diag=True)
                            compare(prefix + "/on_grid/full", call_full, want, inp_g)
                            compare(prefix + "/on_grid/sym", call_sym, want, inp_g)
                            compare(prefix + "/on_grid/diag", call_diag, want.diagonal(dim1=-2, dim2=-1), inp_g)
                            if toep:  # off the grid the base kernel is evaluated directly
                                modes(prefix + "/off_grid", kern, oracle, X(xb, n1, d), X(xb, n2, d), inp)

        def keys_u(s):  # Keys (1981) cubic convolution kernel, a = -1/2
            s = s.abs()
            return torch.where(s <= 1, (1.5 * s - 2.5) * s * s + 1, torch.where(s < 2, ((-0.5 * s + 2.5) * s - 4) * s + 2, torch.zeros_like(s)))

        def interp_W(grid, x):  # x: (n, d) -> dense (n, prod g), last dimension fastest
            n = x.shape[0]
            W = torch.ones(n, 1, dtype=dt)
            for i, g in enumerate(grid):
                h = (g[-1] - g[0]) / (len(g) - 1)
                s = (x[:, i] - g[0]) / h
                lo = torch.floor(s)
                fr = s - lo
                Wi = torch.zeros(n, len(g), dtype=dt)
                for off in (-1, 0, 1, 2):
                    idx = lo.long() + off
                    if bool((idx < 0).any()) or bool((idx >= len(g)).any()):
                        raise AssertionError("oracle: interpolation stencil leaves the grid (inputs must be interior)")
                    Wi[torch.arange(n), idx] += keys_u(fr - off)
                W = (W.unsqueeze(-1) * Wi.unsqueeze(-2)).reshape(n, -1)
            return W

        for d, gs in ((1, 12), (2, 8), (3, 6)):
            for kb, xb in (((), ()), ((2,), (2,)), ((), (2,))):
                for gmode in ("data_grid", "grid_bounds", "grid_bounds_same_in_all_dims"):
                    for toep in ((True, False) if gmode == "data_grid" else (True,)):
                        ls = U(0.5, 1.2, *kb, 1, 1)
                        gkw = {}
                        if gmode == "grid_bounds":  # a different grid in every dimension
                            gkw = {"grid_bounds": [(-1.5 - 0.1 * i, 1.5 + 0.2 * i) for i in range(d)], "grid_size": [gs + i for i in range(d)]}
                        elif gmode != "data_grid":
                            gkw = {"grid_bounds": [(-1.5, 1.5)] * d, "grid_size": gs}
                        def build():
                            base = GK.RBFKernel(batch_shape=B(kb))
                            k = GK.GridInterpolationKernel(base, **(gkw if gkw else {"grid_size": gs, "num_dims": d})).double()
                            base.lengthscale = ls
                            return k
                        prefix = f"GridInterpolationKernel/{gmode}/toeplitz={toep}/d{d}/{btag(kb, xb)}"
                        inp = {"kernel": f"GridInterpolationKernel(RBFKernel(batch={list(kb)}), {gkw if gkw else dict(grid_size=gs, num_dims=d)}), use_toeplitz({toep})", "params": {"lengthscale": tl(ls)}}
                        x1, x2 = X(xb, max(n1, 2), d), X(xb, n2, d)  # >= 2 rows: a data-determined grid needs a non-degenerate range
                        for mode in ("full", "sym", "diag"):
                            kern = gp(prefix + "/construct", build, inp)  # fresh instance: the data-determined grid depends on the inputs seen
                            if kern is None:
                                break
                            a, c = (x1, x2) if mode == "full" else (x1, x1)
                            def call():
                                with gpytorch.settings.use_toeplitz(toep):
                                    return kern(a, c).to_dense() if mode == "full" else (kern(a).to_dense() if mode == "sym" else kern(a, diag=True))
                            key = f"{prefix}/WKW/{mode}"
                            inp_m = dict(inp, x1=tl(a), x2=tl(c), mode=mode)
                            got = gp(key, call, inp_m)
                            if got is None:
                                continue
                            grid = [g.detach().clone().to(dt) for g in kern.grid]  # read back AFTER the call (data-determined grid)
                            Ug = cart(grid)
                            Kuu = f_rbf(ls)(Ug, Ug)  # (*kb, G, G)
                            bs = torch.broadcast_shapes(torch.Size(xb), torch.Size(kb))
                            a_, c_, K_ = a.expand(*bs, *a.shape[-2:]), c.expand(*bs, *c.shape[-2:]), Kuu.expand(*bs, *Kuu.shape[-2:])
                            want = torch.zeros(*bs, a.shape[-2], c.shape[-2], dtype=dt)
                            for bi in itertools.product(*[range(s) for s in bs]):
                                want[bi] = interp_W(grid, a_[bi]) @ K_[bi] @ interp_W(grid, c_[bi]).T
                            if mode == "diag":
                                want = want.diagonal(dim1=-2, dim2=-1)
                            compare(key, lambda: got, want, inp_m, atol=1e-8 if gmode == "data_grid" else 1e-5)

        # ================================================================== 9. inducing point kernel
        m = 3
        for d in DIMS:
            for kb, xb in (((), ()), ((2,), (2,)), ((), (2,))):
                ls = U(0.5, 1.2, *kb, 1, 1)
                os_ = U(0.5, 2.0, *kb) if len(kb) else U(0.5, 2.0, 1).squeeze(0)
                Z = torch.linspace(-1.0, 1.0, m, dtype=dt).unsqueeze(-1).expand(m, d).clone() + 0.1 * U(-1, 1, m, d)
                def build():
                    base = GK.ScaleKernel(GK.RBFKernel(batch_shape=B(kb)), batch_shape=B(kb))
                    k = GK.InducingPointKernel(base, inducing_points=Z.clone(), likelihood=gpytorch.likelihoods.GaussianLikelihood()).double()
                    base.base_kernel.lengthscale = ls; base.outputscale = os_
                    return k
                kf = lambda a, c: tail(os_, 2) * f_rbf(ls)(a, c)  # noqa: E731
                def Qf(a, c):
                    Kzz = kf(Z, Z)
                    return kf(a, Z) @ torch.linalg.solve(Kzz, kf(c, Z).transpose(-1, -2))
                def Qcorr(a, c):  # eval mode, x1 == x2: exact diagonal (settings.sgpr_diagonal_correction, default on)
                    Q_ = Qf(a, c)
                    dg = kf(a, a).diagonal(dim1=-2, dim2=-1) - Q_.diagonal(dim1=-2, dim2=-1)
                    return Q_ + torch.diag_embed(dg.clamp_min(0))
                x1, x2 = X(xb, n1, d), X(xb, n2, d)
                inp = {"kernel": f"InducingPointKernel(ScaleKernel(RBFKernel(batch={list(kb)})), {m} inducing points, GaussianLikelihood)", "params": {"lengthscale": tl(ls), "outputscale": tl(os_), "inducing_points": tl(Z)}}
                prefix = f"InducingPointKernel/d{d}/{btag(kb, xb)}"
                k_tr = gp(prefix + "/train/construct", build, inp)
                modes(prefix + "/train", k_tr, Qf, x1, x2, inp, atol=1e-7, which=("sym", "diag"))
                k_ev = gp(prefix + "/eval/construct", lambda: build().eval(), inp)
                modes(prefix + "/eval", k_ev, Qf, x1, x2, inp, atol=1e-7, which=("full",))
                k_ev = gp(prefix + "/eval_diag_correction/construct", lambda: build().eval(), inp)
                modes(prefix + "/eval_diag_correction", k_ev, Qcorr, x1, x2, inp, atol=1e-7, which=("sym", "diag"))
                k_ev = gp(prefix + "/eval_no_correction/construct", lambda: build().eval(), inp)
                if k_ev is not None:
                    with gpytorch.settings.sgpr_diagonal_correction(False):
                        modes(prefix + "/eval_no_correction", k_ev, Qf, x1, x2, inp, atol=1e-7, which=("sym", "diag"))

        # ================================================================== 10. derivative kernels vs autograd
        def dop(F, Xv, op, d):
            """apply the op-th derivative operator (0: id, 1..d: d/dx_p, d+1..2d: d^2/dx_p^2) w.r.t. the per-pair leaf Xv"""
            def d1(Fv, p):
                if not Fv.requires_grad:
                    return torch.zeros_like(Fv)
                (g,) = torch.autograd.grad(Fv.sum(), Xv, create_graph=True, allow_unused=True)
                return torch.zeros_like(Fv) if g is None else g[..., p]
            if op == 0:
                return F
            if op <= d:
                return d1(F, op - 1)
            return d1(d1(F, op - d - 1), op - d - 1)

        def deriv_oracle(kfun, x1, x2, order):
            """kfun(A, Bv): A, Bv (..., n1, n2, d) -> (..., n1, n2).  Result (..., n1*m, n2*m), row = i*m + a."""
            d = x1.shape[-1]
            n1_, n2_ = x1.shape[-2], x2.shape[-2]
            bs = x1.shape[:-2]
            A = x1.unsqueeze(-2).expand(*bs, n1_, n2_, d).clone().requires_grad_(True)
            Bv = x2.unsqueeze(-3).expand(*bs, n1_, n2_, d).clone().requires_grad_(True)
            Kv = kfun(A, Bv)
            m_ = 1 + order * d
            out = torch.zeros(*bs, n1_, m_, n2_, m_, dtype=dt)
            for ia in range(m_):
                Fa = dop(Kv, A, ia, d)
                for ib in range(m_):
                    out[..., :, ia, :, ib] = dop(Fa, Bv, ib, d).detach()
            return out.reshape(*bs, n1_ * m_, n2_ * m_)

        def grad_modes(prefix, kern, oracle_full, oracle_sym, x1, x2, inp, atol=1e-8):
            if kern is None:
                return
            compare(prefix + "/full", lambda: kern(x1, x2).to_dense(), oracle_full, dict(inp, x1=tl(x1), x2=tl(x2), mode="full"), atol)
            compare(prefix + "/sym", lambda: kern(x1).to_dense(), oracle_sym, dict(inp, x1=tl(x1), x2=tl(x1), mode="sym"), atol)
            compare(prefix + "/diag", lambda: kern(x1, diag=True), oracle_sym.diagonal(dim1=-2, dim2=-1), dict(inp, x1=tl(x1), x2=tl(x1), mode="diag"), atol)

        g1, g2 = (3, 4) if (n1, n2) == (4, 5) else (n1, n2)
        for d in (1, 2, 3):
            for kb, xb in BATCHES:
                x1, x2 = X(xb, g1, d), X(xb, g2, d)
                for ard in ((False, True) if d > 1 else (False,)):
                    ls = U(0.5, 1.6, *kb, 1, d if ard else 1)
                    lsp = ls.unsqueeze(-2)  # (*kb, 1, 1, D) against (..., n1, n2, d)
                    ardkw = {"ard_num_dims": d} if ard else {}
                    tag = f"{'ard' if ard else 'iso'}/d{d}/{btag(kb, xb)}"
                    # RBF grad / grad-grad
                    k_rbf = lambda A, Bv: torch.exp(-0.5 * ((A - Bv) / lsp).pow(2).sum(-1))  # noqa: E731
                    for cname, cls, order in (("RBFKernelGrad", GK.RBFKernelGrad, 1), ("RBFKernelGradGrad", GK.RBFKernelGradGrad, 2)):
                        def build():
                            k = cls(batch_shape=B(kb), **ardkw).double(); k.lengthscale = ls; return k
                        prefix = f"{cname}/{tag}"
                        inp = {"kernel": f"{cname}({ardkw}, batch={list(kb)})", "params": {"lengthscale": tl(ls)}, "layout": "row = i*m + a; a=0 value, 1..d first, d+1..2d second non-mixed derivatives"}
                        grad_modes(prefix, gp(prefix + "/construct", build, inp), deriv_oracle(k_rbf, x1, x2, order), deriv_oracle(k_rbf, x1, x1, order), x1, x2, inp)
                    # Matern 5/2 grad
                    def k_m52(A, Bv):
                        r = ((A - Bv) / lsp).pow(2).sum(-1).sqrt()
                        return (1 + math.sqrt(5) * r + 5.0 / 3.0 * r ** 2) * torch.exp(-math.sqrt(5) * r)
                    def build_m():
                        k = GK.Matern52KernelGrad(batch_shape=B(kb), **ardkw).double(); k.lengthscale = ls; return k
                    sym = deriv_oracle(k_m52, x1, x1, 1)
                    mm = d + 1
                    blk = torch.zeros(*torch.broadcast_shapes(x1.shape[:-2], ls.shape[:-2]), mm, mm, dtype=dt)  # coincident points: docstring formulas at r = 0
                    blk[..., 0, 0] = 1.0
                    for p in range(d):
                        blk[..., p + 1, p + 1] = (5.0 / 3.0) / (ls[..., 0, p if ard else 0] ** 2)
                    sym = sym.expand(*blk.shape[:-2], *sym.shape[-2:]).clone()
                    for i in range(g1):
                        sym[..., i * mm:(i + 1) * mm, i * mm:(i + 1) * mm] = blk
                    prefix = f"Matern52KernelGrad/{tag}"
                    inp = {"kernel": f"Matern52KernelGrad({ardkw}, batch={list(kb)})", "params": {"lengthscale": tl(ls)}, "layout": "row = i*(d+1) + a"}
                    grad_modes(prefix, gp(prefix + "/construct", build_m, inp), deriv_oracle(k_m52, x1, x2, 1), sym, x1, x2, inp)
                    # ScaleKernel of a derivative kernel
                    os_ = U(0.3, 2.0, *kb) if len(kb) else U(0.3, 2.0, 1).squeeze(0)
                    def build_s():
                        k = GK.ScaleKernel(GK.RBFKernelGrad(batch_shape=B(kb), **ardkw), batch_shape=B(kb)).double()
                        k.base_kernel.lengthscale = ls; k.outputscale = os_
                        return k
                    prefix = f"ScaleKernel(RBFKernelGrad)/{tag}"
                    inp = {"kernel": f"ScaleKernel(RBFKernelGrad({ardkw}, batch={list(kb)}))", "params": {"lengthscale": tl(ls), "outputscale": tl(os_)}}
                    grad_modes(prefix, gp(prefix + "/construct", build_s, inp), tail(os_, 2) * deriv_oracle(k_rbf, x1, x2, 1), tail(os_, 2) * deriv_oracle(k_rbf, x1, x1, 1), x1, x2, inp)
                for power in (1, 2, 3, 4):
                    off = U(0.3, 2.0, *kb, 1)
                    k_poly = lambda A, Bv: ((A * Bv).sum(-1) + tail(off, 1)) ** power  # noqa: E731
                    def build_p():
                        k = GK.PolynomialKernelGrad(power=power, batch_shape=B(kb)).double(); k.offset = off; return k
                    prefix = f"PolynomialKernelGrad/power{power}/d{d}/{btag(kb, xb)}"
                    inp = {"kernel": f"PolynomialKernelGrad(power={power}, batch={list(kb)})", "params": {"offset": tl(off)}, "layout": "row = i*(d+1) + a"}
                    grad_modes(prefix, gp(prefix + "/construct", build_p, inp), deriv_oracle(k_poly, x1, x2, 1), deriv_oracle(k_poly, x1, x1, 1), x1, x2, inp)


    with warnings.catch_warnings():
        warnings.simplefilter("ignore")
        for draw in range(DRAWS):
            for (n1, n2) in N_PAIRS:
                sweep(n1, n2, draw)

    nkeys = len(seen)
    return {"name": "C05 kernel oracle sweep (float64)", "evaluations": ev, "distinct_nontrivial": nkeys,
            "bound": (f"tier={tier}, seed={seed}: (n1, n2) in {N_PAIRS} (derivative kernels (3, 4)), x1 == x2 full and diag, input dims {{1, 3}} "
                      "(derivative kernels {1, 2, 3}; Hamming 3 tokens x 4 symbols; KL kernel 2d = 2, 6), kernel/input batch shapes ()/(), (2,)/(2,), ()/(2,), "
                      "ARD and non-ARD, lengthscales U(0.4, 1.6), periods U(0.7, 2.5), alpha U(0.3, 3), offsets / constants / output scales U(0.2, 2), "
                      "polynomial powers 1..4, piecewise q 0..3, Matern nu in {.5, 1.5, 2.5}, 3 mixtures, 5 spectral deltas, 2-3 tasks rank 1-2, "
                      f"6 RFF samples, grids <= 24 / 216 points, 3 inducing points, inputs U(-1.2, 1.2), {DRAWS} random draw(s) per configuration; "
                      "paths default / x1.requires_grad / trace_mode; atol 1e-8 on |got-want|/(1+|want|) except as stated in the module docstring; "
                      "skipped: keops kernels (KeOps not available on CPU here), MultiDeviceKernel (needs CUDA devices)"),
            "rule": "a case = (kernel class + structural options, input dim, batch configuration, code path, mode); distinct by that key; draws and row counts re-evaluate the same key",
            "samples": samples, "violations": violations, "wall_s": round(time.time() - t0, 2)}
