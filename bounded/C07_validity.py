"""C07 bounded stand-in (NOT counted as proved): every covariance handed out is a valid covariance -- float64 sweep on the real code.

What is evaluated is always an object handed out by gpytorch (a Gram matrix ``kernel(x).to_dense()``, the covariance / variance / stddev /
confidence region of a distribution returned by a model, a variational strategy or a likelihood).  The oracle is dense float64 linear
algebra written here (symmetrisation, ``torch.linalg.eigvalsh``, differences of dense matrices); gpytorch is used by the oracle only to
evaluate a model's own kernel on given inputs (``kernel(xs).to_dense()`` as the prior of "prior - posterior") and to read parameters.

Sections (``only=`` selects one):
  kernels      Gram matrices K(x, x) of every exported CPU kernel that is positive definite on its documented domain, with a duplicated row,
               a row 1e-9 and a row 1e-6 (relative to the input range) away from another row, random hyper-parameters in three lengthscale
               regimes (short / unit / long), kernel batch shapes () and (2,), called as k(x), k(x, x.clone()) and k(x.requires_grad_()) (the
               generic autograd branch of the stationary kernels): symmetric, PSD.  Plus a deterministic (seed-independent) lengthscale scan of
               the two kernels with a kink at distance 0 (Matern-1/2, PiecewisePolynomial q = 0) on fixed inputs with coincident rows.
  exact        ExactGP with DefaultPredictionStrategy kernels (RBF, Matern-1/2, additive, product, spectral mixture, linear), RFF, SGPR
               (InducingPointKernel), KISS-GP (GridInterpolationKernel); GaussianLikelihood (noise at the constraint bound 1e-4, 1e-2, 1) and
               FixedNoiseGaussianLikelihood (noises down to the min_fixed_noise clamp); fast_pred_var off / on; training inputs with duplicated and
               nearly coincident rows, test inputs that contain training points and duplicates; a batched model; a multitask model:
               prior (train mode), posterior, marginal covariance symmetric PSD; prior - posterior PSD; marginal - posterior = added noise
               >= the lower bound; nested training sets (variance never increases; also through get_fantasy_model);
               variance / stddev / confidence_region real, finite, >= settings.min_variance (default and 1e-3, 0.5), variance == clamped
               diagonal of the covariance; test inputs == training inputs; skip_posterior_variances(True); prior_mode / no training data;
               a float32 model; the conjugate-gradient path (max_cholesky_size(0)).
  variational  ApproximateGP with VariationalStrategy / UnwhitenedVariationalStrategy x Cholesky / MeanField / Delta / Natural / TrilNatural
               distributions, random variational parameters, inducing points well separated and nearly coincident, x containing inducing points
               and duplicates, eval and train mode: q(u), p(u), q(f), marginal covariance symmetric PSD, variances >= min_variance; LMC and
               IndependentMultitask wrappers; CIQ (variance floor only).
  noise        the diagonal a likelihood adds (marginal covariance - latent covariance): GaussianLikelihood (default GreaterThan(1e-4), custom
               GreaterThan / Interval, extreme raw parameters, batch shapes), FixedNoiseGaussianLikelihood (tiny noises vs settings.min_fixed_noise,
               default and non-default, constructor / setter / fantasy likelihood / call-time noise / learned additional noise),
               MultitaskGaussianLikelihood (rank 0, 1, 2, global and task noise), HeteroskedasticNoise.
  variance     MultivariateNormal / MultitaskMultivariateNormal built directly from covariances whose diagonal is tiny, zero or slightly
               negative (rounding), dense and lazy, batch shapes: variance, stddev, confidence_region, to_data_independent_dist.

Bound: n <= 10 training rows, <= 8 test rows, d in {1, 2, 3}, batch shapes () and (2,), m <= 6 inducing points, 3 tasks,
draws per kernel configuration 3 (quick) / 6 (thorough), 1 / 2 per model configuration, nested sequences of length 4 (quick) / 6 (thorough), seeded.

Tolerances (scale = largest absolute entry of the matrix under test, or of the prior for differences):
  * Gram matrices: asymmetry <= 1e-8 * scale, smallest eigenvalue of the symmetrised matrix >= -1e-8 * scale (the stated rule).
  * prior / posterior / variational / marginal covariances and prior - posterior: 1e-6 * scale (the general 1e-6 relative float64 rule; the
    posterior is a difference of two PSD matrices whose rounding error is eps * cond(K + R) * scale, cond <= 1e8 in this sweep).
  * variance monotonicity under added observations: increase <= 1e-6 * scale.
  * variance >= min_variance, stddev >= sqrt(min_variance), upper - lower >= 4 sqrt(min_variance): relative 1e-12 (pure rounding of sqrt).
  * added noise >= lower bound: the bound * (1 - 1e-6) minus 1e-9 * scale (the marginal - latent difference cancels to about eps * scale;
    constraints store their bound as a float32 buffer, so GreaterThan(1e-4) on a double likelihood reads 9.99999975e-05: inside the 1e-6 rule).
  * conjugate-gradient path (settings.max_cholesky_size(0), exact_pred_var): an iterative approximation whose documented stopping rule is
    eval_cg_tolerance = 1e-2 (relative residual); symmetric / PSD / prior - posterior are held to 1e-2 * scale there (own key family).
  * float32 model (one family): consistency tolerances 1e-5 relative, the floor itself compared at (1 - 1e-6) (float32 rounding of the floor).
  * KISS-GP / SGPR / RFF are approximations of the *kernel*; the posterior they hand out must still be a valid covariance, so no looser
    tolerance is used for them.  For SGPR the prior used in "prior - posterior" is the base kernel (the class documents that the predictive
    covariance is K** - correction with the exact K**).
  * fast_pred_var(True) (LOVE) is held to the same 1e-6: with n <= 10 < max_root_decomposition_size the Lanczos decomposition is complete.
Skipped: keops kernels (need KeOps), MultiDeviceKernel (needs CUDA), GaussianSymmetrizedKLKernel (exp(-a * symmetrised KL) is not positive
definite in general and the class does not document a domain on which it is), DistributionalInputKernel is run with a squared Euclidean
distance (positive definite); CosineKernel only d = 1; CylindricalKernel only inside the unit ball; HammingIMQKernel only on one-hot rows
(duplicated rows, no "nearly coincident" ones: the domain is discrete); GridKernel only on its own grid (its documented domain).
CIQ: only the variance floor / finiteness (contour-integral quadrature + msMINRES is an approximation without a documented error bound).
"""
from __future__ import annotations

import math
import os
import time
import warnings


def run(tier="quick", seed=0, only=None):
    import torch
    import gpytorch
    from gpytorch import kernels as GK
    from gpytorch.distributions import MultivariateNormal as MVN, MultitaskMultivariateNormal as MT
    from engine.runner import classify_replay_exception

    warnings.filterwarnings("ignore")
    t0 = time.time()
    torch.manual_seed(seed)
    gen = torch.Generator().manual_seed(seed)
    D = torch.float64
    settings = gpytorch.settings
    thorough = tier != "quick"
    NDRAW = 6 if thorough else 3
    ev, seen, violations, samples, skipped = 0, set(), [], [], []
    NSAMPLES = 10 ** 9 if os.environ.get("C07_DEBUG") else 3  # debugging aid: keep every record in "samples"

    def rec(key, ok, detail="", inp=None):
        nonlocal ev
        ev += 1
        seen.add(key)
        if len(samples) < NSAMPLES:
            samples.append({"case": key, "ok": bool(ok), "detail": str(detail)[:160]})
        if not ok and not any(v["key"] == key for v in violations):
            violations.append({"key": key, "input": inp if inp is not None else {"case": key}, "detail": str(detail), "entry": None})

    def guarded(key, fn, inp=None):
        """run fn (which calls gpytorch and records comparisons); an exception with a frame inside the code under test is a violation of
        `key`; any other exception is a harness / dependency problem and is listed in the result under 'skipped' (never swallowed)"""
        try:
            return fn()
        except Exception as e:  # noqa: BLE001
            r = classify_replay_exception(e)
            if r.get("violates"):
                rec(key + "/raises", False, r["detail"][:700], inp)
            else:
                skipped.append({"key": key, "reason": r["detail"][-900:]})
            return None

    # ------------------------------------------------------------------ own helpers
    def U(lo, hi, *shape):
        return lo + (hi - lo) * torch.rand(*shape, dtype=D, generator=gen)

    def LU(lo, hi, *shape):
        return torch.exp(U(math.log(lo), math.log(hi), *shape))

    def N(*shape):
        return torch.randn(*shape, dtype=D, generator=gen)

    def tl(t):
        return t.detach().tolist() if torch.is_tensor(t) else t

    def fin(*ts):
        return all(bool(torch.isfinite(t).all()) and not torch.is_complex(t) for t in ts)

    def dense(M):
        M = M.to_dense() if not torch.is_tensor(M) else M
        return M.detach().to(D)

    def mineig(M):
        S = 0.5 * (M + M.transpose(-1, -2))
        return float(torch.linalg.eigvalsh(S).min()) if S.numel() else 0.0

    def psd(key, M, inp, tol, scale=None, sym=True):
        """symmetric and positive semi-definite up to tol * scale"""
        M = dense(M)
        if not fin(M):
            rec(key + "/psd", False, f"non-finite entries ({int((~torch.isfinite(M)).sum())} of {M.numel()})", inp)
            return
        sc = scale if scale is not None else max(float(M.abs().max()) if M.numel() else 0.0, 1e-300)
        if sym:
            asym = float((M - M.transpose(-1, -2)).abs().max()) if M.numel() else 0.0
            rec(key + "/symmetric", asym <= tol * sc, f"max |M - M^T| = {asym:.3e}, scale {sc:.3e}, tol {tol:g} * scale", inp)
        me = mineig(M)
        rec(key + "/psd", me >= -tol * sc, f"smallest eigenvalue of (M + M^T)/2 = {me:.6e}, scale {sc:.3e}, tol {tol:g} * scale", inp)

    def var_checks(key, dist, inp, vmin=None):
        """variance / stddev / confidence_region of a returned distribution: real, finite, >= the configured minimum variance"""
        dt = dist.mean.dtype
        vmin = settings.min_variance.value(dt) if vmin is None else vmin
        var = dist.variance.detach()
        sd = dist.stddev.detach()
        lo, hi = dist.confidence_region()
        lo, hi, mean = lo.detach(), hi.detach(), dist.mean.detach()
        ok_shape = var.shape == mean.shape and sd.shape == mean.shape and lo.shape == mean.shape and hi.shape == mean.shape
        dbl = var.dtype == torch.float64 and mean.dtype == torch.float64
        rt, at = (1e-9, 1e-14) if dbl else (1e-5, 1e-6)  # consistency tolerances follow the dtype the distribution computes in
        rec(key + "/variance_ge_min", ok_shape and fin(var) and bool((var >= vmin * (1 - 1e-12)).all()),
            f"min variance reported {float(var.min()) if var.numel() else 0.0:.6e} (finite: {fin(var)}, shape {tuple(var.shape)} vs mean {tuple(mean.shape)}), "
            f"configured min_variance {vmin:g}", inp)
        rec(key + "/stddev_ge_sqrt_min", ok_shape and fin(sd) and bool((sd >= math.sqrt(vmin) * (1 - 1e-12)).all())
            and bool(((sd * sd - var).abs() <= rt * (var.abs() + vmin)).all()),
            f"min stddev {float(sd.min()) if sd.numel() else 0.0:.6e} vs sqrt(min_variance) {math.sqrt(vmin):.6e}; max |stddev^2 - variance| = "
            f"{float((sd * sd - var).abs().max()) if sd.numel() else 0.0:.3e}", inp)
        rec(key + "/variance_dtype", var.dtype == mean.dtype and sd.dtype == mean.dtype,
            f"variance dtype {var.dtype}, stddev dtype {sd.dtype}, mean dtype {mean.dtype} (the min_variance floor is chosen by the variance dtype)", inp)
        if not isinstance(dist, MT) and var.dtype == mean.dtype:
            dg = dist.lazy_covariance_matrix.diagonal(dim1=-1, dim2=-2).detach().to(var.dtype).expand(var.shape) if ok_shape else None
            rec(key + "/variance_is_clamped_diagonal", ok_shape and bool(((var - dg.clamp_min(vmin)).abs() <= rt * (var.abs() + vmin)).all()),
                f"max |variance - max(diag(covariance), min_variance)| = {float((var - dg.clamp_min(vmin)).abs().max()) if ok_shape and var.numel() else float('nan'):.3e}", inp)
        width = hi - lo
        slack = at * (1 + mean.abs())  # upper - lower is formed from mean +- 2 stddev: rounding relative to |mean|
        rec(key + "/confidence_region", ok_shape and fin(lo, hi) and bool((width >= 4 * math.sqrt(vmin) * (1 - 1e-12) - slack).all())
            and bool(((0.5 * (lo + hi) - mean).abs() <= rt * (1 + mean.abs() + width)).all())
            and bool(((width - 4 * sd).abs() <= rt * width.abs() + slack).all()),
            f"min (upper - lower) = {float(width.min()) if width.numel() else 0.0:.6e} vs 4 sqrt(min_variance) = {4 * math.sqrt(vmin):.6e}; "
            f"max |upper - lower - 4 stddev| = {float((width - 4 * sd).abs().max()) if width.numel() else 0.0:.3e}", inp)

    def rows(xb, d, lo=0.0, hi=1.0, n=5):
        """n random rows + a duplicate of row 0 + a row 1e-9 * range away from row 1 + a row 1e-6 * range away from row 2"""
        base = U(lo, hi, *xb, n, d)
        dirs = N(*xb, 2, d)
        dirs = dirs / dirs.norm(dim=-1, keepdim=True)
        ext = torch.cat([base[..., 0:1, :], base[..., 1:2, :] + 1e-9 * (hi - lo) * dirs[..., 0:1, :],
                         base[..., 2:3, :] + 1e-6 * (hi - lo) * dirs[..., 1:2, :]], -2)
        return torch.cat([base, ext], -2)

    REG = {"short": (0.02, 0.1), "unit": (0.5, 2.0), "long": (10.0, 50.0)}

    def randomize(k, regime):
        """random hyper-parameters: every raw parameter ~ 1.5 * N(0, 1) through its constraint, every lengthscale log-uniform in the regime"""
        with torch.no_grad():
            for _, p in k.named_parameters():
                p.copy_(1.5 * torch.randn(p.shape, generator=gen, dtype=D).to(p.dtype))
            for m in k.modules():
                if getattr(m, "has_lengthscale", False):
                    m.lengthscale = LU(*REG[regime], *m.lengthscale.shape).to(m.lengthscale.dtype)
        return k

    def raw_params(k):
        return {n_: tl(p) for n_, p in k.named_parameters()}

    # ================================================================== 1. Gram matrices of kernels
    def sec_kernels():
        B = torch.Size
        TOL = 1e-8

        def unit_ball(xb, d, n=5):
            dirs = N(*xb, n, d)
            dirs = dirs / dirs.norm(dim=-1, keepdim=True)
            base = dirs * U(0.1, 0.9, *xb, n, 1)
            pert = N(*xb, 2, d)
            pert = pert / pert.norm(dim=-1, keepdim=True)
            ext = torch.cat([base[..., 0:1, :], base[..., 1:2, :] + 1e-9 * pert[..., 0:1, :], base[..., 2:3, :] + 1e-6 * pert[..., 1:2, :]], -2)
            return torch.cat([base, ext], -2)

        def onehot(xb, T=3, V=4, n=6):
            t = torch.randint(0, V, (*xb, n, T), generator=gen)
            t = torch.cat([t, t[..., 0:2, :]], -2)  # duplicated sequences
            return torch.nn.functional.one_hot(t, V).reshape(*t.shape[:-1], T * V).to(D)

        def ard(d, on):
            return {"ard_num_dims": d} if on else {}

        fams = []  # (name, dims, build(d, kb), inputs(xb, d), batchable)

        def add(name, dims, build, inputs=None, batch=True):
            fams.append((name, dims, build, inputs or (lambda xb, d: rows(xb, d)), batch))

        for a in (False, True):
            tag = "ard" if a else "iso"
            add(f"RBFKernel/{tag}", (1, 3), lambda d, kb, a=a: GK.RBFKernel(batch_shape=B(kb), **ard(d, a)))
            for nu in (0.5, 1.5, 2.5):
                add(f"MaternKernel/nu{nu}/{tag}", (1, 3), lambda d, kb, a=a, nu=nu: GK.MaternKernel(nu=nu, batch_shape=B(kb), **ard(d, a)))
            add(f"RQKernel/{tag}", (1, 3), lambda d, kb, a=a: GK.RQKernel(batch_shape=B(kb), **ard(d, a)))
            add(f"PeriodicKernel/{tag}", (1, 3), lambda d, kb, a=a: GK.PeriodicKernel(batch_shape=B(kb), **ard(d, a)))
            add(f"LinearKernel/{tag}", (1, 3), lambda d, kb, a=a: GK.LinearKernel(batch_shape=B(kb), **ard(d, a)), lambda xb, d: rows(xb, d, -2.0, 2.0))
        for q in (0, 1, 2, 3):
            add(f"PiecewisePolynomialKernel/q{q}", (1, 2, 3), lambda d, kb, q=q: GK.PiecewisePolynomialKernel(q=q, batch_shape=B(kb), ard_num_dims=d))
        add("CosineKernel", (1,), lambda d, kb: GK.CosineKernel(batch_shape=B(kb)))
        for p in (1, 2, 3):
            add(f"PolynomialKernel/power{p}", (1, 3), lambda d, kb, p=p: GK.PolynomialKernel(power=p, batch_shape=B(kb)), lambda xb, d: rows(xb, d, -2.0, 2.0))
        add("ConstantKernel", (2,), lambda d, kb: GK.ConstantKernel(batch_shape=B(kb)))
        add("ScaleKernel(RBFKernel)", (2,), lambda d, kb: GK.ScaleKernel(GK.RBFKernel(batch_shape=B(kb)), batch_shape=B(kb)))
        add("AdditiveKernel(RBF,Matern0.5*Periodic)", (2,), lambda d, kb: GK.AdditiveKernel(
            GK.RBFKernel(batch_shape=B(kb)), GK.ProductKernel(GK.MaternKernel(nu=0.5, batch_shape=B(kb)), GK.PeriodicKernel(batch_shape=B(kb)))))
        add("ProductKernel(RBF,Linear,Scale(RQ))", (2,), lambda d, kb: GK.ProductKernel(
            GK.RBFKernel(batch_shape=B(kb)), GK.LinearKernel(batch_shape=B(kb)), GK.ScaleKernel(GK.RQKernel(batch_shape=B(kb)), batch_shape=B(kb))))
        add("RBF(active_dims=0)*Matern1.5(active_dims=1,2)+Scale(RBF(active_dims=2))", (3,), lambda d, kb: (
            GK.RBFKernel(active_dims=(0,), batch_shape=B(kb)) * GK.MaternKernel(nu=1.5, active_dims=(1, 2), ard_num_dims=2, batch_shape=B(kb))
            + GK.ScaleKernel(GK.RBFKernel(active_dims=(2,), batch_shape=B(kb)), batch_shape=B(kb))))
        for bname in ("matern2.5", "rbf"):
            add(f"ArcKernel/{bname}", (1, 2), lambda d, kb, bname=bname: GK.ArcKernel(
                GK.MaternKernel(nu=2.5) if bname == "matern2.5" else GK.RBFKernel(), batch_shape=B(kb), ard_num_dims=d))
        add("CylindricalKernel", (2, 3), lambda d, kb: GK.CylindricalKernel(num_angular_weights=3, radial_base_kernel=GK.RBFKernel(batch_shape=B(kb)), batch_shape=B(kb)),
            lambda xb, d: unit_ball(xb, d))
        add("CylindricalKernel/matern", (2,), lambda d, kb: GK.CylindricalKernel(num_angular_weights=4, radial_base_kernel=GK.MaternKernel(nu=1.5, batch_shape=B(kb)), batch_shape=B(kb)),
            lambda xb, d: unit_ball(xb, d))
        add("HammingIMQKernel", (12,), lambda d, kb: GK.HammingIMQKernel(vocab_size=4, batch_shape=B(kb)), lambda xb, d: onehot(xb))
        add("SpectralMixtureKernel", (1, 2), lambda d, kb: GK.SpectralMixtureKernel(num_mixtures=3, ard_num_dims=d, batch_shape=B(kb)))
        add("SpectralDeltaKernel", (1, 2), lambda d, kb: GK.SpectralDeltaKernel(num_dims=d, num_deltas=5, batch_shape=B(kb)))
        add("RFFKernel", (1, 2), lambda d, kb: GK.RFFKernel(num_samples=6, num_dims=d, batch_shape=B(kb)))
        add("DistributionalInputKernel/sqdist", (2,), lambda d, kb: GK.DistributionalInputKernel(
            distance_function=lambda u, v: (u.unsqueeze(-2) - v.unsqueeze(-3)).pow(2).sum(-1), batch_shape=B(kb)))
        for md in (None, 2, 1):
            add(f"NewtonGirardAdditiveKernel/max_degree{md}", (3,), lambda d, kb, md=md: GK.NewtonGirardAdditiveKernel(
                GK.RBFKernel(ard_num_dims=d, batch_shape=B(kb)), num_dims=d, max_degree=md, batch_shape=B(kb)))
        add("AdditiveStructureKernel(RBF)", (3,), lambda d, kb: GK.AdditiveStructureKernel(GK.RBFKernel(batch_shape=B(kb)), num_dims=d))
        add("ProductStructureKernel(Matern1.5)", (3,), lambda d, kb: GK.ProductStructureKernel(GK.MaternKernel(nu=1.5, batch_shape=B(kb)), num_dims=d))
        add("IndexKernel/rank1", (1,), lambda d, kb: GK.IndexKernel(num_tasks=4, rank=1, batch_shape=B(kb)),
            lambda xb, d: torch.randint(0, 4, (*xb, 8, 1), generator=gen))
        add("IndexKernel/rank2", (1,), lambda d, kb: GK.IndexKernel(num_tasks=4, rank=2, batch_shape=B(kb)),
            lambda xb, d: torch.randint(0, 4, (*xb, 8, 1), generator=gen))
        for rank in (0, 1, 2):
            add(f"MultitaskKernel/rank{rank}", (2,), lambda d, kb, rank=rank: GK.MultitaskKernel(GK.RBFKernel(batch_shape=B(kb)), num_tasks=3, rank=rank, batch_shape=B(kb)))
        add("LCMKernel", (2,), lambda d, kb: GK.LCMKernel([GK.RBFKernel(), GK.MaternKernel(nu=1.5)], num_tasks=3, rank=1), batch=False)
        add("RBFKernelGrad", (1, 2), lambda d, kb: GK.RBFKernelGrad(batch_shape=B(kb), ard_num_dims=d), lambda xb, d: rows(xb, d, n=3))
        add("RBFKernelGradGrad", (1, 2), lambda d, kb: GK.RBFKernelGradGrad(batch_shape=B(kb), ard_num_dims=d), lambda xb, d: rows(xb, d, n=3))
        add("Matern52KernelGrad", (1, 2), lambda d, kb: GK.Matern52KernelGrad(batch_shape=B(kb), ard_num_dims=d), lambda xb, d: rows(xb, d, n=3))
        for p in (2, 3):
            add(f"PolynomialKernelGrad/power{p}", (1, 2), lambda d, kb, p=p: GK.PolynomialKernelGrad(power=p, batch_shape=B(kb)), lambda xb, d: rows(xb, d, -2.0, 2.0, n=3))
        add("ScaleKernel(RBFKernelGrad)", (2,), lambda d, kb: GK.ScaleKernel(GK.RBFKernelGrad(batch_shape=B(kb)), batch_shape=B(kb)), lambda xb, d: rows(xb, d, n=3))
        add("GridInterpolationKernel(RBF)", (1, 2), lambda d, kb: GK.GridInterpolationKernel(
            GK.RBFKernel(batch_shape=B(kb)), grid_size=10, num_dims=d, grid_bounds=[(-0.2, 1.2)] * d), batch=False)
        add("GridInterpolationKernel(Scale(Matern2.5))", (1,), lambda d, kb: GK.GridInterpolationKernel(
            GK.ScaleKernel(GK.MaternKernel(nu=2.5)), grid_size=12, num_dims=d, grid_bounds=[(-0.2, 1.2)] * d), batch=False)
        for mode in ("train", "eval"):
            add(f"InducingPointKernel/{mode}", (1, 2), lambda d, kb, mode=mode: (lambda k: k.train() if mode == "train" else k.eval())(GK.InducingPointKernel(
                GK.ScaleKernel(GK.RBFKernel()), inducing_points=U(0, 1, 4, d), likelihood=gpytorch.likelihoods.GaussianLikelihood())), batch=False)

        def grid_inputs(xb, d):
            grid = [torch.linspace(0, 1, 4, dtype=D), torch.linspace(0, 2, 3, dtype=D)][:d]
            return gpytorch.utils.grid.create_data_from_grid(grid)

        for bname in ("rbf", "matern1.5"):
            add(f"GridKernel/{bname}", (1, 2), lambda d, kb, bname=bname: GK.GridKernel(
                GK.RBFKernel() if bname == "rbf" else GK.MaternKernel(nu=1.5),
                [torch.linspace(0, 1, 4, dtype=D), torch.linspace(0, 2, 3, dtype=D)][:d]), grid_inputs, batch=False)

        # deterministic scan (independent of the seed): kernels with a kink at distance 0 on fixed inputs with a duplicated row and rows 1e-9 / 1e-6 away from another row, through the custom Function and the generic
        # autograd branch (x.requires_grad): the diagonal goes through sqrt(squared distance from the quadratic expansion)
        xfix = torch.tensor([[0.37, 0.81, 0.52], [0.93, 0.15, 0.64], [0.08, 0.49, 0.77], [0.61, 0.33, 0.21]], dtype=D)
        xfix = torch.cat([xfix, xfix[0:1], xfix[1:2] + 1e-9 * torch.tensor([0.6, -0.48, 0.64], dtype=D), xfix[2:3] + 1e-6 * torch.tensor([0.0, 0.8, -0.6], dtype=D)], -2)
        for kn, kf in (("PiecewisePolynomialKernel/q0", lambda: GK.PiecewisePolynomialKernel(q=0)), ("MaternKernel/nu0.5", lambda: GK.MaternKernel(nu=0.5))):
            for call in ("k(x)", "k(x.requires_grad_())"):
                key = f"gram_scan/{kn}/d3/coincident_rows/lengthscale_0.02..0.1/{call}"
                worst, worst_ls = 0.0, None

                def scan(kf=kf, call=call):
                    nonlocal worst, worst_ls
                    for i in range(41):
                        ls = 0.02 + 0.002 * i
                        k = kf().double()
                        k.lengthscale = ls
                        if call == "k(x)":
                            with torch.no_grad():
                                K = k(xfix).to_dense()
                        else:
                            K = k(xfix.clone().requires_grad_(True)).to_dense().detach()
                        me = mineig(K) / max(float(K.abs().max()), 1e-300)
                        if me < worst:
                            worst, worst_ls = me, ls
                    rec(key, worst >= -TOL, f"smallest eigenvalue / scale over 41 lengthscales = {worst:.6e} (at lengthscale {worst_ls}), tol {TOL:g}",
                        {"kernel": kn, "x": tl(xfix), "lengthscale": worst_ls, "call": call})
                guarded(key, scan, {"kernel": kn, "x": tl(xfix)})

        # deterministic scan: distance-based kernels on inputs FAR from the origin (clustered within one unit, with a duplicate and 1e-9 / 1e-6 neighbours, shifted by a
        # large offset -- years, millimetres, timestamps): the Gram matrix must stay symmetric PSD up to rounding and agree with the matrix computed from explicit
        # pairwise differences (the quadratic expansion of the squared distance cancels catastrophically unless the inputs are centred first)
        xoff = torch.cat([xfix[:, :2], xfix[0:1, :2] + 0.5, xfix[1:2, :2] * 0.3], -2)
        for off in ((5e4,) if not thorough else (2e3, 5e4, 1e6)):
            for kn, kf, ref in (("RBFKernel", lambda: GK.RBFKernel(), lambda r2: torch.exp(-0.5 * r2)),
                                ("RQKernel", lambda: GK.RQKernel(), None),
                                ("MaternKernel/nu2.5", lambda: GK.MaternKernel(nu=2.5), lambda r2: (1 + (5 * r2).sqrt() + 5 * r2 / 3) * torch.exp(-(5 * r2).sqrt())),
                                ("ScaleKernel(RBFKernel)/ard", lambda: GK.ScaleKernel(GK.RBFKernel(ard_num_dims=2)), None)):
                key = f"gram_far_from_origin/{kn}/d2/offset{off:g}"

                def far(kn=kn, kf=kf, ref=ref, off=off, key=key):
                    k = kf().double()
                    for m_ in k.modules():
                        if getattr(m_, "has_lengthscale", False):
                            m_.lengthscale = 0.6
                    x = xoff + off
                    with torch.no_grad():
                        K = k(x).to_dense()
                    sc = max(float(K.abs().max()), 1e-300)
                    me = mineig(K) / sc
                    asym = float((K - K.transpose(-1, -2)).abs().max()) / sc
                    detail = f"smallest eigenvalue / scale = {me:.3e}, asymmetry / scale = {asym:.1e}"
                    ok = me >= -TOL and asym <= TOL
                    if ref is not None:
                        diff = (xoff.unsqueeze(-2) - xoff.unsqueeze(-3)) / 0.6
                        Kr = ref(diff.pow(2).sum(-1))
                        err = float((K - Kr).abs().max())
                        ok = ok and err <= 1e-7
                        detail += f", max |K - K(pairwise differences)| = {err:.2e}"
                    rec(key, ok, detail + f", tol {TOL:g}", {"kernel": kn, "x": tl(x), "lengthscale": 0.6, "offset": off})
                guarded(key, far, {"kernel": kn, "offset": off})

        for name, dims, build, inputs, batchable in fams:
            for d in dims:
                for kb in ((), (2,)) if batchable else ((),):
                    if kb and not thorough and d != dims[0]:
                        continue
                    for regime in REG:
                        for draw in range(NDRAW):
                            key = f"gram/{name}/d{d}/batch{list(kb)}/{regime}"
                            try:
                                mode_before = None
                                k = build(d, kb)
                                mode_before = k.training
                                k = k.double()
                                randomize(k, regime)
                                k.train(mode_before)
                                x = inputs(kb, d)
                            except Exception as e:  # noqa: BLE001
                                r = classify_replay_exception(e)
                                if r.get("violates"):
                                    rec(key + "/construct", False, r["detail"][:700], {"kernel": name, "d": d, "batch": list(kb)})
                                else:
                                    skipped.append({"key": key, "reason": r["detail"][-900:]})
                                break
                            inp = {"kernel": name, "d": d, "kernel_batch_shape": list(kb), "regime": regime, "raw_parameters": raw_params(k), "x": tl(x),
                                   "rows": "last three rows: copy of row 0, row 1 + 1e-9 * range, row 2 + 1e-6 * range"}
                            for call in ("k(x)", "k(x,x.clone())", "k(x.requires_grad_())"):
                                if call == "k(x.requires_grad_())" and not x.is_floating_point():
                                    continue

                                def go(call=call):
                                    if call == "k(x.requires_grad_())":  # generic autograd branch of RBF / Matern (no custom Function)
                                        K = k(x.clone().requires_grad_(True)).to_dense().detach()
                                    else:
                                        with torch.no_grad():
                                            K = (k(x) if call == "k(x)" else k(x, x.clone())).to_dense()
                                    psd(f"{key}/{call}", K, dict(inp, call=call), TOL)
                                guarded(f"gram/{name}/d{d}/batch{list(kb)}", go, dict(inp, call=call))

    # ================================================================== shared model pieces
    class GP(gpytorch.models.ExactGP):
        def __init__(self, x, y, lik, kernel, mean=None):
            super().__init__(x, y, lik)
            self.mean_module = mean if mean is not None else gpytorch.means.ConstantMean()
            self.covar_module = kernel

        def forward(self, x):
            return MVN(self.mean_module(x), self.covar_module(x))

    def noise_added(key, marg, latent, lower, inp, expect=None):
        """marginal covariance - latent covariance is what the likelihood added: diagonal >= lower bound (and PSD)"""
        Mm, Ml = dense(marg.lazy_covariance_matrix), dense(latent.lazy_covariance_matrix)
        A = Mm - Ml
        sc = max(float(Mm.abs().max()), 1e-300)
        dg = A.diagonal(dim1=-1, dim2=-2)
        slack = 1e-9 * sc
        rec(key + "/added_noise_ge_lower_bound", fin(A) and bool((dg >= lower * (1 - 1e-6) - slack).all()),
            f"min added diagonal {float(dg.min()):.6e} vs lower bound {lower:g} (slack {slack:.1e}: cancellation in marginal - latent)", inp)
        psd(key + "/added_noise", A, inp, 1e-6, scale=sc, sym=True)
        if expect is not None:
            rec(key + "/added_noise_value", bool(((dg - expect).abs() <= 1e-6 * (expect.abs() + sc * 1e-3)).all()),
                f"added diagonal {tl(dg)[:6] if dg.dim() == 1 else '...'} vs noise parameters {tl(expect)[:6] if torch.is_tensor(expect) and expect.dim() == 1 else '...'}", inp)

    # ================================================================== 2. exact GPs
    def sec_exact():
        TOL = 1e-6

        def kernel_factories(d):
            f = {
                "Scale(RBF)": lambda: GK.ScaleKernel(GK.RBFKernel(ard_num_dims=d)),
                "Scale(Matern0.5)": lambda: GK.ScaleKernel(GK.MaternKernel(nu=0.5)),
                "RBF+Linear": lambda: GK.RBFKernel() + GK.LinearKernel(),
                "Periodic*RBF": lambda: GK.ScaleKernel(GK.PeriodicKernel() * GK.RBFKernel()),
                "Linear": lambda: GK.LinearKernel(),
                "RFF": lambda: GK.ScaleKernel(GK.RFFKernel(num_samples=5, num_dims=d)),
                "SGPR": lambda: GK.InducingPointKernel(GK.ScaleKernel(GK.RBFKernel()), inducing_points=U(0, 1, 4, d), likelihood=None),
                "KISS": lambda: GK.ScaleKernel(GK.GridInterpolationKernel(GK.RBFKernel(), grid_size=12, num_dims=d, grid_bounds=[(-0.3, 1.3)] * d)),
            }
            if d == 1:
                f["SpectralMixture"] = lambda: GK.SpectralMixtureKernel(num_mixtures=2, ard_num_dims=1)
            return f

        def make(kname, d, lname, regime, X, y, noise_level):
            kern = kernel_factories(d)[kname]()
            if lname == "gaussian":
                lik = gpytorch.likelihoods.GaussianLikelihood()
            else:
                tr_noise = LU(1e-6, 1e-2, X.shape[-2])
                tr_noise[0] = 1e-9  # below the double min_fixed_noise 1e-6: must be clamped
                lik = gpytorch.likelihoods.FixedNoiseGaussianLikelihood(noise=tr_noise, learn_additional_noise=(lname == "fixed+learned"))
            if kname == "SGPR":
                kern.likelihood = lik
            m = GP(X, y, lik, kern).double()
            randomize(m.covar_module, regime)
            with torch.no_grad():
                m.mean_module.constant.fill_(0.3)
                if lname == "gaussian":
                    lik.noise = torch.tensor([noise_level], dtype=D)
                elif lname == "fixed+learned":
                    lik.second_noise = torch.tensor([noise_level], dtype=D)
            return m, lik

        def snapshot(m, lik):
            return {"raw_parameters": {n_: tl(p) for n_, p in m.named_parameters()},
                    "fixed_noise": tl(lik.noise) if isinstance(lik, gpytorch.likelihoods.FixedNoiseGaussianLikelihood) else None}

        def clone_state(kname, d, lname, regime, X, y, noise_level, state, fixed_noise):
            m, lik = make(kname, d, lname, regime, X, y, noise_level)
            if fixed_noise is not None:
                lik.noise_covar.noise = fixed_noise[..., : X.shape[-2]].clone()
            sd = {k_: v for k_, v in state.items() if not k_.endswith("noise_covar.noise")}
            m.load_state_dict(sd, strict=False)
            return m, lik

        nseq = (3, 5, 7, 10) if not thorough else (2, 3, 5, 6, 8, 10)
        configs = []
        for d in (1, 2):
            for kname in kernel_factories(d):
                if d == 2 and kname in ("Periodic*RBF", "Linear", "Scale(Matern0.5)") and not thorough:
                    continue
                for lname in ("gaussian", "fixed", "fixed+learned"):
                    if lname == "fixed+learned" and not (thorough or kname == "Scale(RBF)"):
                        continue
                    for regime in ("unit", "long", "short"):
                        if regime == "short" and not (thorough or kname in ("Scale(RBF)", "KISS", "SGPR")):
                            continue
                        for noise_level in ((1e-4, 1e-2, 1.0) if lname != "fixed" else (None,)):
                            if noise_level == 1.0 and not (thorough or kname == "Scale(RBF)"):
                                continue
                            configs.append((kname, d, lname, regime, noise_level))

        for kname, d, lname, regime, noise_level in configs:
            cfg = f"exact/{kname}/d{d}/{lname}/{regime}/noise{noise_level:g}" if noise_level is not None else f"exact/{kname}/d{d}/{lname}/{regime}"
            for draw in range(1 if not thorough else 2):
                X = rows((), d, n=7)  # 10 rows: duplicates / nearly coincident rows at the end
                perm = torch.randperm(10, generator=gen)
                X = X[perm]
                y = torch.sin(5 * X.sum(-1)) + 0.1 * N(10)
                Xs = torch.cat([U(0, 1, 4, d), X[:2], U(0, 1, 1, d).expand(2, d)], -2)  # 4 new, 2 training points, 1 duplicated pair
                built = guarded(cfg + "/construct", lambda: make(kname, d, lname, regime, X, y, noise_level), {"config": cfg})
                if built is None:
                    continue
                m0, l0 = built
                state = {k_: v.clone() for k_, v in m0.state_dict().items()}
                fixed_noise = l0.noise.detach().clone() if lname != "gaussian" else None
                test_noise = LU(1e-6, 1e-2, Xs.shape[-2]) if lname != "gaussian" else None
                inp = {"config": cfg, "kernel": kname, "likelihood": lname, "train_x": tl(X), "train_y": tl(y), "test_x": tl(Xs), "test_noise": tl(test_noise), **snapshot(m0, l0)}

                # prior in train mode
                def prior_train():
                    m0.train(); l0.train()
                    with torch.no_grad():
                        out = m0(X)
                        psd(cfg + "/prior_train", out.lazy_covariance_matrix, inp, TOL)
                        var_checks(cfg + "/prior_train", out, inp)
                        marg = l0(out)
                        psd(cfg + "/marginal_train", marg.lazy_covariance_matrix, inp, TOL)
                guarded(cfg + "/prior_train", prior_train, inp)

                for fpv in (False, True):
                    ftag = "fast_pred_var" if fpv else "exact_pred_var"
                    for vmin, tx in ((None, "mixed"), (1e-3, "mixed"), (0.5, "mixed"), (None, "train")):
                        if vmin is not None and (fpv or not (thorough or kname in ("Scale(RBF)", "SGPR", "KISS", "RFF"))):
                            continue
                        vtag = ("" if vmin is None else f"/min_variance{vmin:g}") + ("" if tx == "mixed" else "/test_equals_train")

                        def posterior(fpv=fpv, ftag=ftag, vmin=vmin, vtag=vtag, tx=tx):
                            m, lik = clone_state(kname, d, lname, regime, X, y, noise_level, state, fixed_noise)
                            m.eval(); lik.eval()
                            Xt = Xs if tx == "mixed" else X.clone()  # "train": the test inputs ARE the training inputs (edge-case branches of SGPR / KISS)
                            tn = test_noise if tx == "mixed" else (LU(1e-6, 1e-2, X.shape[-2]) if lname != "gaussian" else None)
                            ctx = settings.min_variance(double_value=vmin) if vmin is not None else settings.min_variance(double_value=settings.min_variance.value(D))
                            st = {"fast_pred_var": fpv, "min_variance": vmin, "test_inputs": "test_x" if tx == "mixed" else "train_x", "test_noise": tl(tn)}
                            with torch.no_grad(), settings.fast_pred_var(fpv), ctx:
                                post = m(Xt)
                                base = cfg + "/" + ftag + vtag
                                var_checks(base + "/posterior", post, dict(inp, settings=st), vmin)
                                marg = lik(post, noise=tn) if lname != "gaussian" else lik(post)
                                var_checks(base + "/marginal", marg, dict(inp, settings=st), vmin)
                                if vmin is not None:
                                    return
                                C = dense(post.lazy_covariance_matrix)
                                pk = m.covar_module.base_kernel if kname == "SGPR" else m.covar_module
                                P = dense(pk(Xt))  # the model's own kernel on the test inputs: the prior
                                sc = max(float(P.abs().max()), 1e-300)
                                i2 = dict(inp, settings=st)
                                psd(base + "/posterior", C, i2, TOL, scale=sc)
                                psd(base + "/prior_minus_posterior", P - C, i2, TOL, scale=sc)
                                psd(base + "/marginal", marg.lazy_covariance_matrix, i2, TOL)
                                if lname == "gaussian":
                                    noise_added(base, marg, post, 1e-4, i2, expect=lik.noise.detach().expand(Xt.shape[-2]))
                                elif lname == "fixed":
                                    noise_added(base, marg, post, float(tn.min()), i2, expect=tn)
                                else:
                                    noise_added(base, marg, post, float(tn.min()) + 1e-4, i2, expect=tn + lik.second_noise.detach())
                        guarded(cfg + "/" + ftag + vtag, posterior, inp)

                # skip_posterior_variances(True): the (zero) covariance handed out still has to report variances >= the configured minimum
                if kname in ("Scale(RBF)", "RFF", "KISS") and lname == "gaussian" and regime == "unit" and noise_level == 1e-2 and d == 1:
                    for vmin in (None, 1e-3):
                        vtag = "default" if vmin is None else f"{vmin:g}"

                        def skipvar(vmin=vmin, vtag=vtag):
                            m, lik = clone_state(kname, d, lname, regime, X, y, noise_level, state, fixed_noise)
                            m.eval(); lik.eval()
                            ctx = settings.min_variance(double_value=vmin if vmin is not None else settings.min_variance.value(D))
                            with torch.no_grad(), settings.skip_posterior_variances(True), ctx:
                                post = m(Xs)
                                var_checks(f"{cfg}/skip_posterior_variances/min_variance_{vtag}/posterior", post,
                                           dict(inp, settings={"skip_posterior_variances": True, "min_variance(double)": vmin}), vmin)
                        guarded(f"{cfg}/skip_posterior_variances/min_variance_{vtag}", skipvar, inp)

                # nested training sets: the posterior variance at fixed test points never increases
                def nested():
                    prev, prev_k = None, None
                    with torch.no_grad():
                        P = dense((m0.covar_module.base_kernel if kname == "SGPR" else m0.covar_module)(Xs))
                    sc = max(float(P.abs().max()), 1e-300)
                    for k_ in nseq:
                        m, lik = clone_state(kname, d, lname, regime, X[:k_], y[:k_], noise_level, state, fixed_noise)
                        m.eval(); lik.eval()
                        with torch.no_grad(), settings.fast_pred_var(False):
                            v = dense(m(Xs).lazy_covariance_matrix).diagonal(dim1=-1, dim2=-2)
                        if prev is not None:
                            inc = float((v - prev).max())
                            rec(cfg + "/nested/variance_nonincreasing", fin(v) and inc <= TOL * sc,
                                f"training rows {prev_k} -> {k_}: largest increase of a posterior variance {inc:.6e} (scale {sc:.3e}, tol 1e-6 * scale)",
                                dict(inp, nested=[prev_k, k_]))
                        prev, prev_k = v, k_
                guarded(cfg + "/nested", nested, inp)

                # the same through get_fantasy_model (not supported by RFF / SGPR: documented NotImplementedError)
                if kname not in ("RFF", "SGPR") and lname != "fixed+learned":
                    def fantasy():
                        k_ = 6
                        m, lik = clone_state(kname, d, lname, regime, X[:k_], y[:k_], noise_level, state, fixed_noise)
                        m.eval(); lik.eval()
                        with torch.no_grad(), settings.fast_pred_var(False):
                            P = dense(m.covar_module(Xs))
                            sc = max(float(P.abs().max()), 1e-300)
                            v0 = dense(m(Xs).lazy_covariance_matrix).diagonal(dim1=-1, dim2=-2)
                            kw = {"noise": fixed_noise[k_:]} if lname != "gaussian" else {}
                            fm = m.get_fantasy_model(X[k_:], y[k_:], **kw)
                            post = fm(Xs)
                            C = dense(post.lazy_covariance_matrix)
                        i2 = dict(inp, fantasy={"base_rows": k_, "added_rows": 10 - k_})
                        inc = float((C.diagonal(dim1=-1, dim2=-2) - v0).max())
                        rec(cfg + "/fantasy/variance_nonincreasing", fin(C) and inc <= TOL * sc,
                            f"get_fantasy_model adding {10 - k_} observations: largest increase of a posterior variance {inc:.6e} (scale {sc:.3e})", i2)
                        psd(cfg + "/fantasy/posterior", C, i2, TOL, scale=sc)
                        psd(cfg + "/fantasy/prior_minus_posterior", P - C, i2, TOL, scale=sc)
                        var_checks(cfg + "/fantasy/posterior", post, i2)
                    guarded(f"exact/{kname}/d{d}/{lname}/fantasy", fantasy, inp)

        # ---- a model without training data / settings.prior_mode: what is handed out in eval mode is the prior
        for how in ("no_training_data", "prior_mode"):
            cfg = f"exact/{how}/Scale(Matern0.5)"
            Xp = rows((), 2, n=5)

            def prior_eval(how=how, cfg=cfg, Xp=Xp):
                lik = gpytorch.likelihoods.GaussianLikelihood()
                if how == "no_training_data":
                    m = GP(None, None, lik, GK.ScaleKernel(GK.MaternKernel(nu=0.5))).double()
                else:
                    m = GP(Xp[:4], torch.sin(Xp[:4].sum(-1)), lik, GK.ScaleKernel(GK.MaternKernel(nu=0.5))).double()
                randomize(m.covar_module, "unit")
                inp = {"config": cfg, "x": tl(Xp), "raw_parameters": {n_: tl(p) for n_, p in m.named_parameters()}}
                m.eval(); lik.eval()
                with torch.no_grad(), settings.prior_mode(how == "prior_mode"):
                    out = m(Xp)
                    P = dense(m.covar_module(Xp))
                    psd(cfg + "/prior", out.lazy_covariance_matrix, inp, TOL)
                    psd(cfg + "/prior_minus_handed_out", P - dense(out.lazy_covariance_matrix), inp, TOL, scale=float(P.abs().max()))
                    var_checks(cfg + "/prior", out, inp)
                    marg = lik(out)
                    psd(cfg + "/marginal", marg.lazy_covariance_matrix, inp, TOL)
                    noise_added(cfg, marg, out, 1e-4, inp)
            guarded(cfg, prior_eval, {"config": cfg})

        # ---- conjugate-gradient path (settings.max_cholesky_size(0)): an iterative approximation with the documented stopping rule
        #      eval_cg_tolerance = 1e-2 (relative residual); held to 1e-2 * scale instead of 1e-6 * scale, nothing else is relaxed
        for regime in ("short", "unit", "long"):
            for noise_level in (1e-4, 1e-2):
                cfg = f"exact/cg_path(max_cholesky_size=0)/Scale(RBF)/{regime}/noise{noise_level:g}"
                Xc = rows((), 1, n=7)
                yc = torch.sin(5 * Xc.sum(-1)) + 0.1 * N(10)
                Xsc = torch.cat([U(0, 1, 4, 1), Xc[:2]], -2)

                def cg(regime=regime, noise_level=noise_level, cfg=cfg, Xc=Xc, yc=yc, Xsc=Xsc):
                    lik = gpytorch.likelihoods.GaussianLikelihood()
                    m = GP(Xc, yc, lik, GK.ScaleKernel(GK.RBFKernel())).double()
                    randomize(m.covar_module, regime)
                    with torch.no_grad():
                        lik.noise = torch.tensor([noise_level], dtype=D)
                    inp = {"config": cfg, "train_x": tl(Xc), "train_y": tl(yc), "test_x": tl(Xsc), "raw_parameters": {n_: tl(p) for n_, p in m.named_parameters()},
                           "settings": {"max_cholesky_size": 0, "fast_pred_var": False}}
                    m.eval(); lik.eval()
                    with torch.no_grad(), settings.max_cholesky_size(0), settings.fast_pred_var(False):
                        post = m(Xsc)
                        C = dense(post.lazy_covariance_matrix)
                        P = dense(m.covar_module(Xsc))
                        sc = float(P.abs().max())
                        psd(cfg + "/posterior", C, inp, 1e-2, scale=sc)
                        psd(cfg + "/prior_minus_posterior", P - C, inp, 1e-2, scale=sc)
                        var_checks(cfg + "/posterior", post, inp)
                guarded(cfg, cg, {"config": cfg})

        # ---- float32 model: the float floor (default 1e-6, and 1e-2) applies; test points at / next to training points, noise at its bound
        for regime in ("unit", "long"):
            for vmin in (None, 1e-2):
                cfg = f"exact/float32/Scale(RBF)/{regime}/min_variance_{'default' if vmin is None else format(vmin, 'g')}"
                Xf = rows((), 1, n=7).float()
                yf = torch.sin(5 * Xf.sum(-1))
                Xsf = torch.cat([Xf[:4], U(0, 1, 3, 1).float()], -2)

                def f32(regime=regime, vmin=vmin, cfg=cfg, Xf=Xf, yf=yf, Xsf=Xsf):
                    lik = gpytorch.likelihoods.GaussianLikelihood()
                    m = GP(Xf, yf, lik, GK.ScaleKernel(GK.RBFKernel()))
                    randomize(m.covar_module, regime)
                    with torch.no_grad():
                        lik.noise = torch.tensor([1e-4])
                    inp = {"config": cfg, "dtype": "float32", "train_x": tl(Xf), "train_y": tl(yf), "test_x": tl(Xsf),
                           "raw_parameters": {n_: tl(p) for n_, p in m.named_parameters()}, "settings": {"min_variance(float)": vmin}}
                    m.eval(); lik.eval()
                    fl = vmin if vmin is not None else settings.min_variance.value(torch.float32)
                    with torch.no_grad(), settings.min_variance(float_value=fl):
                        post = m(Xsf)
                        var_checks(cfg + "/posterior", post, inp, fl * (1 - 1e-6))  # float32 rounding of the floor itself
                        var_checks(cfg + "/marginal", lik(post), inp, fl * (1 - 1e-6))
                guarded(cfg, f32, {"config": cfg})

        # ---- batched exact GP (batch of 2 independent data sets, batched kernel and likelihood)
        for regime in ("unit", "long"):
            cfg = f"exact/batched/Scale(RBF)/batch[2]/{regime}"
            Xb = rows((2,), 1, n=5)
            yb = torch.sin(5 * Xb.sum(-1)) + 0.1 * N(2, 8)
            Xsb = torch.cat([U(0, 1, 2, 3, 1), Xb[:, :2]], -2)

            def batched():
                lik = gpytorch.likelihoods.GaussianLikelihood(batch_shape=torch.Size([2]))
                kern = GK.ScaleKernel(GK.RBFKernel(batch_shape=torch.Size([2])), batch_shape=torch.Size([2]))
                m = GP(Xb, yb, lik, kern, gpytorch.means.ConstantMean(batch_shape=torch.Size([2]))).double()
                randomize(m.covar_module, regime)
                with torch.no_grad():
                    lik.noise = torch.tensor([[1e-4], [3e-2]], dtype=D)
                inp = {"config": cfg, "train_x": tl(Xb), "train_y": tl(yb), "test_x": tl(Xsb), "raw_parameters": {n_: tl(p) for n_, p in m.named_parameters()}}
                m.eval(); lik.eval()
                for fpv in (False, True):
                    ftag = "fast_pred_var" if fpv else "exact_pred_var"
                    m.train(); m.eval()
                    with torch.no_grad(), settings.fast_pred_var(fpv):
                        post = m(Xsb)
                        C = dense(post.lazy_covariance_matrix)
                        P = dense(m.covar_module(Xsb))
                        marg = lik(post)
                    sc = max(float(P.abs().max()), 1e-300)
                    psd(f"{cfg}/{ftag}/posterior", C, inp, TOL, scale=sc)
                    psd(f"{cfg}/{ftag}/prior_minus_posterior", P - C, inp, TOL, scale=sc)
                    psd(f"{cfg}/{ftag}/marginal", marg.lazy_covariance_matrix, inp, TOL)
                    var_checks(f"{cfg}/{ftag}/posterior", post, inp)
                    var_checks(f"{cfg}/{ftag}/marginal", marg, inp)
                    noise_added(f"{cfg}/{ftag}", marg, post, 1e-4, inp)
            guarded(cfg, batched, {"config": cfg})

        # ---- multitask exact GP
        for rank in (0, 1):
            for regime in ("unit", "long"):
                cfg = f"exact/multitask/MultitaskKernel(RBF,rank{rank})/{regime}"
                T = 3
                Xm = rows((), 1, n=4)
                Ym = torch.stack([torch.sin(4 * Xm[:, 0]), torch.cos(4 * Xm[:, 0]), Xm[:, 0]], -1) + 0.1 * N(7, T)
                Xsm = torch.cat([U(0, 1, 3, 1), Xm[:2]], -2)

                class MTGP(gpytorch.models.ExactGP):
                    def __init__(self, x, y, lik):
                        super().__init__(x, y, lik)
                        self.mean_module = gpytorch.means.MultitaskMean(gpytorch.means.ConstantMean(), num_tasks=T)
                        self.covar_module = GK.MultitaskKernel(GK.RBFKernel(), num_tasks=T, rank=rank)

                    def forward(self, x):
                        return MT(self.mean_module(x), self.covar_module(x))

                def multitask():
                    lik = gpytorch.likelihoods.MultitaskGaussianLikelihood(num_tasks=T, rank=rank)
                    m = MTGP(Xm, Ym, lik).double()
                    randomize(m.covar_module, regime)
                    with torch.no_grad():
                        for _, p in lik.named_parameters():
                            p.copy_(torch.randn(p.shape, generator=gen, dtype=D) - 3.0)
                    inp = {"config": cfg, "train_x": tl(Xm), "train_y": tl(Ym), "test_x": tl(Xsm),
                           "raw_parameters": {n_: tl(p) for n_, p in m.named_parameters()}}
                    m.train(); lik.train()
                    with torch.no_grad():
                        pr = m(Xm)
                        psd(cfg + "/prior_train", pr.lazy_covariance_matrix, inp, TOL)
                        psd(cfg + "/marginal_train", lik(pr).lazy_covariance_matrix, inp, TOL)
                    for fpv in (False, True):
                        ftag = "fast_pred_var" if fpv else "exact_pred_var"
                        m.train(); m.eval(); lik.eval()
                        with torch.no_grad(), settings.fast_pred_var(fpv):
                            post = m(Xsm)
                            C = dense(post.lazy_covariance_matrix)
                            P = dense(m.covar_module(Xsm))
                            marg = lik(post)
                        sc = max(float(P.abs().max()), 1e-300)
                        psd(f"{cfg}/{ftag}/posterior", C, inp, TOL, scale=sc)
                        psd(f"{cfg}/{ftag}/prior_minus_posterior", P - C, inp, TOL, scale=sc)
                        psd(f"{cfg}/{ftag}/marginal", marg.lazy_covariance_matrix, inp, TOL)
                        var_checks(f"{cfg}/{ftag}/posterior", post, inp)
                        var_checks(f"{cfg}/{ftag}/marginal", marg, inp)
                        lower = 1e-4 + (1e-4 if rank == 0 else 0.0)  # global noise GreaterThan(1e-4) (+ task noises GreaterThan(1e-4) when rank = 0)
                        noise_added(f"{cfg}/{ftag}", marg, post, lower, inp)
                    for vmin in (1e-3, 0.5):
                        m.train(); m.eval()
                        with torch.no_grad(), settings.min_variance(double_value=vmin):
                            post = m(Xsm)
                            var_checks(f"{cfg}/min_variance{vmin:g}/posterior", post, dict(inp, settings={"min_variance": vmin}), vmin)
                guarded(cfg, multitask, {"config": cfg})

    # ================================================================== 3. variational models
    def sec_variational():
        TOL = 1e-6
        V = gpytorch.variational

        class SVGP(gpytorch.models.ApproximateGP):
            def __init__(self, Z, strat, dist, kernel, **skw):
                vd = dist(Z.size(-2))
                super().__init__(strat(self, Z, vd, learn_inducing_locations=True, **skw))
                self.mean_module = gpytorch.means.ConstantMean()
                self.covar_module = kernel

            def forward(self, x):
                return MVN(self.mean_module(x), self.covar_module(x))

        def set_q(model, dname, m):
            vd = model.variational_strategy._variational_distribution
            with torch.no_grad():
                if dname == "Cholesky":
                    vd.variational_mean.copy_(N(m))
                    L = N(m, m).tril()
                    L.diagonal().abs_().add_(1e-3)
                    vd.chol_variational_covar.copy_(L * LU(1e-2, 2.0, 1))
                elif dname == "MeanField":
                    vd.variational_mean.copy_(N(m))
                    vd._variational_stddev.copy_(LU(1e-4, 3.0, m))
                elif dname == "Delta":
                    vd.variational_mean.copy_(N(m))
                elif dname == "Natural":
                    A = N(m, m)
                    S = A @ A.T * float(LU(1e-2, 2.0, 1)) + 1e-3 * torch.eye(m, dtype=D)
                    mu = N(m)
                    vd.natural_vec.copy_(torch.linalg.solve(S, mu))
                    vd.natural_mat.copy_(-0.5 * torch.linalg.inv(S))
                elif dname == "TrilNatural":
                    vd.natural_vec.copy_(N(m))
                    L = N(m, m).tril()
                    L.diagonal().abs_().add_(0.05)
                    vd.natural_tril_mat.copy_(L)
                model.variational_strategy.variational_params_initialized.fill_(1)

        dists = {"Cholesky": V.CholeskyVariationalDistribution, "MeanField": V.MeanFieldVariationalDistribution, "Delta": V.DeltaVariationalDistribution,
                 "Natural": V.NaturalVariationalDistribution, "TrilNatural": V.TrilNaturalVariationalDistribution}
        strats = {"whitened": V.VariationalStrategy, "unwhitened": V.UnwhitenedVariationalStrategy}
        kerns = {"Scale(RBF)": lambda: GK.ScaleKernel(GK.RBFKernel()), "Scale(Matern0.5)": lambda: GK.ScaleKernel(GK.MaternKernel(nu=0.5)),
                 "RBF+Linear": lambda: GK.RBFKernel() + GK.LinearKernel()}
        m_ = 5
        for sname, strat in strats.items():
            for dname, dist in dists.items():
                for kname, kf in kerns.items():
                    if kname != "Scale(RBF)" and not (thorough or dname in ("Cholesky", "Delta")):
                        continue
                    for ztag in ("separated", "nearly_coincident"):
                        for regime in ("unit", "long", "short"):
                            if regime == "short" and not (thorough or kname == "Scale(RBF)"):
                                continue
                            cfg = f"variational/{sname}/{dname}/{kname}/Z_{ztag}/{regime}"
                            for draw in range(1 if not thorough else 2):
                                d = 1 if draw == 0 else 2
                                Z = U(0, 1, m_, d)
                                if ztag == "nearly_coincident":
                                    Z[1] = Z[0] + 1e-7
                                    Z[3] = Z[2]
                                Xv = torch.cat([U(0, 1, 4, d), Z[:2], U(0, 1, 1, d).expand(2, d)], -2)

                                def build():
                                    model = SVGP(Z.clone(), strat, dist, kf()).double()
                                    randomize(model.covar_module, regime)
                                    set_q(model, dname, m_)
                                    lik = gpytorch.likelihoods.GaussianLikelihood().double()
                                    lik.noise = torch.tensor([1e-4], dtype=D)
                                    return model, lik
                                built = guarded(cfg + "/construct", build, {"config": cfg})
                                if built is None:
                                    continue
                                model, lik = built
                                inp = {"config": cfg, "strategy": sname, "distribution": dname, "kernel": kname, "inducing_points": tl(Z), "x": tl(Xv),
                                       "raw_parameters": {n_: tl(p) for n_, p in model.named_parameters()}, "likelihood_noise": 1e-4}

                                def qu():
                                    vs = model.variational_strategy
                                    with torch.no_grad():
                                        if dname != "Delta":
                                            psd(cfg + "/q_u", vs.variational_distribution.lazy_covariance_matrix, inp, TOL)
                                guarded(cfg + "/q_u", qu, inp)
                                for mode in ("eval", "train"):
                                    def qf(mode=mode):
                                        model.train(mode == "train"); lik.train(mode == "train")
                                        with torch.no_grad():
                                            out = model(Xv)
                                            psd(f"{cfg}/{mode}/q_f", out.lazy_covariance_matrix, inp, TOL)
                                            var_checks(f"{cfg}/{mode}/q_f", out, inp)
                                            marg = lik(out)
                                            psd(f"{cfg}/{mode}/marginal", marg.lazy_covariance_matrix, inp, TOL)
                                            var_checks(f"{cfg}/{mode}/marginal", marg, inp)
                                            noise_added(f"{cfg}/{mode}", marg, out, 1e-4, inp)
                                            pu = model.variational_strategy.prior_distribution
                                            psd(f"{cfg}/{mode}/p_u", pu.lazy_covariance_matrix, inp, TOL)
                                            if dname == "Delta" and mode == "eval":
                                                # S = 0: q(f) = conditional prior given u, its covariance is below the prior (+ the strategy's jitter)
                                                P = dense(model.covar_module(Xv))
                                                jit = float(model.variational_strategy.jitter_val)
                                                C = dense(out.lazy_covariance_matrix)
                                                sc = max(float(P.abs().max()), 1e-300)
                                                psd(f"{cfg}/{mode}/prior_minus_conditional", P + jit * torch.eye(P.shape[-1], dtype=D) - C, inp, TOL, scale=sc)
                                    guarded(f"{cfg}/{mode}", qf, inp)
                                def qprior():
                                    model.eval()
                                    with torch.no_grad():
                                        out = model(Xv, prior=True)
                                        psd(f"{cfg}/prior=True/p_f", out.lazy_covariance_matrix, inp, TOL)
                                        var_checks(f"{cfg}/prior=True/p_f", out, inp)
                                guarded(f"{cfg}/prior=True", qprior, inp)
                                if dname == "Cholesky" and kname == "Scale(RBF)" and ztag == "separated" and regime == "unit":
                                    for vmin in (None, 1e-3):
                                        def qskip(vmin=vmin):
                                            model.eval()
                                            ctx = settings.min_variance(double_value=vmin if vmin is not None else settings.min_variance.value(D))
                                            with torch.no_grad(), settings.skip_posterior_variances(True), ctx:
                                                out = model(Xv)
                                                var_checks(f"{cfg}/skip_posterior_variances/min_variance_{'default' if vmin is None else format(vmin, 'g')}/q_f", out,
                                                           dict(inp, settings={"skip_posterior_variances": True, "min_variance(double)": vmin}), vmin)
                                        guarded(f"{cfg}/skip_posterior_variances", qskip, inp)
                                for vmin in (1e-3, 0.5):
                                    if not (thorough or kname == "Scale(RBF)"):
                                        continue

                                    def qv(vmin=vmin):
                                        model.eval(); lik.eval()
                                        with torch.no_grad(), settings.min_variance(double_value=vmin):
                                            out = model(Xv)
                                            var_checks(f"{cfg}/min_variance{vmin:g}/q_f", out, dict(inp, settings={"min_variance": vmin}), vmin)
                                            var_checks(f"{cfg}/min_variance{vmin:g}/marginal", lik(out), dict(inp, settings={"min_variance": vmin}), vmin)
                                    guarded(f"{cfg}/min_variance{vmin:g}", qv, inp)

        # ---- multitask wrappers
        T, Q = 3, 2
        for wname in ("LMC", "IndependentMultitask"):
            cfg = f"variational/{wname}/Cholesky/Scale(RBF)"
            nb = Q if wname == "LMC" else T
            Zm = U(0, 1, nb, 4, 1)
            Xw = torch.cat([U(0, 1, 4, 1), Zm[0, :2]], -2)

            class MTSVGP(gpytorch.models.ApproximateGP):
                def __init__(self):
                    vd = V.CholeskyVariationalDistribution(4, batch_shape=torch.Size([nb]))
                    base = V.VariationalStrategy(self, Zm.clone(), vd, learn_inducing_locations=True)
                    if wname == "LMC":
                        vs = V.LMCVariationalStrategy(base, num_tasks=T, num_latents=Q, latent_dim=-1)
                    else:
                        vs = V.IndependentMultitaskVariationalStrategy(base, num_tasks=T)
                    super().__init__(vs)
                    self.mean_module = gpytorch.means.ConstantMean(batch_shape=torch.Size([nb]))
                    self.covar_module = GK.ScaleKernel(GK.RBFKernel(batch_shape=torch.Size([nb])), batch_shape=torch.Size([nb]))

                def forward(self, x):
                    return MVN(self.mean_module(x), self.covar_module(x))

            def mtv():
                model = MTSVGP().double()
                randomize(model.covar_module, "unit")
                vd = model.variational_strategy.base_variational_strategy._variational_distribution
                with torch.no_grad():
                    vd.variational_mean.copy_(N(nb, 4))
                    L = N(nb, 4, 4).tril()
                    L.diagonal(dim1=-1, dim2=-2).abs_().add_(1e-3)
                    vd.chol_variational_covar.copy_(L)
                    if wname == "LMC":
                        model.variational_strategy.lmc_coefficients.copy_(N(Q, T))
                    model.variational_strategy.base_variational_strategy.variational_params_initialized.fill_(1)
                lik = gpytorch.likelihoods.MultitaskGaussianLikelihood(num_tasks=T).double()
                inp = {"config": cfg, "inducing_points": tl(Zm), "x": tl(Xw), "raw_parameters": {n_: tl(p) for n_, p in model.named_parameters()}}
                for mode in ("eval", "train"):
                    model.train(mode == "train"); lik.train(mode == "train")
                    with torch.no_grad():
                        out = model(Xw)
                        psd(f"{cfg}/{mode}/q_f", out.lazy_covariance_matrix, inp, TOL)
                        var_checks(f"{cfg}/{mode}/q_f", out, inp)
                        marg = lik(out)
                        psd(f"{cfg}/{mode}/marginal", marg.lazy_covariance_matrix, inp, TOL)
                        var_checks(f"{cfg}/{mode}/marginal", marg, inp)
                        noise_added(f"{cfg}/{mode}", marg, out, 2e-4, inp)
                for vmin in (1e-3, 0.5):
                    model.eval()
                    with torch.no_grad(), settings.min_variance(double_value=vmin):
                        var_checks(f"{cfg}/min_variance{vmin:g}/q_f", model(Xw), dict(inp, settings={"min_variance": vmin}), vmin)
            guarded(cfg, mtv, {"config": cfg})

        # ---- CIQ: only the variance floor
        cfg = "variational/CIQ/NaturalVariationalDistribution/Scale(RBF)"
        Zc = U(0, 1, 5, 1)
        Xc = torch.cat([U(0, 1, 4, 1), Zc[:2]], -2)

        def ciq():
            model = SVGP(Zc.clone(), V.CiqVariationalStrategy, V.NaturalVariationalDistribution, GK.ScaleKernel(GK.RBFKernel())).double()
            randomize(model.covar_module, "unit")
            inp = {"config": cfg, "inducing_points": tl(Zc), "x": tl(Xc), "raw_parameters": {n_: tl(p) for n_, p in model.named_parameters()}}
            for vmin in (None, 1e-3, 0.5, 50.0):
                model.eval()
                ctx = settings.min_variance(double_value=vmin if vmin is not None else settings.min_variance.value(D))
                with torch.no_grad(), ctx:
                    out = model(Xc)
                    var_checks(f"{cfg}/min_variance{'default' if vmin is None else format(vmin, 'g')}/q_f", out, dict(inp, settings={"min_variance": vmin}), vmin)
        guarded(cfg, ciq, {"config": cfg})

    # ================================================================== 4. the noise a likelihood adds
    def sec_noise():
        L = gpytorch.likelihoods
        C = gpytorch.constraints
        n = 5
        A = N(n, n)
        lat = MVN(N(n), A @ A.T + 0.1 * torch.eye(n, dtype=D))
        latb = MVN(N(2, n), (A @ A.T + 0.1 * torch.eye(n, dtype=D)).expand(2, n, n))

        # ---- GaussianLikelihood: constraint x raw parameter value
        cons = {"default_GreaterThan(1e-4)": (None, 1e-4), "GreaterThan(1e-2)": (lambda: C.GreaterThan(1e-2), 1e-2),
                "Interval(0.01,0.1)": (lambda: C.Interval(0.01, 0.1), 0.01), "GreaterThan(1e-6,transform=exp)": (lambda: C.GreaterThan(1e-6, transform=torch.exp, inv_transform=torch.log), 1e-6)}
        for cname, (cf, lower) in cons.items():
            for raw in (-1e3, -40.0, -5.0, 0.0, 5.0):
                for bs in ((), (2,)):
                    key = f"noise/GaussianLikelihood/{cname}/raw{raw:g}/batch{list(bs)}"
                    inp = {"likelihood": "GaussianLikelihood", "noise_constraint": cname, "raw_noise": raw, "batch_shape": list(bs), "latent_cov": tl(lat.covariance_matrix)}

                    def g(cf=cf, lower=lower, raw=raw, bs=bs, key=key, inp=inp):
                        lik = L.GaussianLikelihood(noise_constraint=cf() if cf else None, batch_shape=torch.Size(bs)).double()
                        with torch.no_grad():
                            lik.raw_noise.fill_(raw)
                        nz = lik.noise.detach()
                        rec(key + "/noise_parameter_ge_lower_bound", fin(nz) and bool((nz >= lower * (1 - 1e-6)).all()), f"likelihood.noise = {tl(nz)} vs lower bound {lower:g} (rel. tol 1e-6)", inp)
                        f = latb if bs else lat
                        with torch.no_grad():
                            marg = lik(f)
                        noise_added(key, marg, f, lower, inp)
                        var_checks(key + "/marginal", marg, inp)
                    guarded(key, g, inp)
        # setting a value below the bound through the public setter: must be rejected, or the stored noise must still respect the bound
        key = "noise/GaussianLikelihood/default_GreaterThan(1e-4)/set_noise_1e-5_below_bound"

        def below():
            lik = L.GaussianLikelihood().double()
            try:
                lik.noise = torch.tensor([1e-5], dtype=D)
            except Exception as e:  # noqa: BLE001 - a rejection is a correct outcome
                rec(key, True, f"rejected: {type(e).__name__}")
                return
            nz = lik.noise.detach()
            rec(key, fin(nz) and bool((nz >= 1e-4).all()), f"likelihood.noise = 1e-5 was accepted silently; likelihood.noise now reads {tl(nz)} (lower bound 1e-4)",
                {"likelihood": "GaussianLikelihood()", "statement": "likelihood.noise = torch.tensor([1e-5])"})
        guarded(key, below)

        # ---- FixedNoiseGaussianLikelihood vs settings.min_fixed_noise
        tiny = torch.tensor([1e-9, 0.0, 1e-7, 1e-3, 0.5], dtype=D)
        for mfn in (None, 1e-3):
            floor = settings.min_fixed_noise.value(D) if mfn is None else mfn
            mtag = "default" if mfn is None else f"{mfn:g}"

            def ctx():
                return settings.min_fixed_noise(double_value=floor)
            base = f"noise/FixedNoiseGaussianLikelihood/min_fixed_noise_{mtag}"
            inp0 = {"likelihood": "FixedNoiseGaussianLikelihood", "noise": tl(tiny), "min_fixed_noise(double)": floor, "latent_cov": tl(lat.covariance_matrix)}

            def f_ctor(learn):
                key = f"{base}/constructor/{'learned_additional' if learn else 'fixed_only'}"
                with ctx():
                    lik = L.FixedNoiseGaussianLikelihood(noise=tiny.clone(), learn_additional_noise=learn).double()
                    nz = lik.noise.detach()
                    rec(key + "/noise_ge_min_fixed_noise", fin(nz) and bool((nz >= floor).all()), f"likelihood.noise = {tl(nz)} vs min_fixed_noise {floor:g}", inp0)
                    with torch.no_grad():
                        marg = lik(lat)
                    noise_added(key, marg, lat, floor + (1e-4 if learn else 0.0), inp0)
                    var_checks(key + "/marginal", marg, inp0)
            for learn in (False, True):
                guarded(f"{base}/constructor/{learn}", lambda learn=learn: f_ctor(learn), inp0)

            def f_setter():
                key = f"{base}/noise_setter"
                with ctx():
                    lik = L.FixedNoiseGaussianLikelihood(noise=torch.full((n,), 0.1, dtype=D)).double()
                    lik.noise = tiny.clone()
                    nz = lik.noise.detach()
                    rec(key + "/noise_ge_min_fixed_noise", fin(nz) and bool((nz >= floor).all()),
                        f"after likelihood.noise = {tl(tiny)}: likelihood.noise = {tl(nz)} vs min_fixed_noise {floor:g}", dict(inp0, statement="likelihood.noise = noise"))
                    with torch.no_grad():
                        marg = lik(lat)
                    noise_added(key, marg, lat, floor, dict(inp0, statement="likelihood.noise = noise"))
            # NOT held against the code: FixedNoiseGaussianLikelihood has no constraint on its fixed noise; settings.min_fixed_noise is
            # documented as a rounding applied when the likelihood is CONSTRUCTED (with a warning).  Noise assigned later or passed at
            # call time is the user's, and the property speaks of a likelihood's "constraint's lower bound" only.  (The first version of
            # this sweep demanded the floor there too: over-demand, removed; see DESIGN.md 10.4.)

            def f_call():
                key = f"{base}/call_time_noise"
                with ctx():
                    lik = L.FixedNoiseGaussianLikelihood(noise=torch.full((n,), 0.1, dtype=D)).double()
                    with torch.no_grad():
                        marg = lik(lat, noise=tiny.clone())
                    noise_added(key, marg, lat, floor, dict(inp0, statement="likelihood(latent, noise=noise)"))

            def f_fant():
                key = f"{base}/get_fantasy_likelihood"
                with ctx():
                    lik = L.FixedNoiseGaussianLikelihood(noise=torch.full((n - 2,), 0.1, dtype=D)).double()
                    fl = lik.get_fantasy_likelihood(noise=tiny[:2].clone())
                    nz = fl.noise.detach()
                    rec(key + "/noise_ge_min_fixed_noise", fin(nz) and bool((nz >= floor).all()),
                        f"fantasy likelihood noise = {tl(nz)} vs min_fixed_noise {floor:g}", dict(inp0, statement="get_fantasy_likelihood(noise=noise[:2])"))
                    with torch.no_grad():
                        marg = fl(lat)
                    noise_added(key, marg, lat, floor, dict(inp0, statement="get_fantasy_likelihood(noise=noise[:2])(latent)"))
            guarded(f"{base}/get_fantasy_likelihood", f_fant, inp0)

            def f_batch():
                key = f"{base}/constructor/batch[2]"
                with ctx():
                    lik = L.FixedNoiseGaussianLikelihood(noise=torch.stack([tiny, tiny.flip(0)])).double()
                    with torch.no_grad():
                        marg = lik(latb)
                    noise_added(key, marg, latb, floor, inp0)
            guarded(f"{base}/constructor/batch[2]", f_batch, inp0)

        # float32 default (1e-4)
        key = "noise/FixedNoiseGaussianLikelihood/float32_default/constructor"

        def f32():
            lik = L.FixedNoiseGaussianLikelihood(noise=tiny.float())
            nz = lik.noise.detach()
            rec(key + "/noise_ge_min_fixed_noise", bool((nz >= 1e-4).all()), f"likelihood.noise = {tl(nz)} vs float min_fixed_noise 1e-4", {"noise": tl(tiny), "dtype": "float32"})
        guarded(key, f32)

        # ---- MultitaskGaussianLikelihood
        T = 3
        At = N(n * T, n * T)
        latm = MT(N(n, T), At @ At.T + 0.1 * torch.eye(n * T, dtype=D))
        for rank in (0, 1, 2):
            for glob, task in ((True, True), (True, False), (False, True)):
                for raw in (-1e3, -5.0, 1.0):
                    key = f"noise/MultitaskGaussianLikelihood/rank{rank}/global{int(glob)}_task{int(task)}/raw{raw:g}"
                    inp = {"likelihood": f"MultitaskGaussianLikelihood(num_tasks=3, rank={rank}, has_global_noise={glob}, has_task_noise={task})", "all raw parameters": raw}
                    lower = (1e-4 if glob else 0.0) + (1e-4 if (task and rank == 0) else 0.0)

                    def mt(rank=rank, glob=glob, task=task, raw=raw, key=key, inp=inp, lower=lower):
                        lik = L.MultitaskGaussianLikelihood(num_tasks=T, rank=rank, has_global_noise=glob, has_task_noise=task).double()
                        with torch.no_grad():
                            for _, p in lik.named_parameters():
                                p.copy_(raw + 0.3 * torch.randn(p.shape, generator=gen, dtype=D))
                            marg = lik(latm)
                        noise_added(key, marg, latm, lower, inp)
                        var_checks(key + "/marginal", marg, inp)
                    guarded(key, mt, inp)

        # ---- HeteroskedasticNoise: the noise model's (possibly very negative) mean goes through GreaterThan(1e-4)
        key = "noise/HeteroskedasticNoise/default_GreaterThan(1e-4)"

        def het():
            xs = U(0, 1, n, 1)

            class NoiseGP(GP):
                pass
            nl = L.GaussianLikelihood()
            nm = NoiseGP(U(0, 1, 4, 1), torch.tensor([-60.0, -3.0, 0.0, 4.0], dtype=D), nl, GK.ScaleKernel(GK.RBFKernel())).double()
            with torch.no_grad():
                nm.mean_module.constant.fill_(-30.0)
            noise_covar = gpytorch.likelihoods.noise_models.HeteroskedasticNoise(nm)
            lik = gpytorch.likelihoods.gaussian_likelihood._GaussianLikelihoodBase(noise_covar)
            with torch.no_grad():
                marg = lik(lat, xs)
            noise_added(key, marg, lat, 1e-4, {"noise_model": "ExactGP with targets [-60, -3, 0, 4], constant mean -30", "x": tl(xs)})
        guarded(key, het)

    # ================================================================== 5. variances of distributions built from given covariances
    def sec_variance():
        n = 4
        A = N(n, 2)
        low = A @ A.T  # rank 2: two zero eigenvalues, exact zeros are possible on no diagonal, but tiny ones are
        covs = {
            "zero_diagonal_entry": torch.diag(torch.tensor([1.0, 0.0, 1e-14, 2.0], dtype=D)),
            "tiny_diagonal": torch.diag(torch.tensor([1e-12, 1e-11, 1e-13, 1e-20], dtype=D)),
            "rounding_negative_diagonal": torch.diag(torch.tensor([1.0, -1e-17, -3e-16, 0.5], dtype=D)),
            "low_rank": low * 1e-9,
            "well_conditioned": low + torch.eye(n, dtype=D),
        }
        from linear_operator import to_linear_operator
        from linear_operator.operators import DiagLinearOperator, RootLinearOperator
        for cname, Cm in covs.items():
            for vmin in (None, 1e-3, 0.5):
                vtag = "default" if vmin is None else f"{vmin:g}"
                for form in ("dense", "lazy_dense", "lazy_diag", "lazy_root", "lazy_batch[2]", "multitask_interleaved", "multitask_non_interleaved"):
                    if form == "dense" and cname not in ("tiny_diagonal", "well_conditioned"):
                        continue  # a dense tensor covariance goes through torch's Cholesky: it has to be positive definite
                    if form == "lazy_diag" and not torch.equal(Cm, torch.diag(Cm.diagonal())):
                        continue
                    if form == "lazy_root" and cname not in ("low_rank",):
                        continue
                    key = f"variance/{cname}/{form}/min_variance_{vtag}"
                    inp = {"covariance": tl(Cm), "form": form, "settings": {"min_variance(double)": vmin}}

                    def go(form=form, Cm=Cm, vmin=vmin, key=key, inp=inp):
                        mu = N(n)
                        if form == "dense":
                            dist = MVN(mu, Cm.clone())
                        elif form == "lazy_dense":
                            dist = MVN(mu, to_linear_operator(Cm))
                        elif form == "lazy_diag":
                            dist = MVN(mu, DiagLinearOperator(Cm.diagonal().clone()))
                        elif form == "lazy_root":
                            dist = MVN(mu, RootLinearOperator(A * math.sqrt(1e-9)))
                        elif form == "lazy_batch[2]":
                            dist = MVN(N(2, n), to_linear_operator(Cm.expand(2, n, n)))
                        else:
                            dist = MT(mu.view(2, 2), to_linear_operator(Cm), interleaved=(form == "multitask_interleaved"))
                        ctx = settings.min_variance(double_value=vmin if vmin is not None else settings.min_variance.value(D))
                        with ctx:
                            var_checks(key, dist, inp, vmin)
                            if form.startswith("lazy") or form == "dense":
                                ind = dist.to_data_independent_dist()
                                sdv = ind.scale.detach()
                                fl = settings.min_variance.value(D)
                                rec(key + "/to_data_independent_dist_scale", fin(sdv) and bool((sdv >= math.sqrt(fl) * (1 - 1e-12)).all()),
                                    f"min scale {float(sdv.min()):.6e} vs sqrt(min_variance) {math.sqrt(fl):.6e}", inp)
                    guarded(key, go, inp)

    sections = {"kernels": sec_kernels, "exact": sec_exact, "variational": sec_variational, "noise": sec_noise, "variance": sec_variance}
    for sname, fn in sections.items():
        if only in (None, sname):
            fn()

    return {"name": "C07 validity of every covariance handed out (float64)", "evaluations": ev, "distinct_nontrivial": len(seen),
            "bound": (f"kernels: 8 rows (5 random + duplicate + 1e-9 + 1e-6 neighbours), d in 1..3, kernel batch () / (2,), lengthscale regimes short/unit/long, "
                      f"{NDRAW} draws each; exact GPs: 10 training rows, 8 test rows, d in 1..2, 9 kernel families, Gaussian / FixedNoise / FixedNoise+learned likelihoods, "
                      f"noise 1e-4 / 1e-2 / 1, fast_pred_var off / on, min_variance default / 1e-3 / 0.5, nested sequences {'(3,5,7,10)' if not thorough else '(2,3,5,6,8,10)'}, fantasy 6 -> 10; "
                      f"variational: 5 inducing points, 8 x rows, 2 strategies x 5 distributions x 3 kernels, eval / train, LMC / IndependentMultitask / CIQ; "
                      f"likelihood noise: 4 constraints x 5 raw values x 2 batch shapes, FixedNoise x 2 min_fixed_noise x 6 entry points, multitask rank 0..2"),
            "rule": "a case = (section, family / configuration, settings, quantity); distinct by that key; several random draws share a key",
            "samples": samples, "violations": violations, "skipped": skipped, "wall_s": round(time.time() - t0, 2)}
