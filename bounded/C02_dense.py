"""C02 bounded stand-in (NOT counted as proved): values and gradients against the dense float64 definition.

Bound: n = 7 (2-d inputs), batch shapes (), (2,); priors 0..3, added losses 0..2; likelihood families homoskedastic,
fixed noise, multitask Kronecker (t = 2, n = 5); Cholesky path (exact); gradients w.r.t. every raw hyperparameter by
autograd through the library vs autograd through the dense expression; leave-one-out objective vs the n true
leave-one-out predictive log densities computed by deleting each point.
"""
from __future__ import annotations

import itertools
import math
import time


def run(tier="quick", seed=0):
    import torch
    import gpytorch
    from contracts.C02_exact_mll import _model, dense_mll
    t0 = time.time()
    ev, seen, violations, samples = 0, set(), [], []

    def rec(key, ok, detail=""):
        nonlocal ev
        ev += 1
        seen.add(key)
        if len(samples) < 3:
            samples.append({"case": key, "ok": bool(ok), "detail": detail[:160]})
        if not ok and not any(v["key"] == key for v in violations):
            violations.append({"key": key, "input": {"case": key}, "detail": detail, "entry": None})

    exact = gpytorch.settings.fast_computations(log_prob=False, covar_root_decomposition=False, solves=False)
    combos = list(itertools.product((0, 1), (0, 1, 2, 3), (0, 1, 2)))
    if tier == "quick":
        combos = [c for c in combos if c[1] in (0, 2, 3) and c[2] in (0, 2)]
    for br, P, K in combos:
        bs = torch.Size([2] if br else [])
        m, lik, X, Y, targets, extras = _model(bs, P, K, torch.float64)
        m.train(); lik.train()
        mll = gpytorch.mlls.ExactMarginalLogLikelihood(lik, m)
        params = [p for p in m.parameters()]
        with exact:
            got = mll(m(X), Y)
            g1 = torch.autograd.grad(got.sum(), params, allow_unused=True)
        want = dense_mll(m, lik, X, Y, targets, extras)
        g2 = torch.autograd.grad(want.sum(), params, allow_unused=True)
        okv = got.shape == want.shape and torch.allclose(got, want, atol=1e-9)
        okg = all((a is None and b is None) or (a is not None and b is not None and torch.allclose(a, b, atol=1e-8)) for a, b in zip(g1, g2))
        rec(f"value/batch{list(bs)}/P{P}/K{K}", okv, f"MLL {got.tolist()} vs dense {want.tolist()}")
        rec(f"gradient/batch{list(bs)}/P{P}/K{K}", okg, "autograd gradient differs from the gradient of the dense expression")
    # fixed-noise and multitask families (value)
    g = torch.Generator().manual_seed(seed)
    X = torch.rand(6, 2, dtype=torch.float64, generator=g)
    Y = torch.sin(3 * X.sum(-1))

    class GPM(gpytorch.models.ExactGP):
        def __init__(self, x, y, lik):
            super().__init__(x, y, lik)
            self.mean_module = gpytorch.means.ConstantMean()
            self.covar_module = gpytorch.kernels.ScaleKernel(gpytorch.kernels.MaternKernel(nu=2.5))

        def forward(self, x):
            return gpytorch.distributions.MultivariateNormal(self.mean_module(x), self.covar_module(x))

    fn = 0.05 + torch.rand(6, dtype=torch.float64, generator=g)
    lik = gpytorch.likelihoods.FixedNoiseGaussianLikelihood(noise=fn, learn_additional_noise=True).double()
    m = GPM(X, Y, lik).double()
    m.train(); lik.train()
    with exact:
        got = gpytorch.mlls.ExactMarginalLogLikelihood(lik, m)(m(X), Y)
    S = m.covar_module(X).to_dense() + torch.diag(fn + lik.second_noise)
    d = (Y - m.mean_module(X)).unsqueeze(-1)
    want = -0.5 * ((d.T @ torch.linalg.solve(S, d)).squeeze() + torch.logdet(S) + 6 * math.log(2 * math.pi)) / 6
    rec("value/fixed_noise", torch.allclose(got, want, atol=1e-9), f"{got.item()} vs {want.item()}")

    class MT(gpytorch.models.ExactGP):
        def __init__(self, x, y, lik):
            super().__init__(x, y, lik)
            self.mean_module = gpytorch.means.MultitaskMean(gpytorch.means.ConstantMean(), num_tasks=2)
            self.covar_module = gpytorch.kernels.MultitaskKernel(gpytorch.kernels.RBFKernel(), num_tasks=2, rank=1)

        def forward(self, x):
            return gpytorch.distributions.MultitaskMultivariateNormal(self.mean_module(x), self.covar_module(x))

    X5 = X[:5]
    Y5 = torch.stack([torch.sin(3 * X5.sum(-1)), torch.cos(2 * X5.sum(-1))], -1)
    lik = gpytorch.likelihoods.MultitaskGaussianLikelihood(num_tasks=2).double()
    m = MT(X5, Y5, lik).double()
    m.train(); lik.train()
    with exact:
        got = gpytorch.mlls.ExactMarginalLogLikelihood(lik, m)(m(X5), Y5)
    Kd = m.covar_module(X5).to_dense()
    D = torch.diag(lik.task_noises) + lik.noise * torch.eye(2, dtype=torch.float64)
    S = Kd + torch.kron(torch.eye(5, dtype=torch.float64), D)
    d = (Y5 - m.mean_module(X5)).reshape(-1, 1)
    want = -0.5 * ((d.T @ torch.linalg.solve(S, d)).squeeze() + torch.logdet(S) + 10 * math.log(2 * math.pi)) / 10
    rec("value/multitask_kronecker", torch.allclose(got, want, atol=1e-9), f"{got.item()} vs {want.item()}")
    # leave-one-out pseudo-likelihood = average true LOO predictive log density (+ priors / n)
    for P in (0, 2):
        m, lik, X7, Y7, targets, extras = _model(torch.Size([]), P, 0, torch.float64)
        m.train(); lik.train()
        with exact:
            got = gpytorch.mlls.LeaveOneOutPseudoLikelihood(lik, m)(m(X7), Y7)
        with torch.no_grad():
            n = X7.size(0)
            K = m.covar_module(X7).to_dense() + lik.noise * torch.eye(n, dtype=torch.float64)
            mu = m.mean_module(X7)
            tot = 0.0
            for i in range(n):
                o = [j for j in range(n) if j != i]
                Koo, Kio = K[o][:, o], K[i, o]
                pm = mu[i] + Kio @ torch.linalg.solve(Koo, (Y7[o] - mu[o]))
                pv = K[i, i] - Kio @ torch.linalg.solve(Koo, Kio)
                tot = tot + torch.distributions.Normal(pm, pv.sqrt()).log_prob(Y7[i])
            pri = sum(mod._priors[name + "_prior"][0].log_prob(getattr(mod, name)).sum() for mod, name in targets) if P else 0.0
            want = (tot + pri) / n
        rec(f"loo/P{P}", torch.allclose(got, want, atol=1e-8), f"LOO objective {got.item()} vs true LOO average {float(want)}")
    return {"name": "C02 dense value / gradient / LOO comparison", "evaluations": ev, "distinct_nontrivial": len(seen),
            "bound": "n=7 (d=2), batch shapes () and (2,), priors 0..3, added losses 0..2, three likelihood families, Cholesky path, float64",
            "rule": "a case = (quantity, configuration); distinct by that key", "samples": samples, "violations": violations,
            "wall_s": round(time.time() - t0, 2)}
