"""C08 bounded stand-in (NOT counted as proved): batch mode == independent replicas, float64, on the real code.

For every batch-capable module a batched object is built with a parameter batch shape P, every raw parameter of every
batch element gets a DIFFERENT random value (0.6 * randn in raw space, seeded), it is applied to data with batch shape D,
and element b of every output (b ranges over the whole broadcast batch shape) is compared with

  (vs_replica)  a NON-batched object of the same class that carries the b-th slice of every parameter / buffer (copied by
                this harness tensor by tensor: torch.broadcast_to(param, full + tail)[b]), applied to the b-th data slice;
  (vs_dense)    for Gaussian likelihoods, exact GPs (prior, MLL, posterior, predictive), whitened / unwhitened variational
                strategies (q(f), KL, ELBO, predictive log likelihood), multi-output wrappers and model lists: dense float64
                linear algebra written here (torch.linalg on dense matrices), which uses gpytorch only to evaluate the
                replica's kernel / mean / noise value on the b-th data slice - never the batched code path under test.

P and D range independently over {(), (2,), (3,1), (1,2), (3,2)} (all 25 pairs are broadcastable; ranks 0..2).  Composite
kernels / models additionally mix DIFFERENT parameter batch shapes inside one object ('cross(P)': (2,) x (3,1), (3,1) x (1,2);
'last(P)': P[-1:]; '[()]': an unbatched part).  Exact GPs also vary the train-target batch (Dy) and the test-input batch (Dt).

Sections (select with run(only=[...])):
  kernels       58 kernel configurations (every CPU kernel class of gpytorch.kernels incl. Scale / Additive / Product / structure /
                Index / Multitask / LCM / grid / inducing-point / derivative kernels): kernel.batch_shape, K(x1, x2), K(x, x),
                diag=True; element b through the library's own indexing: kernel[ix] and the lazily evaluated kernel(x1, x2)[ix].
  means         Constant / Zero / Linear (+ Grad, GradGrad) / Multitask means.
  likelihoods   Homoskedastic / MultitaskHomoskedastic noise; Gaussian, FixedNoise(+learned), StudentT, Laplace, Beta, Bernoulli,
                MultitaskGaussian (rank 0 / 1 / no global noise): marginal, expected_log_prob, log_marginal.
  exact         ExactGP x 5 model families (incl. mixed batch shapes and parameter priors): prior, prior[ix], ExactMarginalLogLikelihood
                (fast_computations off AND the library default), posterior, predictive.
  exact_special FixedNoise likelihood; Kronecker multitask GP; batch-independent multi-output GP (batch dim -> tasks).
  variational   VariationalStrategy x {Cholesky, MeanField, Delta, Natural, TrilNatural} x {shared, batched inducing points},
                Unwhitened, Ciq, BatchDecoupled (2 modes), OrthogonallyDecoupled, GridInterpolation strategies: q(f) (train / eval),
                KL, VariationalELBO (Gaussian and Bernoulli likelihood), PredictiveLogLikelihood; the MLLs with parameter priors;
                IndependentMultitask and LMC strategies against per-task / per-latent replicas.
  model_list    IndependentModelList == its members' outputs (bit for bit); SumMarginalLogLikelihood == mean of the members' MLLs,
                per batch element, for non-batched, batched and mixed-batch members.

Settings: Cholesky path (fast_computations all off, max_cholesky_size 10000; the exact MLL additionally under the default
fast_computations, which is Cholesky too at these sizes), fast_pred_var off, lazily evaluated kernels on (default), debug on,
default jitters, torch.no_grad.  Nothing stochastic is evaluated (Gauss-Hermite quadrature is deterministic).

Tolerance: |got - want| <= 1e-6 * (1 + |want|) elementwise, everywhere, with these stated consequences / exceptions:
  * whitened / unwhitened variational strategies add variational_cholesky_jitter (float64 default 1e-6) to K_ZZ (the whitened one
    also to K_XX; the LMC strategy to its output covariance): the dense oracle adds the same documented jitter.
  * the unwhitened strategy, in training mode, keeps only the diagonal of K_XX - K_XZ K_ZZ^-1 K_ZX (its documented training
    shortcut): the dense oracle does the same in training mode and uses the full matrix in eval mode.
  * CiqVariationalStrategy (contour-integral quadrature + msMINRES, an iterative approximation whose stopping rule looks at the
    whole batch) is compared with its replicas at 1e-3; it has no dense oracle here.
  * IndependentModelList outputs vs the members' own outputs: exact equality (tol 0).
Shape rule: an output must have shape (broadcast batch shape) + (replica output shape).  For distribution means / covariances and
likelihood terms whose shape is merely broadcastable to that, the values are still compared after broadcasting and the shape
defect is reported ONCE per family / quantity under the key '<family>/<quantity>/unexpanded_shape'.  KL(q(u) || p(u)) may have the
parameter batch shape or the full batch shape.
Exceptions raised inside /repo/gpytorch on these inputs are violations of the key being evaluated; exceptions of a NON-batched
replica are not batch-mode findings and are listed under result['skipped'] (none at present).

Skipped: NNVariationalStrategy (needs faiss / k-NN index and stochastic minibatches), keops kernels (KeOps), MultiDeviceKernel (CUDA),
DistributionalInputKernel (covered by its subclass GaussianSymmetrizedKLKernel), SoftmaxLikelihood (no batch parameters; Bernoulli is
included for data batches only), DirichletClassificationLikelihood (noise derived from class labels), Pyro / deep GP / GPLVM models,
HeteroskedasticNoise (an inner GP; its batch behaviour is that of ExactGP).  Quick tier: the indexing checks run for the core
kernels and the wrappers with their own slicing logic on 11 (P, D) pairs; long-tail kernels / non-Gaussian likelihoods / most
variational families use a spread of 9-11 (P, D) pairs; thorough: all 25 pairs everywhere plus kernel(x1_expanded, x2_expanded)[ix].
"""
from __future__ import annotations

import itertools
import math
import time
import warnings

SHAPES = ((), (2,), (3, 1), (1, 2), (3, 2))


def run(tier="quick", seed=0, only=None):
    import torch
    import gpytorch
    from gpytorch import kernels as GK, means as GM, likelihoods as GL
    from gpytorch.distributions import MultivariateNormal as MVN, MultitaskMultivariateNormal as MTMVN
    from engine.runner import classify_replay_exception

    warnings.filterwarnings("ignore")
    t0 = time.time()
    torch.manual_seed(seed)
    gen = torch.Generator().manual_seed(seed)
    dt = torch.float64
    TOL = 1e-6
    ev, seen, violations, samples, skipped = 0, set(), [], [], []
    thorough = tier != "quick"

    # ------------------------------------------------------------------ bookkeeping
    def rec(key, ok, detail="", inp=None, count=1):
        nonlocal ev
        ev += count
        seen.add(key)
        if len(samples) < 3:
            samples.append({"case": key, "ok": bool(ok), "detail": str(detail)[:160]})
        if not ok and not any(v["key"] == key for v in violations):
            violations.append({"key": key, "input": inp if inp is not None else {"case": key}, "detail": str(detail), "entry": None})

    def skip(key, why):
        if not any(s["key"] == key for s in skipped):
            skipped.append({"key": key, "reason": str(why)[:400]})

    class Raised(Exception):
        pass

    def guarded(key, fn, inp=None):
        """run library code; an exception with a frame in /repo/gpytorch is a violation of `key`; other exceptions are harness
        problems: re-raised (never swallowed)"""
        try:
            return fn()
        except Exception as e:  # noqa: BLE001
            r = classify_replay_exception(e)
            if r.get("violates"):
                rec(key, False, r["detail"][:900], inp)
                raise Raised(key) from None
            raise

    # ------------------------------------------------------------------ helpers (own code)
    def S(*s):
        return torch.Size(s[0]) if len(s) == 1 and not isinstance(s[0], int) else torch.Size(s)

    def bc(*shapes):
        return tuple(torch.broadcast_shapes(*[torch.Size(s) for s in shapes]))

    def idxs(shape):
        return list(itertools.product(*[range(s) for s in shape]))

    def U(lo, hi, *shape):
        return lo + (hi - lo) * torch.rand(tuple(shape), dtype=dt, generator=gen)

    def N(*shape):
        return torch.randn(tuple(shape), dtype=dt, generator=gen)

    def sl(t, full, k, b):
        """b-th slice of a tensor whose last k dims are not batch dims, after broadcasting its batch dims to `full`"""
        tailshape = tuple(t.shape[t.dim() - k:]) if k else ()
        return torch.broadcast_to(t, tuple(full) + tailshape)[tuple(b)] if len(full) else t.reshape(tailshape)

    def tl(t):
        return t.tolist() if torch.is_tensor(t) else t

    def tag(*shapes):
        return "".join(f"{n}{list(s)}" for n, s in shapes)

    def randomize(mod, scale=0.6):
        """every raw parameter of every batch element gets its own value (raw space: any real value is valid)"""
        with torch.no_grad():
            for name, p in mod.named_parameters():
                leaf = name.rsplit(".", 1)[-1]
                if leaf == "inducing_points":
                    continue
                if leaf == "chol_variational_covar":
                    L = 0.4 * N(*p.shape).tril()
                    L.diagonal(dim1=-2, dim2=-1).abs_().add_(0.3)
                    p.copy_(L)
                elif leaf == "natural_mat":
                    A = 0.4 * N(*p.shape)
                    p.copy_(-0.5 * (A @ A.transpose(-1, -2) + 0.5 * torch.eye(p.shape[-1], dtype=dt)))
                elif leaf == "natural_tril_mat":
                    L = 0.4 * N(*p.shape).tril()
                    L.diagonal(dim1=-2, dim2=-1).abs_().add_(0.6)
                    p.copy_(L)
                elif leaf == "_variational_stddev":
                    p.copy_(U(0.3, 1.2, *p.shape))
                else:
                    p.copy_(scale * N(*p.shape))
        return mod

    def copy_slice(batched, rep, full, b):
        """give the non-batched object `rep` the b-th slice of every parameter / buffer of `batched` (matched by name)"""
        src = dict(batched.named_parameters())
        src.update(dict(batched.named_buffers()))
        with torch.no_grad():
            for name, t in list(rep.named_parameters()) + list(rep.named_buffers()):
                if name not in src:
                    raise AssertionError(f"harness: replica tensor {name} has no counterpart in the batched object")
                s = src[name].detach()
                k = t.dim()
                if tuple(s.shape[s.dim() - k:] if k else ()) != tuple(t.shape):
                    raise AssertionError(f"harness: {name}: batched {tuple(s.shape)} vs replica {tuple(t.shape)}")
                t.copy_(sl(s, full, k, b))
        return rep

    def dense(v):
        return v if torch.is_tensor(v) else v.to_dense()

    def compare(key, got, wants, full, inp, tol=TOL, expect=None, lenient=None):
        """got: batched tensor; wants: dict b -> replica tensor.  element b of got must equal wants[b].
        expect: the batch shape the output must have (default `full`); it is broadcast to `full` for the comparison."""
        got = dense(got).detach()
        bs = idxs(full)
        tails = {tuple(w.shape) for w in wants.values()}
        if len(tails) != 1:
            raise AssertionError(f"harness: replicas disagree on the shape {tails}")
        tailshape = tails.pop()
        expect = tuple(full) if expect is None else tuple(expect)
        if tuple(got.shape) != expect + tailshape:
            ok_b = False
            if lenient is not None:
                try:
                    ok_b = tuple(torch.broadcast_shapes(got.shape, expect + tailshape)) == expect + tailshape
                except RuntimeError:
                    ok_b = False
            if not ok_b:
                rec(key, False, f"shape {tuple(got.shape)} != broadcast batch shape {expect} + replica output shape {tailshape}", inp, len(bs))
                return False
            # values may still be right after broadcasting: one aggregated shape finding per family / quantity, values compared below
            rec(lenient, False, f"output has shape {tuple(got.shape)}, not batch shape {expect} + {tailshape} (only broadcastable to it): output[b] does not address batch element b; first seen at {key}", inp)
            got = torch.broadcast_to(got, expect + tailshape)
        if expect != tuple(full):
            got = torch.broadcast_to(got, tuple(full) + tailshape)
        worst, wb, detail = 0.0, None, ""
        for b in bs:
            g, w = got[b] if len(full) else got, wants[b].detach()
            err = (g - w).abs() / (1 + w.abs())
            err = torch.where(torch.isfinite(g) & torch.isfinite(w), err, torch.full_like(err, math.inf))
            e = float(err.max()) if err.numel() else 0.0
            if wb is None or e > worst:
                worst, wb = e, b
                if err.numel():
                    j = int(err.reshape(-1).argmax())
                    detail = f"element b={list(b)} flat index {j}: replica {float(w.reshape(-1)[j]):.12g}, batched {float(g.reshape(-1)[j]):.12g}"
        rec(key, worst <= tol, f"max |batched[b] - replica_b| / (1 + |replica_b|) = {worst:.3e} (tol {tol:g}); {detail}", inp, len(bs))
        return worst <= tol

    def same(key, got, want, gname, wname, inp, tol=TOL):
        """whole-tensor comparison (shape and values)"""
        got, want = dense(got).detach(), dense(want).detach()
        if tuple(got.shape) != tuple(want.shape):
            rec(key, False, f"{gname} has shape {tuple(got.shape)}, {wname} has shape {tuple(want.shape)}", inp)
            return False
        if got.numel() == 0:
            rec(key, True, "empty", inp)
            return True
        err = (got - want).abs() / (1 + want.abs())
        err = torch.where(torch.isfinite(got) & torch.isfinite(want), err, torch.full_like(err, math.inf))
        j = int(err.reshape(-1).argmax())
        e = float(err.reshape(-1)[j])
        rec(key, e <= tol, f"max |{gname} - {wname}| / (1 + |.|) = {e:.3e} (tol {tol:g}) at flat index {j}: {float(got.reshape(-1)[j]):.12g} vs {float(want.reshape(-1)[j]):.12g}", inp)
        return e <= tol

    n1, n2, d = 3, 4, 2
    PAIRS = [(P, D) for P in SHAPES for D in SHAPES]
    # the quick tier visits every (P, D) pair for the core families and this spread of 9 pairs for the long tail
    SPREAD = [((), ()), ((2,), ()), ((), (2,)), ((2,), (2,)), ((3, 1), (1, 2)), ((2,), (3, 1)), ((3, 2), (2,)), ((1, 2), (3, 2)), ((3, 2), (3, 2))]

    def X(D, n, dd=d, lo=-1.2, hi=1.2):
        return U(lo, hi, *D, n, dd)

    def cross(P):
        return {(2,): (3, 1), (3, 1): (1, 2), (1, 2): (3, 1)}.get(tuple(P), tuple(P))

    def last(P):
        return tuple(P[-1:])

    # ================================================================== 1. kernels
    def kernel_families():
        F = []

        def add(name, make, x=None, core=False, modes=("full", "sym", "diag"), E=None, tol=TOL, index=None):
            # index: also take element b through the library's own indexing (quick tier: core families and wrappers with their own slicing logic)
            F.append({"name": name, "make": make, "x": x or (lambda D, n: X(D, n)), "core": core, "modes": modes, "E": E or (lambda P: tuple(P)), "tol": tol,
                      "index": core if index is None else index})

        add("RBFKernel", lambda P: GK.RBFKernel(batch_shape=S(P)), core=True)
        add("RBFKernel/ard", lambda P: GK.RBFKernel(ard_num_dims=d, batch_shape=S(P)), core=True)
        add("RBFKernel/active_dims", lambda P: GK.RBFKernel(active_dims=(1,), batch_shape=S(P)))
        for nu in (0.5, 1.5, 2.5):
            add(f"MaternKernel/nu{nu}", lambda P, nu=nu: GK.MaternKernel(nu=nu, ard_num_dims=d, batch_shape=S(P)), core=nu == 2.5)
        add("RQKernel", lambda P: GK.RQKernel(batch_shape=S(P)))
        add("PeriodicKernel", lambda P: GK.PeriodicKernel(ard_num_dims=d, batch_shape=S(P)))
        add("CosineKernel", lambda P: GK.CosineKernel(batch_shape=S(P)))
        add("LinearKernel", lambda P: GK.LinearKernel(ard_num_dims=d, batch_shape=S(P)), core=True)
        add("PolynomialKernel/power2", lambda P: GK.PolynomialKernel(power=2, batch_shape=S(P)))
        add("PiecewisePolynomialKernel/q2", lambda P: GK.PiecewisePolynomialKernel(q=2, batch_shape=S(P)))
        add("ConstantKernel", lambda P: GK.ConstantKernel(batch_shape=S(P)))
        add("SpectralMixtureKernel", lambda P: GK.SpectralMixtureKernel(num_mixtures=2, ard_num_dims=d, batch_shape=S(P)), index=True)
        add("SpectralDeltaKernel", lambda P: GK.SpectralDeltaKernel(num_dims=d, num_deltas=3, batch_shape=S(P)))
        add("ArcKernel", lambda P: GK.ArcKernel(GK.MaternKernel(nu=2.5), ard_num_dims=d, batch_shape=S(P)))
        s_ = 0.9 / math.sqrt(d)
        add("CylindricalKernel", lambda P: GK.CylindricalKernel(num_angular_weights=3, radial_base_kernel=GK.RBFKernel(batch_shape=S(P)), batch_shape=S(P)),
            x=lambda D, n: X(D, n, d, -s_, s_))
        V, T = 3, 2
        add("HammingIMQKernel", lambda P: GK.HammingIMQKernel(vocab_size=V, batch_shape=S(P)),
            x=lambda D, n: torch.nn.functional.one_hot(torch.randint(0, V, (*D, n, T), generator=gen), V).reshape(*D, n, T * V).to(dt))
        add("GaussianSymmetrizedKLKernel", lambda P: GK.GaussianSymmetrizedKLKernel(batch_shape=S(P)),
            x=lambda D, n: torch.cat([X(D, n, 1), X(D, n, 1, -1.0, 1.0)], -1))
        add("RFFKernel", lambda P: GK.RFFKernel(num_samples=4, num_dims=d, batch_shape=S(P)))
        add("RBFKernelGrad", lambda P: GK.RBFKernelGrad(ard_num_dims=d, batch_shape=S(P)), index=True)
        add("RBFKernelGradGrad", lambda P: GK.RBFKernelGradGrad(batch_shape=S(P)))
        add("Matern52KernelGrad", lambda P: GK.Matern52KernelGrad(batch_shape=S(P)))
        add("PolynomialKernelGrad", lambda P: GK.PolynomialKernelGrad(power=2, batch_shape=S(P)))
        add("NewtonGirardAdditiveKernel", lambda P: GK.NewtonGirardAdditiveKernel(GK.RBFKernel(ard_num_dims=d, batch_shape=S(P)), num_dims=d, batch_shape=S(P)))
        add("AdditiveStructureKernel(RBF)", lambda P: GK.AdditiveStructureKernel(GK.RBFKernel(batch_shape=S(P)), num_dims=d), index=True)
        add("ProductStructureKernel(Scale(RBF))", lambda P: GK.ProductStructureKernel(GK.ScaleKernel(GK.RBFKernel(batch_shape=S(P)), batch_shape=S(P)), num_dims=d))
        add("IndexKernel", lambda P: GK.IndexKernel(num_tasks=3, rank=1, batch_shape=S(P)),
            x=lambda D, n: torch.randint(0, 3, (*D, n, 1), generator=gen), core=True)
        add("MultitaskKernel(RBF)", lambda P: GK.MultitaskKernel(GK.RBFKernel(batch_shape=S(P)), num_tasks=2, rank=1, batch_shape=S(P)), core=True)
        add("MultitaskKernel(RBF[()])", lambda P: GK.MultitaskKernel(GK.RBFKernel(), num_tasks=2, rank=1, batch_shape=S(P)), index=True)
        add("LCMKernel(RBF,Matern)", lambda P: GK.LCMKernel([GK.RBFKernel(batch_shape=S(P)), GK.MaternKernel(nu=1.5, batch_shape=S(P))], num_tasks=2, rank=1), index=True)
        add("GridInterpolationKernel(RBF)", lambda P: GK.GridInterpolationKernel(GK.RBFKernel(batch_shape=S(P)), grid_size=8, grid_bounds=[(-2.0, 2.0)] * d), index=True)
        grid1 = torch.linspace(-1.0, 1.0, 4, dtype=dt)
        add("GridKernel(RBF)/on_grid", lambda P: GK.GridKernel(GK.RBFKernel(batch_shape=S(P)), [grid1.clone()]),
            x=lambda D, n: grid1.reshape(-1, 1).expand(*D, 4, 1).clone(), modes=("sym", "diag"))
        Zs = {}

        def ipk(P, batched_z):
            zb = tuple(P) if batched_z else ()
            Z = Zs.setdefault((tuple(P), batched_z), torch.linspace(-1.0, 1.0, 3, dtype=dt).reshape(3, 1).expand(*zb, 3, d) + 0.2 * U(-1, 1, *zb, 3, d))
            return GK.InducingPointKernel(GK.ScaleKernel(GK.RBFKernel(batch_shape=S(P)), batch_shape=S(P)), inducing_points=Z.clone(), likelihood=GL.GaussianLikelihood(batch_shape=S(P)))
        # training mode requires x1 == x2; eval mode also serves cross-covariances (and applies the SGPR diagonal correction for x1 == x2)
        add("InducingPointKernel/train/shared_Z", lambda P: ipk(P, False), modes=("sym", "diag"))
        add("InducingPointKernel/train/batched_Z", lambda P: ipk(P, True), modes=("sym", "diag"))
        add("InducingPointKernel/eval/shared_Z", lambda P: ipk(P, False).eval(), modes=("full", "sym", "diag"))
        add("InducingPointKernel/eval/batched_Z", lambda P: ipk(P, True).eval(), modes=("full", "sym", "diag"), index=True)
        # ---- composites; parameter batch shapes inside one kernel may differ and broadcast against each other
        add("ScaleKernel[P](RBF[P])", lambda P: GK.ScaleKernel(GK.RBFKernel(batch_shape=S(P)), batch_shape=S(P)), core=True)
        add("ScaleKernel[inferred](RBF[P])", lambda P: GK.ScaleKernel(GK.RBFKernel(batch_shape=S(P))), core=True)
        add("ScaleKernel[P](RBF[()])", lambda P: GK.ScaleKernel(GK.RBFKernel(), batch_shape=S(P)), core=True)
        add("ScaleKernel[cross(P)](RBF[P])", lambda P: GK.ScaleKernel(GK.RBFKernel(batch_shape=S(P)), batch_shape=S(bc(P, cross(P)))), E=lambda P: bc(P, cross(P)), core=True)
        add("ScaleKernel[inferred](Matern[cross(P)]*RBF[P])", lambda P: GK.ScaleKernel(GK.MaternKernel(nu=1.5, batch_shape=S(cross(P))) * GK.RBFKernel(batch_shape=S(P))), E=lambda P: bc(P, cross(P)))
        add("Scale[P](RBF[P])+Matern[()]", lambda P: GK.ScaleKernel(GK.RBFKernel(batch_shape=S(P)), batch_shape=S(P)) + GK.MaternKernel(nu=2.5), core=True)
        add("RBF[P]+Matern[last(P)]", lambda P: GK.RBFKernel(batch_shape=S(P)) + GK.MaternKernel(nu=1.5, batch_shape=S(last(P))))
        add("RBF[P]+Matern[cross(P)]", lambda P: GK.RBFKernel(batch_shape=S(P)) + GK.MaternKernel(nu=1.5, batch_shape=S(cross(P))), E=lambda P: bc(P, cross(P)), index=True)
        add("RBF[P]*Periodic[P]", lambda P: GK.RBFKernel(batch_shape=S(P)) * GK.PeriodicKernel(batch_shape=S(P)), core=True)
        add("RBF[P]*Linear[cross(P)]", lambda P: GK.RBFKernel(batch_shape=S(P)) * GK.LinearKernel(batch_shape=S(cross(P))), E=lambda P: bc(P, cross(P)), index=True)
        add("Scale[P](RBF[P]*Matern[P])+Scale[P](Linear[P])", lambda P: GK.ScaleKernel(GK.RBFKernel(batch_shape=S(P)) * GK.MaternKernel(nu=0.5, batch_shape=S(P)), batch_shape=S(P))
            + GK.ScaleKernel(GK.LinearKernel(batch_shape=S(P)), batch_shape=S(P)))
        add("MultitaskKernel(Scale(RBF))[cross]", lambda P: GK.MultitaskKernel(GK.ScaleKernel(GK.RBFKernel(batch_shape=S(P)), batch_shape=S(P)), num_tasks=2, rank=1, batch_shape=S(cross(P))), E=lambda P: bc(P, cross(P)))
        return F

    def kernel_section():
        for fam in kernel_families():
            pairs = PAIRS if (fam["core"] or thorough) else SPREAD
            for P, D in pairs:
                E = tuple(fam["E"](P))
                full = bc(E, D)
                pre = f"kernel/{fam['name']}/{tag(('P', P), ('D', D))}"
                inp = {"kernel": fam["name"], "parameter_batch_shape": list(P), "kernel_batch_shape": list(E), "data_batch_shape": list(D), "n1": n1, "n2": n2,
                       "parameters": "raw parameters 0.6 * randn, seeded", "seed": seed}
                try:
                    kern = guarded(pre + "/construct", lambda: randomize(fam["make"](P).double()), inp)
                except Raised:
                    continue
                x1, x2 = fam["x"](D, n1), fam["x"](D, n2)
                inp = dict(inp, x1=tl(x1), x2=tl(x2), state={k: tl(v) for k, v in kern.state_dict().items()})
                rec(pre + "/batch_shape", tuple(kern.batch_shape) == E, f"kernel.batch_shape = {tuple(kern.batch_shape)}, parameters have batch shape {E}", inp)
                # replicas
                reps, wants = {}, {m: {} for m in ("full", "sym", "diag")}
                bad = False
                for b in idxs(full):
                    try:
                        rep = copy_slice(kern, fam["make"](()).double(), full, b)
                        a, c = sl(x1, full, 2, b), sl(x2, full, 2, b)
                        with torch.no_grad():
                            if "full" in fam["modes"]:
                                wants["full"][b] = rep(a, c).to_dense()
                            if "sym" in fam["modes"]:
                                wants["sym"][b] = rep(a).to_dense()
                            if "diag" in fam["modes"]:
                                wants["diag"][b] = dense(rep(a, diag=True))
                        reps[b] = rep
                    except Exception as e:  # noqa: BLE001
                        if classify_replay_exception(e).get("violates"):
                            skip(pre, f"the NON-batched replica raised {type(e).__name__}: {str(e)[:200]} (not a batch-mode finding)")
                            bad = True
                            break
                        raise
                if bad:
                    continue
                for m in fam["modes"]:
                    def call(m=m):
                        with torch.no_grad():
                            if m == "full":
                                return kern(x1, x2).to_dense()
                            if m == "sym":
                                return kern(x1).to_dense()
                            return dense(kern(x1, diag=True))
                    try:
                        got = guarded(f"{pre}/{m}", call, inp)
                    except Raised:
                        continue
                    compare(f"{pre}/{m}", got, wants[m], full, inp, fam["tol"])
                # element b through the library's own indexing: kernel[ix] and the lazily evaluated kernel tensor [ix]
                if len(full) and "full" in fam["modes"] and (fam["index"] or thorough) and (thorough or (P, D) in SPREAD or (P, D) in (((2,), (1, 2)), ((2,), (3, 2)))):
                    tailshape = tuple(next(iter(wants["full"].values())).shape)
                    W = torch.stack([wants["full"][b] for b in idxs(full)]).reshape(*full, *tailshape)
                    x1e, x2e = torch.broadcast_to(x1, full + tuple(x1.shape[-2:])), torch.broadcast_to(x2, full + tuple(x2.shape[-2:]))
                    ixs = [("int", (full[0] - 1,)), ("slice", (slice(-1, None),))]
                    if len(full) == 2:
                        ixs += [("int_int", (full[0] - 1, full[1] - 1)), ("colon_int", (slice(None), full[1] - 1)), ("int_colon", (0, slice(None)))]
                    for iname, ix in ixs:
                        if E == full:
                            def gi(ix=ix):
                                with torch.no_grad():
                                    return kern[ix](x1e[ix], x2e[ix]).to_dense()
                            try:
                                got = guarded(f"{pre}/getitem/{iname}", gi, dict(inp, index=str(ix)))
                                same(f"{pre}/getitem/{iname}", got, W[ix], f"kernel[{ix}](x1[{ix}], x2[{ix}])", f"stacked replicas[{ix}]", dict(inp, index=str(ix)))
                            except Raised:
                                pass

                        for lname, xa, xc in (("lazy_index", x1, x2),) + ((("lazy_index_expanded_x", x1e, x2e),) if thorough else ()):
                            def li(ix=ix, xa=xa, xc=xc):
                                with torch.no_grad():
                                    return kern(xa, xc)[ix].to_dense()
                            try:
                                got = guarded(f"{pre}/{lname}/{iname}", li, dict(inp, index=str(ix)))
                                same(f"{pre}/{lname}/{iname}", got, W[ix], f"kernel(x1, x2)[{ix}]", f"stacked replicas[{ix}]", dict(inp, index=str(ix)))
                            except Raised:
                                pass

    # ================================================================== 2. means
    def mean_section():
        fams = [("ConstantMean", lambda P: GM.ConstantMean(batch_shape=S(P))),
                ("ZeroMean", lambda P: GM.ZeroMean(batch_shape=S(P))),
                ("LinearMean", lambda P: GM.LinearMean(input_size=d, batch_shape=S(P))),
                ("LinearMean/no_bias", lambda P: GM.LinearMean(input_size=d, batch_shape=S(P), bias=False)),
                ("ConstantMeanGrad", lambda P: GM.ConstantMeanGrad(batch_shape=S(P))),
                ("ConstantMeanGradGrad", lambda P: GM.ConstantMeanGradGrad(batch_shape=S(P))),
                ("LinearMeanGrad", lambda P: GM.LinearMeanGrad(input_size=d, batch_shape=S(P))),
                ("LinearMeanGradGrad", lambda P: GM.LinearMeanGradGrad(input_size=d, batch_shape=S(P))),
                ("MultitaskMean(Constant,Linear)", lambda P: GM.MultitaskMean([GM.ConstantMean(batch_shape=S(P)), GM.LinearMean(input_size=d, batch_shape=S(P))], num_tasks=2)),
                ("MultitaskMean(Constant[P],Constant[cross(P)])", lambda P: GM.MultitaskMean([GM.ConstantMean(batch_shape=S(P)), GM.ConstantMean(batch_shape=S(cross(P)))], num_tasks=2))]
        for name, make in fams:
            for P, D in PAIRS:
                E = bc(P, cross(P)) if "cross" in name else tuple(P)
                full = bc(E, D)
                key = f"mean/{name}/{tag(('P', P), ('D', D))}"
                inp = {"mean": name, "parameter_batch_shape": list(P), "data_batch_shape": list(D), "seed": seed}
                try:
                    mod = guarded(key + "/construct", lambda: randomize(make(P).double()), inp)
                    x = X(D, n1)
                    inp = dict(inp, x=tl(x), state={k: tl(v) for k, v in mod.state_dict().items()})
                    with torch.no_grad():
                        got = guarded(key, lambda: mod(x), inp)
                except Raised:
                    continue
                wants = {}
                for b in idxs(full):
                    with torch.no_grad():
                        wants[b] = copy_slice(mod, make(()).double(), full, b)(sl(x, full, 2, b))
                compare(key, got, wants, full, inp)


    # ================================================================== 3. noise models / likelihoods
    LOG2PI = math.log(2 * math.pi)
    n = 4

    def rand_mvn_parts(D, k):
        A = N(*D, k, k)
        return N(*D, k), A @ A.transpose(-1, -2) / k + 0.3 * torch.eye(k, dtype=dt)

    def likelihood_section():
        # -- noise modules on their own: noise(shape=D + (n,))
        for name, make in (("HomoskedasticNoise", lambda P: gpytorch.likelihoods.noise_models.HomoskedasticNoise(batch_shape=S(P))),
                           ("MultitaskHomoskedasticNoise", lambda P: gpytorch.likelihoods.noise_models.MultitaskHomoskedasticNoise(num_tasks=2, batch_shape=S(P)))):
            for P, D in PAIRS:
                full = bc(P, D)
                key = f"noise/{name}/{tag(('P', P), ('D', D))}/covariance"
                inp = {"noise_model": name, "parameter_batch_shape": list(P), "shape_argument": list(D) + [n], "seed": seed}
                try:
                    mod = guarded(key, lambda: randomize(make(P).double()), inp)
                    inp = dict(inp, state={k: tl(v) for k, v in mod.state_dict().items()})
                    with torch.no_grad():
                        got = guarded(key, lambda: mod(shape=torch.Size([*D, n])).to_dense(), inp)
                except Raised:
                    continue
                wants = {}
                for b in idxs(full):
                    with torch.no_grad():
                        wants[b] = copy_slice(mod, make(()).double(), full, b)(shape=torch.Size([n])).to_dense()
                compare(key, got, wants, full, inp)

        # -- likelihoods
        def fixed(P):
            lk = GL.FixedNoiseGaussianLikelihood(noise=U(0.05, 0.5, *P, n), learn_additional_noise=True, batch_shape=S(P))
            return lk

        def fixed_rep(lk, full, b):
            rep = GL.FixedNoiseGaussianLikelihood(noise=sl(lk.noise_covar.noise, full, 1, b).clone(), learn_additional_noise=True).double()
            return copy_slice(lk, rep, full, b)

        fams = [("GaussianLikelihood", lambda P: GL.GaussianLikelihood(batch_shape=S(P)), None, "gauss"),
                ("FixedNoiseGaussianLikelihood+learned", fixed, fixed_rep, "gauss"),
                ("StudentTLikelihood", lambda P: GL.StudentTLikelihood(batch_shape=S(P)), None, "real"),
                ("LaplaceLikelihood", lambda P: GL.LaplaceLikelihood(batch_shape=S(P)), None, "real"),
                ("BetaLikelihood", lambda P: GL.BetaLikelihood(batch_shape=S(P)), None, "unit"),
                ("BernoulliLikelihood", lambda P: GL.BernoulliLikelihood(), None, "binary"),
                ("MultitaskGaussianLikelihood/rank0", lambda P: GL.MultitaskGaussianLikelihood(num_tasks=2, rank=0, batch_shape=S(P)), None, "mt"),
                ("MultitaskGaussianLikelihood/rank1", lambda P: GL.MultitaskGaussianLikelihood(num_tasks=2, rank=1, batch_shape=S(P)), None, "mt"),
                ("MultitaskGaussianLikelihood/rank0/no_global_noise", lambda P: GL.MultitaskGaussianLikelihood(num_tasks=2, rank=0, has_global_noise=False, batch_shape=S(P)), None, "mt")]
        for name, make, make_rep, kind in fams:
            for P, D in (PAIRS if (kind in ("gauss", "mt") or thorough) else SPREAD):
                if kind == "binary" and P != ():
                    continue
                full = bc(P, D)
                pre = f"likelihood/{name}/{tag(('P', P), ('D', D))}"
                inp = {"likelihood": name, "parameter_batch_shape": list(P), "function_dist_batch_shape": list(D), "n": n, "seed": seed}
                try:
                    lk = guarded(pre + "/construct", lambda: randomize(make(P).double()), inp)
                except Raised:
                    continue
                t = 2 if kind == "mt" else 1
                mean, cov = rand_mvn_parts(D, n * t)
                if kind == "mt":
                    mean = mean.reshape(*D, n, t)
                y = {"gauss": lambda: N(*D, n), "real": lambda: N(*D, n), "unit": lambda: U(0.05, 0.95, *D, n), "binary": lambda: (U(0, 1, *D, n) > 0.5).to(dt),
                     "mt": lambda: N(*D, n, t)}[kind]()
                fd = (MTMVN if kind == "mt" else MVN)(mean, cov)
                inp = dict(inp, f_mean=tl(mean), f_covariance=tl(cov), y=tl(y), state={k: tl(v) for k, v in lk.state_dict().items()})
                if make_rep is fixed_rep:
                    inp["fixed_noise"] = tl(lk.noise_covar.noise)
                W = {q: {} for q in ("marginal_mean", "marginal_covariance", "expected_log_prob", "log_marginal")}
                Dn = {q: {} for q in W}
                for b in idxs(full):
                    rep = make_rep(lk, full, b) if make_rep else copy_slice(lk, make(()).double(), full, b)
                    mb, cb, yb = sl(mean, full, t if kind != "mt" else 2, b) if kind == "mt" else sl(mean, full, 1, b), sl(cov, full, 2, b), sl(y, full, 2 if kind == "mt" else 1, b)
                    fb = (MTMVN if kind == "mt" else MVN)(mb, cb)
                    with torch.no_grad():
                        if kind in ("gauss", "mt"):
                            mg = rep(fb)
                            W["marginal_mean"][b], W["marginal_covariance"][b] = mg.mean, mg.covariance_matrix
                        W["expected_log_prob"][b] = rep.expected_log_prob(yb, fb)
                        W["log_marginal"][b] = rep.log_marginal(yb, fb)
                        # dense oracle from the replica's noise parameters only
                        if kind == "gauss":
                            s_ = rep.noise.expand(n) if rep.noise.numel() == 1 else rep.noise
                        elif kind == "mt" and "rank0" in name:
                            s_ = (rep.task_noises + (rep.noise if rep.has_global_noise else 0.0)).repeat(n)  # interleaved: index i * t + a
                        else:
                            s_ = None
                        if s_ is not None:
                            var = cb.diagonal() + 0.0
                            Dn["marginal_mean"][b] = mb
                            Dn["marginal_covariance"][b] = cb + torch.diag(s_)
                            e = -0.5 * (((yb.reshape(-1) - mb.reshape(-1)) ** 2 + var) / s_ + s_.log() + LOG2PI)
                            lm = -0.5 * ((yb.reshape(-1) - mb.reshape(-1)) ** 2 / (var + s_) + (var + s_).log() + LOG2PI)
                            Dn["expected_log_prob"][b] = e.reshape(n, t).sum(-1) if kind == "mt" else e
                            Dn["log_marginal"][b] = lm.reshape(n, t).sum(-1) if kind == "mt" else lm
                got = {}
                for q, fn in (("marginal", lambda: lk(fd)), ("expected_log_prob", lambda: lk.expected_log_prob(y, fd)), ("log_marginal", lambda: lk.log_marginal(y, fd))):
                    if q == "marginal" and kind not in ("gauss", "mt"):
                        continue
                    try:
                        with torch.no_grad():
                            r_ = guarded(f"{pre}/{q}", fn, inp)
                            if q == "marginal":
                                got["marginal_mean"], got["marginal_covariance"] = r_.mean, guarded(f"{pre}/{q}", lambda: r_.covariance_matrix, inp)
                            else:
                                got[q] = r_
                    except Raised:
                        pass
                for q, g in got.items():
                    ln = f"likelihood/{name}/{q}/unexpanded_shape"
                    compare(f"{pre}/{q}/vs_replica", g, W[q], full, inp, lenient=ln)
                    if Dn[q]:
                        compare(f"{pre}/{q}/vs_dense", g, Dn[q], full, inp, lenient=ln)

    # ================================================================== 4. exact GPs
    class GP(gpytorch.models.ExactGP):
        def __init__(self, x, y, lik, mean, covar, mt=None):
            super().__init__(x, y, lik)
            self.mean_module, self.covar_module, self.mt = mean, covar, mt

        def forward(self, x):
            m, K = self.mean_module(x), self.covar_module(x)
            if self.mt == "kron":
                return MTMVN(m, K)
            if self.mt == "batch":
                return MTMVN.from_batch_mvn(MVN(m, K))
            return MVN(m, K)

    from gpytorch.priors import GammaPrior, NormalPrior
    from torch.distributions import Gamma as TGamma, Normal as TNormal

    def with_priors(P):
        return (GM.ConstantMean(batch_shape=S(P), constant_prior=NormalPrior(0.0, 1.0)),
                GK.ScaleKernel(GK.RBFKernel(batch_shape=S(P), lengthscale_prior=GammaPrior(2.0, 3.0)), batch_shape=S(P), outputscale_prior=GammaPrior(2.0, 1.5)),
                GL.GaussianLikelihood(batch_shape=S(P), noise_prior=GammaPrior(1.5, 4.0)))

    def prior_terms(rep):
        """sum of the log prior densities of ONE replica (own code, torch.distributions)"""
        return (TNormal(0.0, 1.0).log_prob(rep.mean_module.constant).sum() + TGamma(2.0, 3.0).log_prob(rep.covar_module.base_kernel.lengthscale).sum()
                + TGamma(2.0, 1.5).log_prob(rep.covar_module.outputscale).sum() + TGamma(1.5, 4.0).log_prob(rep.likelihood.noise).sum())

    EXACT = [
        # name, parts(P) -> (mean, covar, lik), E_prior(P), E_all(P), core
        ("Constant[P]+Scale[P](RBF[P])/Gaussian[P]", lambda P: (GM.ConstantMean(batch_shape=S(P)), GK.ScaleKernel(GK.RBFKernel(batch_shape=S(P)), batch_shape=S(P)), GL.GaussianLikelihood(batch_shape=S(P))),
         lambda P: P, lambda P: P, True),
        ("Zero+Scale[inferred](RBF[P])/Gaussian[()]", lambda P: (GM.ZeroMean(), GK.ScaleKernel(GK.RBFKernel(batch_shape=S(P))), GL.GaussianLikelihood()), lambda P: P, lambda P: P, False),
        ("Constant[()]+RBF[()]/Gaussian[P]", lambda P: (GM.ConstantMean(), GK.RBFKernel(), GL.GaussianLikelihood(batch_shape=S(P))), lambda P: (), lambda P: P, False),
        ("Linear[P]+Scale[cross(P)](Matern[P])/Gaussian[last(P)]", lambda P: (GM.LinearMean(d, batch_shape=S(P)), GK.ScaleKernel(GK.MaternKernel(nu=2.5, ard_num_dims=d, batch_shape=S(P)), batch_shape=S(bc(P, cross(P)))),
                                                                            GL.GaussianLikelihood(batch_shape=S(last(P)))), lambda P: bc(P, cross(P)), lambda P: bc(P, cross(P)), False),
        ("with_priors:Constant[P]+Scale[P](RBF[P])/Gaussian[P]", with_priors, lambda P: P, lambda P: P, False),
    ]

    def exact_section():
        nt = 3
        cfgs_core = [(P, Dx, Dx, Dx) for P, Dx in PAIRS] + [(P, Dx, Dx, Dt) for P, Dx in SPREAD for Dt in ((), (2,), (3, 2)) if Dt != Dx] \
            + [((), (), (2,), ()), ((2,), (), (2,), ()), ((), (), (3, 2), (2,)), ((3, 1), (2,), (3, 2), ())]
        cfgs_tail = [(P, Dx, Dx, Dx) for P, Dx in SPREAD] + [((2,), (3, 1), (3, 1), ()), ((), (2,), (2,), (3, 2))]
        for name, parts, Ep, Ea, core in EXACT:
            for P, Dx, Dy, Dt in (cfgs_core if (core or thorough) else cfgs_tail):
                E_prior, E_all = tuple(Ep(P)), tuple(Ea(P))
                f_prior, f_tr, f_te = bc(E_prior, Dx), bc(E_all, Dx, Dy), bc(E_all, Dx, Dy, Dt)
                pre = f"exact_gp/{name}/{tag(('P', P), ('Dx', Dx), ('Dy', Dy), ('Dt', Dt))}"
                x, y, xt = X(Dx, n), N(*Dy, n), X(Dt, nt)
                inp = {"model": name, "parameter_batch_shape": list(P), "train_x_batch": list(Dx), "train_y_batch": list(Dy), "test_x_batch": list(Dt), "train_x": tl(x), "train_y": tl(y), "test_x": tl(xt), "seed": seed}
                try:
                    def build():
                        mean, covar, lik = parts(P)
                        return randomize(GP(x, y, lik, mean, covar).double())
                    model = guarded(pre + "/construct", build, inp)
                except Raised:
                    continue
                inp = dict(inp, state={k: tl(v) for k, v in model.state_dict().items()})
                lik = model.likelihood
                QS = ("prior_mean", "prior_covariance", "mll", "posterior_mean", "posterior_covariance", "predictive_mean", "predictive_covariance")
                W, Dn = {q: {} for q in QS}, {q: {} for q in QS}
                for b in idxs(f_te):
                    xb, yb, xtb = sl(x, f_te, 2, b), sl(y, f_te, 1, b), sl(xt, f_te, 2, b)
                    mean0, covar0, lik0 = parts(())
                    rep = copy_slice(model, GP(xb, yb, lik0, mean0, covar0).double(), f_te, b)
                    with torch.no_grad():
                        rep.train()
                        o = rep(xb)
                        W["prior_mean"][b], W["prior_covariance"][b] = o.mean, o.covariance_matrix
                        W["mll"][b] = gpytorch.mlls.ExactMarginalLogLikelihood(rep.likelihood, rep)(o, yb)
                        rep.eval()
                        pr = rep(xtb)
                        W["posterior_mean"][b], W["posterior_covariance"][b] = pr.mean, pr.covariance_matrix
                        pp = rep.likelihood(pr)
                        W["predictive_mean"][b], W["predictive_covariance"][b] = pp.mean, pp.covariance_matrix
                        # dense oracle: kernel / mean / noise of the replica, then own linear algebra
                        Kxx, Ktx, Ktt = rep.covar_module(xb).to_dense(), rep.covar_module(xtb, xb).to_dense(), rep.covar_module(xtb).to_dense()
                        mx, mt_ = rep.mean_module(xb), rep.mean_module(xtb)
                        s2 = rep.likelihood.noise.reshape(())
                        Sm = Kxx + s2 * torch.eye(n, dtype=dt)
                        Lc = torch.linalg.cholesky(Sm)
                        al = torch.cholesky_solve((yb - mx).unsqueeze(-1), Lc).squeeze(-1)
                        lp = -0.5 * (yb - mx) @ al - Lc.diagonal().log().sum() - 0.5 * n * LOG2PI
                        if name.startswith("with_priors"):
                            lp = lp + prior_terms(rep)
                        Dn["prior_mean"][b], Dn["prior_covariance"][b], Dn["mll"][b] = mx, Kxx, lp / n
                        Dn["posterior_mean"][b] = mt_ + Ktx @ al
                        Dn["posterior_covariance"][b] = Ktt - Ktx @ torch.cholesky_solve(Ktx.transpose(-1, -2), Lc)
                        Dn["predictive_mean"][b] = Dn["posterior_mean"][b]
                        Dn["predictive_covariance"][b] = Dn["posterior_covariance"][b] + s2 * torch.eye(nt, dtype=dt)
                got, expect = {}, {}
                try:
                    with torch.no_grad():
                        model.train()
                        out = guarded(pre + "/prior", lambda: model(x), inp)
                        got["prior_mean"], got["prior_covariance"] = out.mean, guarded(pre + "/prior", lambda: out.covariance_matrix, inp)
                        expect["prior_mean"] = expect["prior_covariance"] = f_prior
                        try:
                            got["mll"] = guarded(pre + "/mll", lambda: gpytorch.mlls.ExactMarginalLogLikelihood(lik, model)(out, y), inp)
                            expect["mll"] = f_tr
                        except Raised:
                            pass
                        try:  # the same objective under the library's default fast_computations (Cholesky anyway at this size)
                            with gpytorch.settings.fast_computations(covar_root_decomposition=True, log_prob=True, solves=True):
                                got["mll[default_fast_computations]"] = guarded(pre + "/mll[default_fast_computations]", lambda: gpytorch.mlls.ExactMarginalLogLikelihood(lik, model)(model(x), y), inp)
                            expect["mll[default_fast_computations]"] = f_tr
                            W["mll[default_fast_computations]"], Dn["mll[default_fast_computations]"] = W["mll"], Dn["mll"]
                        except Raised:
                            pass
                        # element b of the prior through the library's own indexing
                        if len(f_prior) and tuple(out.batch_shape) == f_prior:
                            last_ix = tuple(s_ - 1 for s_ in f_prior)
                            for iname, ix in (("int", last_ix[:1]), ("all_ints", last_ix)) if len(f_prior) > 1 else (("int", last_ix),):
                                try:
                                    sub = guarded(f"{pre}/prior_getitem/{iname}", lambda: out[ix], dict(inp, index=str(ix)))
                                    Wm = torch.stack([W["prior_mean"][b] for b in idxs(f_te)]).reshape(*f_te, n)
                                    Wc = torch.stack([W["prior_covariance"][b] for b in idxs(f_te)]).reshape(*f_te, n, n)
                                    # f_prior may have fewer (broadcast) dims than f_te: select the matching replicas
                                    lead = len(f_te) - len(f_prior)
                                    pick = (0,) * lead
                                    Wm, Wc = Wm[pick] if lead else Wm, Wc[pick] if lead else Wc
                                    sel = tuple(i if f_te[lead + k] == f_prior[k] else 0 for k, i in enumerate(ix))
                                    if all(f_te[lead + k] == f_prior[k] for k in range(len(f_prior))):
                                        same(f"{pre}/prior_getitem/{iname}/mean", sub.mean, Wm[sel], f"prior[{ix}].mean", "replica prior mean", dict(inp, index=str(ix)))
                                        cm = guarded(f"{pre}/prior_getitem/{iname}/covariance", lambda: sub.covariance_matrix, dict(inp, index=str(ix)))
                                        same(f"{pre}/prior_getitem/{iname}/covariance", cm, Wc[sel], f"prior[{ix}].covariance_matrix", "replica prior covariance", dict(inp, index=str(ix)))
                                except Raised:
                                    pass
                except Raised:
                    pass
                try:
                    with torch.no_grad():
                        model.eval()
                        pred = guarded(pre + "/posterior", lambda: model(xt), inp)
                        got["posterior_mean"], got["posterior_covariance"] = pred.mean, guarded(pre + "/posterior", lambda: pred.covariance_matrix, inp)
                        pp = guarded(pre + "/predictive", lambda: lik(pred), inp)
                        got["predictive_mean"], got["predictive_covariance"] = pp.mean, guarded(pre + "/predictive", lambda: pp.covariance_matrix, inp)
                except Raised:
                    pass
                for q, g in got.items():
                    ln = f"exact_gp/{name}/{q}/unexpanded_shape" if not q.startswith("mll") else None
                    compare(f"{pre}/{q}/vs_replica", g, W[q], f_te, inp, expect=expect.get(q, f_te), lenient=ln)
                    compare(f"{pre}/{q}/vs_dense", g, Dn[q], f_te, inp, expect=expect.get(q, f_te), lenient=ln)


    def exact_special_section():
        """fixed-noise likelihood, Kronecker multitask GP, batch-independent multi-output GP (a batch dimension turned into tasks)"""
        nt = 3
        # ---- FixedNoiseGaussianLikelihood (noise given per batch element and point) with a learned extra noise
        for P, Dx in (PAIRS if thorough else SPREAD):
            full = bc(P, Dx)
            pre = f"exact_gp/Constant[P]+Scale[P](RBF[P])/FixedNoise[P]+learned/{tag(('P', P), ('Dx', Dx))}"
            x, y, xt = X(Dx, n), N(*Dx, n), X(Dx, nt)
            fixed = U(0.05, 0.5, *P, n)
            inp = {"model": "ExactGP, FixedNoiseGaussianLikelihood(noise, learn_additional_noise=True, batch_shape=P)", "parameter_batch_shape": list(P), "data_batch_shape": list(Dx), "train_x": tl(x), "train_y": tl(y),
                   "fixed_noise": tl(fixed), "test_x": tl(xt), "seed": seed}
            try:
                model = guarded(pre + "/construct", lambda: randomize(GP(x, y, GL.FixedNoiseGaussianLikelihood(noise=fixed, learn_additional_noise=True, batch_shape=S(P)), GM.ConstantMean(batch_shape=S(P)),
                                                                            GK.ScaleKernel(GK.RBFKernel(batch_shape=S(P)), batch_shape=S(P))).double()), inp)
            except Raised:
                continue
            inp = dict(inp, state={k: tl(v) for k, v in model.state_dict().items()})
            QS = ("mll", "posterior_mean", "posterior_covariance")
            W, Dn = {q: {} for q in QS}, {q: {} for q in QS}
            for b in idxs(full):
                xb, yb, xtb, fb = sl(x, full, 2, b), sl(y, full, 1, b), sl(xt, full, 2, b), sl(fixed, full, 1, b).clone()
                rep = copy_slice(model, GP(xb, yb, GL.FixedNoiseGaussianLikelihood(noise=fb, learn_additional_noise=True), GM.ConstantMean(), GK.ScaleKernel(GK.RBFKernel())).double(), full, b)
                with torch.no_grad():
                    rep.train()
                    W["mll"][b] = gpytorch.mlls.ExactMarginalLogLikelihood(rep.likelihood, rep)(rep(xb), yb)
                    rep.eval()
                    pr = rep(xtb)
                    W["posterior_mean"][b], W["posterior_covariance"][b] = pr.mean, pr.covariance_matrix
                    Kxx, Ktx, Ktt = rep.covar_module(xb).to_dense(), rep.covar_module(xtb, xb).to_dense(), rep.covar_module(xtb).to_dense()
                    mx, mt_ = rep.mean_module(xb), rep.mean_module(xtb)
                    Lc = torch.linalg.cholesky(Kxx + torch.diag(fb + rep.likelihood.second_noise.reshape(())))
                    al = torch.cholesky_solve((yb - mx).unsqueeze(-1), Lc).squeeze(-1)
                    Dn["mll"][b] = (-0.5 * (yb - mx) @ al - Lc.diagonal().log().sum() - 0.5 * n * LOG2PI) / n
                    Dn["posterior_mean"][b] = mt_ + Ktx @ al
                    Dn["posterior_covariance"][b] = Ktt - Ktx @ torch.cholesky_solve(Ktx.transpose(-1, -2), Lc)
            got = {}
            with torch.no_grad():
                try:
                    model.train()
                    got["mll"] = guarded(pre + "/mll", lambda: gpytorch.mlls.ExactMarginalLogLikelihood(model.likelihood, model)(model(x), y), inp)
                except Raised:
                    pass
                try:
                    model.eval()
                    pred = guarded(pre + "/posterior", lambda: model(xt), inp)
                    got["posterior_mean"], got["posterior_covariance"] = pred.mean, guarded(pre + "/posterior", lambda: pred.covariance_matrix, inp)
                except Raised:
                    pass
            for q, g in got.items():
                ln = f"exact_gp/FixedNoise/{q}/unexpanded_shape" if q != "mll" else None
                compare(f"{pre}/{q}/vs_replica", g, W[q], full, inp, lenient=ln)
                compare(f"{pre}/{q}/vs_dense", g, Dn[q], full, inp, lenient=ln)

        # ---- Kronecker multitask exact GP with a batch shape
        T = 2
        for P, Dx in (PAIRS if thorough else SPREAD):
            full = bc(P, Dx)
            pre = f"exact_gp/MultitaskMean+MultitaskKernel[P]/MultitaskGaussian[P]/{tag(('P', P), ('Dx', Dx))}"
            x, y, xt = X(Dx, n), N(*Dx, n, T), X(Dx, nt)
            inp = {"model": "ExactGP: MultitaskMean(ConstantMean[P], 2 tasks), MultitaskKernel(RBF[P], 2 tasks, rank 1, batch P), MultitaskGaussianLikelihood(2 tasks, rank 0, batch P)", "parameter_batch_shape": list(P),
                   "data_batch_shape": list(Dx), "train_x": tl(x), "train_y": tl(y), "test_x": tl(xt), "seed": seed}

            def parts(Q):
                return (GM.MultitaskMean(GM.ConstantMean(batch_shape=S(Q)), num_tasks=T), GK.MultitaskKernel(GK.RBFKernel(batch_shape=S(Q)), num_tasks=T, rank=1, batch_shape=S(Q)),
                        GL.MultitaskGaussianLikelihood(num_tasks=T, rank=0, batch_shape=S(Q)))
            try:
                def build():
                    mean, covar, lik = parts(P)
                    return randomize(GP(x, y, lik, mean, covar, mt="kron").double())
                model = guarded(pre + "/construct", build, inp)
            except Raised:
                continue
            inp = dict(inp, state={k: tl(v) for k, v in model.state_dict().items()})
            QS = ("mll", "posterior_mean", "posterior_covariance")
            W, Dn = {q: {} for q in QS}, {q: {} for q in QS}
            for b in idxs(full):
                xb, yb, xtb = sl(x, full, 2, b), sl(y, full, 2, b), sl(xt, full, 2, b)
                mean0, covar0, lik0 = parts(())
                rep = copy_slice(model, GP(xb, yb, lik0, mean0, covar0, mt="kron").double(), full, b)
                with torch.no_grad():
                    rep.train()
                    W["mll"][b] = gpytorch.mlls.ExactMarginalLogLikelihood(rep.likelihood, rep)(rep(xb), yb)
                    rep.eval()
                    pr = rep(xtb)
                    W["posterior_mean"][b], W["posterior_covariance"][b] = pr.mean, pr.covariance_matrix
                    # dense: interleaved layout (row = i * T + a), K = Kx kron Kt
                    Kxx, Ktx, Ktt = rep.covar_module(xb).to_dense(), rep.covar_module(xtb, xb).to_dense(), rep.covar_module(xtb).to_dense()
                    mx, mt_ = rep.mean_module(xb).reshape(-1), rep.mean_module(xtb).reshape(-1)
                    s_ = (rep.likelihood.task_noises + rep.likelihood.noise).repeat(n)
                    Lc = torch.linalg.cholesky(Kxx + torch.diag(s_))
                    r_ = yb.reshape(-1) - mx
                    al = torch.cholesky_solve(r_.unsqueeze(-1), Lc).squeeze(-1)
                    Dn["mll"][b] = (-0.5 * r_ @ al - Lc.diagonal().log().sum() - 0.5 * n * T * LOG2PI) / (n * T)
                    Dn["posterior_mean"][b] = (mt_ + Ktx @ al).reshape(nt, T)
                    Dn["posterior_covariance"][b] = Ktt - Ktx @ torch.cholesky_solve(Ktx.transpose(-1, -2), Lc)
            got = {}
            with torch.no_grad():
                try:
                    model.train()
                    got["mll"] = guarded(pre + "/mll", lambda: gpytorch.mlls.ExactMarginalLogLikelihood(model.likelihood, model)(model(x), y), inp)
                except Raised:
                    pass
                try:
                    model.eval()
                    pred = guarded(pre + "/posterior", lambda: model(xt), inp)
                    got["posterior_mean"], got["posterior_covariance"] = pred.mean, guarded(pre + "/posterior", lambda: pred.covariance_matrix, inp)
                except Raised:
                    pass
            for q, g in got.items():
                ln = f"exact_gp/Multitask/{q}/unexpanded_shape" if q != "mll" else None
                compare(f"{pre}/{q}/vs_replica", g, W[q], full, inp, lenient=ln)
                compare(f"{pre}/{q}/vs_dense", g, Dn[q], full, inp, lenient=ln)

        # ---- batch-independent multi-output GP: the LAST batch dimension (size T) becomes the task dimension
        T = 3
        for outer, Dx in (((), ()), ((2,), ()), ((2,), (2, 1)), ((), (T,))):
            Pm = (*outer, T)
            pre = f"exact_gp/batch_independent_multioutput/{tag(('outer', outer), ('Dx', Dx))}"
            x, xt = X(Dx, n), X(Dx, nt)
            fy = bc(outer, Dx[:-1]) if len(Dx) else tuple(outer)
            y = N(*fy, n, T)
            inp = {"model": f"ExactGP: ConstantMean[{list(Pm)}], ScaleKernel(RBF)[{list(Pm)}], forward = MultitaskMultivariateNormal.from_batch_mvn(MVN(mean, covar)); MultitaskGaussianLikelihood({T} tasks, rank 0, batch {list(outer)})",
                   "train_x": tl(x), "train_y": tl(y), "test_x": tl(xt), "seed": seed}
            try:
                model = guarded(pre + "/construct", lambda: randomize(GP(x, y, GL.MultitaskGaussianLikelihood(num_tasks=T, rank=0, batch_shape=S(outer)), GM.ConstantMean(batch_shape=S(Pm)),
                                                                            GK.ScaleKernel(GK.RBFKernel(batch_shape=S(Pm)), batch_shape=S(Pm)), mt="batch").double()), inp)
            except Raised:
                continue
            inp = dict(inp, state={k: tl(v) for k, v in model.state_dict().items()})
            full = fy  # batch shape of the multitask distribution
            fullT = (*full, T)
            Dn = {q: {} for q in ("mll", "posterior_mean", "posterior_covariance")}
            lk = model.likelihood
            for b in idxs(full):
                tot = 0.0
                pm, pc = torch.zeros(nt, T, dtype=dt), torch.zeros(nt * T, nt * T, dtype=dt)
                for a in range(T):
                    ba = (*b, a)
                    xb = sl(x, fullT, 2, ba)
                    xtb = sl(xt, fullT, 2, ba)
                    yb = sl(y, full, 2, b)[:, a]
                    kern = copy_slice(model.covar_module, GK.ScaleKernel(GK.RBFKernel()).double(), fullT, ba)
                    mean = copy_slice(model.mean_module, GM.ConstantMean().double(), fullT, ba)
                    with torch.no_grad():
                        s2 = sl(lk.task_noises, full, 1, b)[a] + sl(lk.noise, full, 1, b).reshape(())
                        Kxx, Ktx, Ktt = kern(xb).to_dense(), kern(xtb, xb).to_dense(), kern(xtb).to_dense()
                        mx, mt_ = mean(xb), mean(xtb)
                        Lc = torch.linalg.cholesky(Kxx + s2 * torch.eye(n, dtype=dt))
                        al = torch.cholesky_solve((yb - mx).unsqueeze(-1), Lc).squeeze(-1)
                        tot = tot + (-0.5 * (yb - mx) @ al - Lc.diagonal().log().sum() - 0.5 * n * LOG2PI)
                        pm[:, a] = mt_ + Ktx @ al
                        pc[a::T, a::T] = Ktt - Ktx @ torch.cholesky_solve(Ktx.transpose(-1, -2), Lc)
                Dn["mll"][b], Dn["posterior_mean"][b], Dn["posterior_covariance"][b] = tot / (n * T), pm, pc
            with torch.no_grad():
                try:
                    model.train()
                    g = guarded(pre + "/mll", lambda: gpytorch.mlls.ExactMarginalLogLikelihood(lk, model)(model(x), y), inp)
                    compare(f"{pre}/mll/vs_dense_sum_of_task_replicas", g, Dn["mll"], full, inp)
                except Raised:
                    pass
                try:
                    model.eval()
                    pred = guarded(pre + "/posterior", lambda: model(xt), inp)
                    compare(f"{pre}/posterior_mean/vs_dense_task_replicas", pred.mean, Dn["posterior_mean"], full, inp)
                    compare(f"{pre}/posterior_covariance/vs_dense_task_replicas", guarded(pre + "/posterior", lambda: pred.covariance_matrix, inp), Dn["posterior_covariance"], full, inp)
                except Raised:
                    pass


    # ================================================================== 5. variational models
    GV = gpytorch.variational
    M = 3  # inducing points

    class SVGP(gpytorch.models.ApproximateGP):
        def __init__(self, strategy_builder, mean, covar):
            super().__init__(strategy_builder(self))
            self.mean_module, self.covar_module = mean, covar

        def forward(self, x):
            return MVN(self.mean_module(x), self.covar_module(x))

    def mark_initialized(model):
        for mod in model.modules():
            if hasattr(mod, "variational_params_initialized") and torch.is_tensor(getattr(mod, "variational_params_initialized", None)):
                mod.variational_params_initialized.fill_(1)
        return model

    def z_init(Zb):
        return torch.linspace(-1.0, 1.0, M, dtype=dt).reshape(M, 1).expand(*Zb, M, d) + 0.25 * U(-1, 1, *Zb, M, d)

    def hyper(Q):
        return GM.ConstantMean(batch_shape=S(Q)), GK.ScaleKernel(GK.RBFKernel(batch_shape=S(Q)), batch_shape=S(Q))

    def variational_families():
        F = []
        dists = {"Cholesky": GV.CholeskyVariationalDistribution, "MeanField": GV.MeanFieldVariationalDistribution, "Delta": GV.DeltaVariationalDistribution,
                 "Natural": GV.NaturalVariationalDistribution, "TrilNatural": GV.TrilNaturalVariationalDistribution}

        def std(strat, dist, zmode, **kw):
            def make(P, Z):
                return SVGP(lambda m: strat(m, Z, dists[dist](M, batch_shape=S(P)), learn_inducing_locations=True, **kw), *hyper(P))
            return make

        for dname in dists:
            for zmode in ("shared_Z", "batched_Z"):
                F.append({"name": f"VariationalStrategy/{dname}/{zmode}", "make": std(GV.VariationalStrategy, dname, zmode), "zmode": zmode, "core": dname == "Cholesky", "dense": "whitened" if dname == "Cholesky" else None, "tol": TOL})
        for zmode in ("shared_Z", "batched_Z"):
            F.append({"name": f"UnwhitenedVariationalStrategy/Cholesky/{zmode}", "make": std(GV.UnwhitenedVariationalStrategy, "Cholesky", zmode), "zmode": zmode, "core": zmode == "batched_Z", "dense": "unwhitened", "tol": TOL})
        F.append({"name": "CiqVariationalStrategy/Natural/batched_Z", "make": std(GV.CiqVariationalStrategy, "Natural", "batched_Z"), "zmode": "batched_Z", "core": False, "dense": None, "tol": 1e-3})

        def bdec(mvdim):
            def make(P, Z):
                Q = (*P, 2) if mvdim else (*P, 1)
                return SVGP(lambda m: GV.BatchDecoupledVariationalStrategy(m, Z, GV.CholeskyVariationalDistribution(M, batch_shape=S(P)), learn_inducing_locations=True, mean_var_batch_dim=mvdim), *hyper(Q))
            return make
        F.append({"name": "BatchDecoupledVariationalStrategy/separate_hypers/batched_Z", "make": bdec(-1), "zmode": "batched_Z", "core": False, "dense": None, "tol": TOL})
        F.append({"name": "BatchDecoupledVariationalStrategy/shared_hypers/shared_Z", "make": bdec(None), "zmode": "shared_Z", "core": False, "dense": None, "tol": TOL})

        def odec(P, Z):
            def sb(m):
                base = GV.VariationalStrategy(m, Z, GV.CholeskyVariationalDistribution(M, batch_shape=S(P)), learn_inducing_locations=True)
                return GV.OrthogonallyDecoupledVariationalStrategy(base, Z + 0.3, GV.DeltaVariationalDistribution(M, batch_shape=S(P)))
            return SVGP(sb, *hyper(P))
        F.append({"name": "OrthogonallyDecoupledVariationalStrategy/batched_Z", "make": odec, "zmode": "batched_Z", "core": False, "dense": None, "tol": TOL})

        def gridvs(P, Z):
            return SVGP(lambda m: GV.GridInterpolationVariationalStrategy(m, 6, [(-1.5, 1.5)] * d, GV.CholeskyVariationalDistribution(36, batch_shape=S(P))), *hyper(P))
        F.append({"name": "GridInterpolationVariationalStrategy/Cholesky", "make": gridvs, "zmode": "shared_Z", "core": False, "dense": None, "tol": TOL})
        return F

    def variational_section():
        Ndata = 2 * n
        nt = 3
        jit = gpytorch.settings.variational_cholesky_jitter.value(dt)
        for fam in variational_families():
            pairs = PAIRS if (fam["core"] and thorough) else (SPREAD + [((2,), (1, 2)), ((3, 1), (2,))] if fam["core"] else SPREAD)
            for P, D in pairs:
                Zb = tuple(P) if fam["zmode"] == "batched_Z" else ()
                full = bc(P, D)
                pre = f"variational/{fam['name']}/{tag(('P', P), ('D', D))}"
                x, y, xt, Z = X(D, n), N(*D, n), X(D, nt), z_init(Zb)
                ybin = (y > 0).to(dt)
                inp = {"model": fam["name"] + ", ConstantMean + ScaleKernel(RBFKernel), GaussianLikelihood, all with parameter batch shape P", "parameter_batch_shape": list(P), "inducing_batch_shape": list(Zb),
                       "data_batch_shape": list(D), "x": tl(x), "y": tl(y), "x_test": tl(xt), "num_data": Ndata, "seed": seed}
                try:
                    model = guarded(pre + "/construct", lambda: mark_initialized(randomize(fam["make"](P, Z).double())), inp)
                    lik = randomize(GL.GaussianLikelihood(batch_shape=S(P)).double())
                except Raised:
                    continue
                inp = dict(inp, state={k: tl(v) for k, v in model.state_dict().items()}, likelihood_raw_noise=tl(lik.noise_covar.raw_noise))
                QS = ("qf_mean", "qf_covariance", "kl", "elbo", "elbo_bernoulli", "pll", "qf_eval_mean", "qf_eval_covariance")
                W, Dn = {q: {} for q in QS}, {q: {} for q in QS}
                replica_failed = False
                for b in idxs(full):
                    xb, yb, xtb = sl(x, full, 2, b), sl(y, full, 1, b), sl(xt, full, 2, b)
                    try:
                        rep = copy_slice(model, fam["make"]((), sl(Z, full, 2, b).clone()).double(), full, b)
                        rl = copy_slice(lik, GL.GaussianLikelihood().double(), full, b)
                        with torch.no_grad():
                            rep.train()
                            o = rep(xb)
                            W["qf_mean"][b], W["qf_covariance"][b] = o.mean, o.covariance_matrix
                            W["kl"][b] = rep.variational_strategy.kl_divergence()
                            W["elbo"][b] = gpytorch.mlls.VariationalELBO(rl, rep, num_data=Ndata)(o, yb)
                            W["pll"][b] = gpytorch.mlls.PredictiveLogLikelihood(rl, rep, num_data=Ndata)(o, yb)
                            W["elbo_bernoulli"][b] = gpytorch.mlls.VariationalELBO(GL.BernoulliLikelihood(), rep, num_data=Ndata)(o, (yb > 0).to(dt))
                            rep.eval()
                            o = rep(xtb)
                            W["qf_eval_mean"][b], W["qf_eval_covariance"][b] = o.mean, o.covariance_matrix
                    except Exception as e:  # noqa: BLE001
                        if classify_replay_exception(e).get("violates"):
                            skip(pre, f"the NON-batched replica raised {type(e).__name__}: {str(e)[:200]} (not a batch-mode finding)")
                            replica_failed = True
                            break
                        raise
                    if fam["dense"]:
                        with torch.no_grad():
                            vs, vd = rep.variational_strategy, rep.variational_strategy._variational_distribution
                            Zr = vs.inducing_points
                            kern, mean = rep.covar_module, rep.mean_module
                            m_, Lq = vd.variational_mean, vd.chol_variational_covar.tril()
                            Sq = Lq @ Lq.transpose(-1, -2)
                            s2 = rl.noise.reshape(())
                            I_M = torch.eye(M, dtype=dt)

                            def qf(xx, training):
                                Kzz, Kzx, Kxx = kern(Zr).to_dense() + jit * I_M, kern(Zr, xx).to_dense(), kern(xx).to_dense()
                                if fam["dense"] == "whitened":
                                    A = torch.linalg.solve_triangular(torch.linalg.cholesky(Kzz), Kzx, upper=False)
                                    return mean(xx) + A.transpose(-1, -2) @ m_, Kxx + jit * torch.eye(xx.shape[-2], dtype=dt) + A.transpose(-1, -2) @ (Sq - I_M) @ A
                                Bm = torch.linalg.solve(Kzz, Kzx).transpose(-1, -2)
                                mu = mean(xx) + Bm @ (m_ - mean(Zr))
                                if training:  # documented shortcut of the unwhitened strategy in training mode: only the diagonal of the conditional term
                                    return mu, Bm @ Sq @ Bm.transpose(-1, -2) + torch.diag((Kxx.diagonal() - (Bm @ Kzx).diagonal()).clamp_min(0))
                                return mu, Bm @ Sq @ Bm.transpose(-1, -2) + Kxx - Bm @ Kzx
                            mu, cv = qf(xb, True)
                            Dn["qf_mean"][b], Dn["qf_covariance"][b] = mu, cv
                            if fam["dense"] == "whitened":
                                kl = 0.5 * (Sq.diagonal().sum() + m_ @ m_ - M - torch.linalg.slogdet(Sq)[1])
                            else:
                                Kzz = kern(Zr).to_dense() + jit * I_M
                                dm = m_ - mean(Zr)
                                kl = 0.5 * (torch.linalg.solve(Kzz, Sq).diagonal().sum() + dm @ torch.linalg.solve(Kzz, dm) - M + torch.linalg.slogdet(Kzz)[1] - torch.linalg.slogdet(Sq)[1])
                            var = cv.diagonal()
                            Dn["kl"][b] = kl
                            Dn["elbo"][b] = (-0.5 * (((yb - mu) ** 2 + var) / s2 + s2.log() + LOG2PI)).sum() / n - kl / Ndata
                            Dn["pll"][b] = (-0.5 * ((yb - mu) ** 2 / (var + s2) + (var + s2).log() + LOG2PI)).sum() / n - kl / Ndata
                            mu, cv = qf(xtb, False)
                            Dn["qf_eval_mean"][b], Dn["qf_eval_covariance"][b] = mu, cv
                if replica_failed:
                    continue
                got = {}
                with torch.no_grad():
                    try:
                        model.train()
                        o = guarded(pre + "/qf", lambda: model(x), inp)
                        got["qf_mean"], got["qf_covariance"] = o.mean, guarded(pre + "/qf", lambda: o.covariance_matrix, inp)
                        for q, fn in (("kl", lambda: model.variational_strategy.kl_divergence()),
                                      ("elbo", lambda: gpytorch.mlls.VariationalELBO(lik, model, num_data=Ndata)(o, y)),
                                      ("pll", lambda: gpytorch.mlls.PredictiveLogLikelihood(lik, model, num_data=Ndata)(o, y)),
                                      ("elbo_bernoulli", lambda: gpytorch.mlls.VariationalELBO(GL.BernoulliLikelihood(), model, num_data=Ndata)(o, ybin))):
                            try:
                                got[q] = guarded(f"{pre}/{q}", fn, inp)
                            except Raised:
                                pass
                    except Raised:
                        pass
                    try:
                        model.eval()
                        o = guarded(pre + "/qf_eval", lambda: model(xt), inp)
                        got["qf_eval_mean"], got["qf_eval_covariance"] = o.mean, guarded(pre + "/qf_eval", lambda: o.covariance_matrix, inp)
                    except Raised:
                        pass
                for q, g in got.items():
                    ln = f"variational/{fam['name']}/{q}/unexpanded_shape" if q.startswith("qf") else None
                    ex = full
                    if q == "kl":  # KL(q(u) || p(u)) has the parameter batch shape; strategies that cache the expanded prior return it with the full batch shape
                        ex = tuple(g.shape) if tuple(g.shape) in (tuple(P), tuple(full)) else tuple(P)
                    compare(f"{pre}/{q}/vs_replica", g, W[q], full, inp, tol=fam["tol"], expect=ex, lenient=ln)
                    if Dn[q]:
                        compare(f"{pre}/{q}/vs_dense", g, Dn[q], full, inp, tol=fam["tol"], expect=ex, lenient=ln)

        # ---- the approximate MLLs with parameter priors (log prior of element b only)
        for P, D in [((2,), (2,)), ((3, 2), (3, 2)), ((2,), ())]:
            full = bc(P, D)
            pre = f"variational/VariationalStrategy/Cholesky/with_priors/{tag(('P', P), ('D', D))}"
            x, y, Z = X(D, n), N(*D, n), z_init(P)

            def mk(Q, Zq):
                mean = GM.ConstantMean(batch_shape=S(Q), constant_prior=NormalPrior(0.0, 1.0))
                covar = GK.ScaleKernel(GK.RBFKernel(batch_shape=S(Q), lengthscale_prior=GammaPrior(2.0, 3.0)), batch_shape=S(Q), outputscale_prior=GammaPrior(2.0, 1.5))
                return SVGP(lambda m: GV.VariationalStrategy(m, Zq, GV.CholeskyVariationalDistribution(M, batch_shape=S(Q)), learn_inducing_locations=True), mean, covar)
            inp = {"model": "SVGP (VariationalStrategy, Cholesky) with NormalPrior(0,1) on the constant, GammaPrior(2,3) on the lengthscale, GammaPrior(2,1.5) on the outputscale; GaussianLikelihood[P]",
                   "parameter_batch_shape": list(P), "data_batch_shape": list(D), "x": tl(x), "y": tl(y), "num_data": Ndata, "seed": seed}
            try:
                model = guarded(pre + "/construct", lambda: mark_initialized(randomize(mk(P, Z).double())), inp)
            except Raised:
                continue
            lik = randomize(GL.GaussianLikelihood(batch_shape=S(P)).double())
            inp = dict(inp, state={k: tl(v) for k, v in model.state_dict().items()}, likelihood_raw_noise=tl(lik.noise_covar.raw_noise))
            for cname, cls in (("elbo", gpytorch.mlls.VariationalELBO), ("pll", gpytorch.mlls.PredictiveLogLikelihood)):
                W = {}
                for b in idxs(full):
                    rep = copy_slice(model, mk((), sl(Z, full, 2, b).clone()).double(), full, b)
                    rl = copy_slice(lik, GL.GaussianLikelihood().double(), full, b)
                    with torch.no_grad():
                        rep.train()
                        W[b] = cls(rl, rep, num_data=Ndata)(rep(sl(x, full, 2, b)), sl(y, full, 1, b))
                try:
                    with torch.no_grad():
                        model.train()
                        g = guarded(f"{pre}/{cname}", lambda: cls(lik, model, num_data=Ndata)(model(x), y), inp)
                    compare(f"{pre}/{cname}/vs_replica", g, W, full, inp)
                except Raised:
                    pass

        # ---- multitask wrappers: a batch dimension of independent GPs becomes the task dimension
        T = 3
        for outer, D in (((), ()), ((2,), ()), ((2,), (2, 1)), ((), (T,))):
            Pm = (*outer, T)
            fullT = bc(Pm, D)
            full = fullT[:-1]
            x = X(D, n)
            Z = z_init(Pm)

            def mk_task(Q, Zq):
                return SVGP(lambda m: GV.VariationalStrategy(m, Zq, GV.CholeskyVariationalDistribution(M, batch_shape=S(Q)), learn_inducing_locations=True), *hyper(Q))
            # IndependentMultitaskVariationalStrategy: task a of the output == replica a
            pre = f"variational/IndependentMultitaskVariationalStrategy/{tag(('outer', outer), ('D', D))}"
            inp = {"model": f"IndependentMultitaskVariationalStrategy(VariationalStrategy(Cholesky, batch {list(Pm)}), num_tasks={T}), ConstantMean + ScaleKernel(RBF) batch {list(Pm)}", "x": tl(x), "seed": seed}
            try:
                model = guarded(pre + "/construct", lambda: mark_initialized(randomize(SVGP(
                    lambda m: GV.IndependentMultitaskVariationalStrategy(GV.VariationalStrategy(m, Z, GV.CholeskyVariationalDistribution(M, batch_shape=S(Pm)), learn_inducing_locations=True), num_tasks=T), *hyper(Pm)).double())), inp)
                inp = dict(inp, state={k: tl(v) for k, v in model.state_dict().items()})
                Wm, Wc, Wk = {}, {}, {}
                for b in idxs(full):
                    pm, pc, kl = torch.zeros(n, T, dtype=dt), torch.zeros(n * T, n * T, dtype=dt), 0.0
                    for a in range(T):
                        ba = (*b, a)
                        rep = mk_task((), sl(Z, fullT, 2, ba).clone()).double()
                        # the wrapper adds one level to the parameter names: variational_strategy.base_variational_strategy.*
                        src = {k.replace("base_variational_strategy.", ""): v for k, v in list(model.named_parameters()) + list(model.named_buffers())}
                        with torch.no_grad():
                            for nm, t_ in list(rep.named_parameters()) + list(rep.named_buffers()):
                                t_.copy_(sl(src[nm].detach(), fullT, t_.dim(), ba))
                            rep.train()
                            o = rep(sl(x, fullT, 2, ba))
                            pm[:, a], kl = o.mean, kl + rep.variational_strategy.kl_divergence()
                            pc[a::T, a::T] = o.covariance_matrix
                    Wm[b], Wc[b], Wk[b] = pm, pc, kl
                with torch.no_grad():
                    model.train()
                    o = guarded(pre + "/qf", lambda: model(x), inp)
                    compare(pre + "/qf_mean/vs_task_replicas", o.mean, Wm, full, inp)
                    compare(pre + "/qf_covariance/vs_task_replicas", guarded(pre + "/qf", lambda: o.covariance_matrix, inp), Wc, full, inp)
                    compare(pre + "/kl/vs_sum_of_task_replicas", guarded(pre + "/kl", lambda: model.variational_strategy.kl_divergence(), inp), Wk, full, inp, expect=tuple(outer))
            except Raised:
                pass
            # LMCVariationalStrategy: output = sum_l a_{l,t} f_l of independent latent replicas
            pre = f"variational/LMCVariationalStrategy/{tag(('outer', outer), ('D', D))}"
            NT = 2
            inp = {"model": f"LMCVariationalStrategy(VariationalStrategy(Cholesky, batch {list(Pm)}), num_tasks={NT}, num_latents={T}, latent_dim=-1), ConstantMean + ScaleKernel(RBF) batch {list(Pm)}", "x": tl(x), "seed": seed}
            try:
                model = guarded(pre + "/construct", lambda: mark_initialized(randomize(SVGP(
                    lambda m: GV.LMCVariationalStrategy(GV.VariationalStrategy(m, Z, GV.CholeskyVariationalDistribution(M, batch_shape=S(Pm)), learn_inducing_locations=True), num_tasks=NT, num_latents=T, latent_dim=-1), *hyper(Pm)).double())), inp)
                inp = dict(inp, state={k: tl(v) for k, v in model.state_dict().items()})
                Wm, Wc, Wk = {}, {}, {}
                coef = model.variational_strategy.lmc_coefficients.detach()  # (*Pm, NT)
                for b in idxs(full):
                    pm, pc, kl = torch.zeros(n, NT, dtype=dt), torch.zeros(n * NT, n * NT, dtype=dt), 0.0
                    for a in range(T):
                        ba = (*b, a)
                        rep = mk_task((), sl(Z, fullT, 2, ba).clone()).double()
                        src = {k.replace("base_variational_strategy.", ""): v for k, v in list(model.named_parameters()) + list(model.named_buffers())}
                        with torch.no_grad():
                            for nm, t_ in list(rep.named_parameters()) + list(rep.named_buffers()):
                                t_.copy_(sl(src[nm].detach(), fullT, t_.dim(), ba))
                            rep.train()
                            o = rep(sl(x, fullT, 2, ba))
                            c = sl(coef, fullT, 1, ba)  # (NT,)
                            pm = pm + o.mean.unsqueeze(-1) * c
                            cc = torch.outer(c, c)
                            pc = pc + (o.covariance_matrix.unsqueeze(-1).unsqueeze(-3) * cc.unsqueeze(-2).unsqueeze(-4)).reshape(n * NT, n * NT)
                            kl = kl + rep.variational_strategy.kl_divergence()
                    Wm[b], Wc[b], Wk[b] = pm, pc + jit * torch.eye(n * NT, dtype=dt), kl
                with torch.no_grad():
                    model.train()
                    o = guarded(pre + "/qf", lambda: model(x), inp)
                    compare(pre + "/qf_mean/vs_mixed_latent_replicas", o.mean, Wm, full, inp)
                    compare(pre + "/qf_covariance/vs_mixed_latent_replicas", guarded(pre + "/qf", lambda: o.covariance_matrix, inp), Wc, full, inp)
                    compare(pre + "/kl/vs_sum_of_latent_replicas", guarded(pre + "/kl", lambda: model.variational_strategy.kl_divergence(), inp), Wk, full, inp, expect=tuple(outer))
            except Raised:
                pass

    # ================================================================== 6. IndependentModelList / SumMarginalLogLikelihood
    def modellist_section():
        nt = 3

        def member(Bm, nm):
            x, y = X(Bm, nm), N(*Bm, nm)
            return randomize(GP(x, y, GL.GaussianLikelihood(batch_shape=S(Bm)), GM.ConstantMean(batch_shape=S(Bm)), GK.ScaleKernel(GK.RBFKernel(batch_shape=S(Bm)), batch_shape=S(Bm))).double())

        def dense_member(mod, b, full, xt):
            """(mll_b, posterior mean_b, posterior covariance_b) of batch element b of one member, dense"""
            x, y = mod.train_inputs[0], mod.train_targets
            xb, yb, xtb = sl(x, full, 2, b), sl(y, full, 1, b), sl(xt, full, 2, b)
            rep = copy_slice(mod, GP(xb, yb, GL.GaussianLikelihood(), GM.ConstantMean(), GK.ScaleKernel(GK.RBFKernel())).double(), full, b)
            with torch.no_grad():
                k = xb.shape[-2]
                Kxx, Ktx, Ktt = rep.covar_module(xb).to_dense(), rep.covar_module(xtb, xb).to_dense(), rep.covar_module(xtb).to_dense()
                mx, mt_ = rep.mean_module(xb), rep.mean_module(xtb)
                Lc = torch.linalg.cholesky(Kxx + rep.likelihood.noise.reshape(()) * torch.eye(k, dtype=dt))
                al = torch.cholesky_solve((yb - mx).unsqueeze(-1), Lc).squeeze(-1)
                return ((-0.5 * (yb - mx) @ al - Lc.diagonal().log().sum() - 0.5 * k * LOG2PI) / k, mt_ + Ktx @ al, Ktt - Ktx @ torch.cholesky_solve(Ktx.transpose(-1, -2), Lc))

        for shapes in (((), ()), ((2,), (2,)), ((3, 2), (3, 2)), ((), (), ()), ((2,), ()), ((3, 1), (1, 2)), ((2,), (3, 2), ())):
            pre = f"model_list/members{'+'.join(str(list(s_)) for s_ in shapes)}"
            mods = [member(Bm, n + i) for i, Bm in enumerate(shapes)]
            full = bc(*shapes)
            xts = [X(Bm, nt) for Bm in shapes]
            inp = {"members": [f"ExactGP batch {list(Bm)}, n = {n + i}" for i, Bm in enumerate(shapes)], "seed": seed,
                   "state": [{k: tl(v) for k, v in m_.state_dict().items()} for m_ in mods], "train_x": [tl(m_.train_inputs[0]) for m_ in mods], "train_y": [tl(m_.train_targets) for m_ in mods], "test_x": [tl(t_) for t_ in xts]}
            try:
                ml = guarded(pre + "/construct", lambda: gpytorch.models.IndependentModelList(*mods), inp)
                with torch.no_grad():
                    ml.train()
                    outs = guarded(pre + "/train_outputs", lambda: ml(*ml.train_inputs), inp)
                    rec(pre + "/train_outputs/count", len(outs) == len(mods), f"{len(outs)} outputs for {len(mods)} members", inp)
                    for i, (o, m_) in enumerate(zip(outs, mods)):
                        oi = m_(*m_.train_inputs)
                        same(f"{pre}/train_outputs/member{i}/mean", o.mean, oi.mean, "list output mean", "member output mean", inp, tol=0.0)
                        same(f"{pre}/train_outputs/member{i}/covariance", o.covariance_matrix, oi.covariance_matrix, "list output covariance", "member output covariance", inp, tol=0.0)
                    smll = gpytorch.mlls.SumMarginalLogLikelihood(ml.likelihood, ml)
                    val = guarded(pre + "/sum_mll", lambda: smll(outs, ml.train_targets), inp)
                    each = [gpytorch.mlls.ExactMarginalLogLikelihood(m_.likelihood, m_)(m_(*m_.train_inputs), m_.train_targets) for m_ in mods]
                    want = sum(torch.broadcast_to(e, full) for e in each) / len(mods)
                    same(pre + "/sum_mll/vs_mean_of_member_mlls", val, want, "SumMarginalLogLikelihood", "mean of the members' ExactMarginalLogLikelihood", inp)
                    Wd = {b: sum(dense_member(m_, b, full, xt_)[0] for m_, xt_ in zip(mods, xts)) / len(mods) for b in idxs(full)}
                    compare(pre + "/sum_mll/vs_dense_replicas", val, Wd, full, inp)
                    ml.eval()
                    preds = guarded(pre + "/eval_outputs", lambda: ml(*xts), inp)
                    for i, (o, m_, xt_) in enumerate(zip(preds, mods, xts)):
                        fb = tuple(shapes[i])
                        compare(f"{pre}/eval_outputs/member{i}/mean/vs_dense_replicas", o.mean, {b: dense_member(m_, b, fb, xt_)[1] for b in idxs(fb)}, fb, inp)
                        compare(f"{pre}/eval_outputs/member{i}/covariance/vs_dense_replicas", o.covariance_matrix, {b: dense_member(m_, b, fb, xt_)[2] for b in idxs(fb)}, fb, inp)
                    noisy = guarded(pre + "/likelihood_outputs", lambda: ml.likelihood(*preds), inp)
                    for i, (o, m_, p_) in enumerate(zip(noisy, mods, preds)):
                        oi = m_.likelihood(p_)
                        same(f"{pre}/likelihood_outputs/member{i}/covariance", o.covariance_matrix, oi.covariance_matrix, "LikelihoodList output covariance", "member likelihood output covariance", inp, tol=0.0)
            except Raised:
                pass

    sections = {"kernels": kernel_section, "means": mean_section, "likelihoods": likelihood_section, "exact": exact_section, "exact_special": exact_special_section,
                "variational": variational_section, "model_list": modellist_section}
    ctxs = [gpytorch.settings.fast_computations(covar_root_decomposition=False, log_prob=False, solves=False), gpytorch.settings.max_cholesky_size(10000),
            gpytorch.settings.fast_pred_var(False), gpytorch.settings.debug(True)]
    import contextlib
    with contextlib.ExitStack() as st:
        for c in ctxs:
            st.enter_context(c)
        for sname, fn in sections.items():
            if only is None or sname in only:
                fn()

    skipped_static = [{"key": "variational/NNVariationalStrategy", "reason": "needs faiss / a k-NN index and stochastic minibatches"},
                      {"key": "kernel/keops.*, kernel/MultiDeviceKernel", "reason": "need KeOps / CUDA devices"}]
    return {"name": "C08 batch mode == independent replicas (float64)", "evaluations": ev, "distinct_nontrivial": len(seen),
            "bound": (f"tier={tier}, seed={seed}: parameter batch shapes P and data batch shapes D in {{(), (2,), (3,1), (1,2), (3,2)}} independently "
                      f"({'all 25 pairs everywhere' if thorough else 'all 25 pairs for core kernels / means / noise / Gaussian likelihoods / the main exact GP; a spread of 9-11 pairs for the long tail'}); "
                      "mixed parameter batch shapes inside composites (cross: (2,)x(3,1), (3,1)x(1,2); last: P[-1:]; unbatched parts); exact GPs also train-target batch Dy and test batch Dt in {(), (2,), (3,2)}; "
                      "n1 = 3, n2 = 4 points (kernels), n = 4 train / 3 test points (models), input dim 2, 3 inducing points (grid strategy 36), 2-3 tasks, num_data = 2n; "
                      "one seeded draw of all raw parameters (0.6 * randn) and data (U(-1.2, 1.2)) per configuration; index expressions int / slice / (int, int) / (:, int) / (int, :); "
                      "settings: fast_computations off (exact MLL also under the default), max_cholesky_size 10000, fast_pred_var off, default jitters; tolerance 1e-6 * (1 + |want|) (Ciq 1e-3)"),
            "rule": "a case = (module family / configuration, parameter batch shape, data batch shape(s), quantity, reference {replica, dense}); distinct by that key; an evaluation = one batch element compared (or one whole-tensor comparison)",
            "samples": samples, "violations": violations, "skipped": skipped + skipped_static, "wall_s": round(time.time() - t0, 2)}
