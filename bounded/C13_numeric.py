"""C13 bounded stand-in (NOT counted as proved): numerical checks in float64 against exact moments / adaptive integration.

  * dependency contract used by the proof tier: numpy hermgauss nodes/weights have the Hermite moments (Q = 1..64, q < min(2Q, 24))
  * the real GaussHermiteQuadrature1D integrates random polynomials of degree < min(2Q, 10) exactly against N(m, v)
    (nodes are stored in float32 by the library: tolerance 5e-5 relative), batch shapes (), (3,), (2, 3), v = 0 included
  * expected_log_prob / log_marginal of Bernoulli, Laplace, Student-t, Beta vs mpmath adaptive integration of the documented
    conditional densities; the error with 80 nodes is not larger than with 20 and below 6e-2 (Laplace: kinked integrand) / 3e-3 (smooth)
  * Bernoulli marginal = integral of Phi(f) N(f; m, v)  (probit identity) to 1e-7
  * log_normal_cdf vs log_ndtr on a dense grid of [-40, 10]: <= 2e-3 absolute everywhere, <= 1e-12 for z >= -1; derivative vs
    phi/Phi to 2e-3 relative
"""
from __future__ import annotations

import math
import time
import types


def run(tier="quick", seed=0, only=None):
    import numpy as np
    import torch
    import mpmath as mp
    import gpytorch
    t0 = time.time()
    torch.manual_seed(seed)
    rng = np.random.default_rng(seed)
    ev, seen, violations, samples = 0, set(), [], []

    def rec(key, ok, detail="", inp=None):
        nonlocal ev
        ev += 1
        seen.add(key)
        if len(samples) < 3:
            samples.append({"case": key, "ok": bool(ok), "detail": str(detail)[:160]})
        if not ok and not any(v["key"] == key for v in violations):
            violations.append({"key": key, "input": inp or {"case": key}, "detail": str(detail), "entry": None})

    def dfact(q):  # (q-1)!!
        r = 1
        for j in range(q - 1, 0, -2):
            r *= j
        return r

    def gauss_moment(p, m, v):
        # E[(m + sqrt(v) z)^p]
        return sum(math.comb(p, q) * m ** (p - q) * v ** (q // 2) * dfact(q) for q in range(0, p + 1, 2))

    if only in (None, "quadrature"):
        Qs = (1, 2, 3, 5, 8, 13, 20, 32, 64) if tier == "quick" else tuple(range(1, 65))
        for Q in Qs:
            t, w = np.polynomial.hermite.hermgauss(Q)
            worst = 0.0
            for q in range(0, min(2 * Q, 24)):
                want = 0.0 if q % 2 else math.sqrt(math.pi) * dfact(q) / 2 ** (q // 2)
                got = float(np.sum(w * t ** q))
                worst = max(worst, abs(got - want) / max(1e-300, float(np.sum(np.abs(w) * np.abs(t) ** q))))  # relative to the sum's own magnitude
            rec(f"hermgauss_moments/Q{Q}", worst < 1e-11, f"max relative moment error {worst:.2e}")
        for Q in (1, 2, 3, 5, 10, 20):
            quad = gpytorch.utils.quadrature.GaussHermiteQuadrature1D(num_locs=Q).double()
            for shape in ((), (3,), (2, 3)):
                m = torch.randn(shape, dtype=torch.double)
                v = torch.rand(shape, dtype=torch.double) * 2
                if len(shape):
                    v.view(-1)[0] = 0.0
                deg = min(2 * Q, 10) - 1
                coef = rng.standard_normal(deg + 1)
                f = lambda x: sum(float(cf) * x ** p for p, cf in enumerate(coef))  # noqa: E731
                got = quad(f, types.SimpleNamespace(mean=m, variance=v))
                want = torch.zeros_like(m)
                for idx in np.ndindex(*shape) if len(shape) else [()]:
                    want[idx] = sum(float(cf) * gauss_moment(p, m[idx].item(), v[idx].item()) for p, cf in enumerate(coef))
                scale = 1 + want.abs().max().item() + sum(abs(float(cf)) for cf in coef) * (1 + m.abs().max().item() + 3 * v.max().item() ** 0.5) ** deg * 1e-2
                err = (got - want).abs().max().item() / scale
                rec(f"quadrature_exact_on_polynomials/Q{Q}/shape{list(shape)}", got.shape == want.shape and err < 5e-5, f"degree {deg}: max scaled error {err:.2e}")

    if only in (None, "likelihood"):
        mp.mp.dps = 30
        L = gpytorch.likelihoods
        npdf = lambda f, m, v: mp.npdf(f, m, mp.sqrt(v))  # noqa: E731

        def integrate(g, m, v, pts=()):
            s = math.sqrt(v)
            knots = sorted(set([m - 12 * s, m + 12 * s] + [p for p in pts if m - 12 * s < p < m + 12 * s]))
            return mp.quad(lambda f: g(f) * npdf(f, m, v), knots)

        def conds(name, lik):
            if name == "Bernoulli":
                return lambda y, f: mp.ncdf((2 * y - 1) * f)
            if name == "Laplace":
                b = math.sqrt(lik.noise.item())
                return lambda y, f: mp.exp(-abs(y - f) / b) / (2 * b)
            if name == "StudentT":
                nu, s = lik.deg_free.item(), math.sqrt(lik.noise.item())
                return lambda y, f: mp.gamma((nu + 1) / 2) / (mp.gamma(nu / 2) * mp.sqrt(nu * mp.pi) * s) * (1 + ((y - f) / s) ** 2 / nu) ** (-(nu + 1) / 2)
            if name == "Beta":
                sc = lik.scale.item()

                def p(y, f):
                    mix = 1 / (1 + mp.exp(-f))
                    a, b = mix * sc + 1, (1 - mix) * sc + 1
                    return y ** (a - 1) * (1 - y) ** (b - 1) / mp.beta(a, b)
                return p

        grid = [(0.3, 0.5), (-1.2, 2.0), (2.0, 0.1)] if tier == "quick" else [(0.3, 0.5), (-1.2, 2.0), (2.0, 0.1), (0.0, 1.0), (-3.0, 0.3), (1.0, 4.0)]
        for name in ("Bernoulli", "Laplace", "StudentT", "Beta"):
            errs = {}
            for Q in (20, 80):
                with gpytorch.settings.num_gauss_hermite_locs(Q):
                    lik = getattr(L, name + "Likelihood")().double()
                if name == "Laplace":
                    lik.noise = 0.7
                if name == "StudentT":
                    lik.noise = 0.6
                    lik.deg_free = 4.5
                if name == "Beta":
                    lik.scale = 3.0
                p = conds(name, lik)
                worst = {"expected_log_prob": 0.0, "log_marginal": 0.0}
                for (m, v) in grid:
                    # observations: typical ones and (Laplace / Student-t) one far in the tail, where p(y) is below float64 eps
                    ys = {"Bernoulli": [0.0, 1.0], "Beta": [0.2, 0.7]}.get(name, [-0.5, 1.4, 50.0])
                    for y in ys:
                        fd = gpytorch.distributions.MultivariateNormal(torch.tensor([m], dtype=torch.double), torch.tensor([[v]], dtype=torch.double))
                        yt = torch.tensor([y], dtype=torch.double)
                        with torch.no_grad():
                            got_e = lik.expected_log_prob(yt, fd).item()
                            got_m = lik.log_marginal(yt, fd).item()
                        want_e = float(integrate(lambda f: mp.log(p(y, f)), m, v, pts=(y,)))
                        want_m = float(mp.log(integrate(lambda f: p(y, f), m, v, pts=(y,))))
                        worst["expected_log_prob"] = max(worst["expected_log_prob"], abs(got_e - want_e))
                        worst["log_marginal"] = max(worst["log_marginal"], abs(got_m - want_m))
                errs[Q] = worst
            for meth in ("expected_log_prob", "log_marginal"):
                e20, e80 = errs[20][meth], errs[80][meth]
                analytic = name == "Bernoulli" and meth == "log_marginal"
                tol = 1e-6 if analytic else (6e-2 if name == "Laplace" else 3e-3)  # Laplace: kinked integrand, slow algebraic convergence
                ok = e80 <= tol and e80 <= max(e20 * 1.05, 1e-6)
                rec(f"likelihood_integral/{name}/{meth}", ok, f"max abs error vs adaptive integration: 20 nodes {e20:.2e}, 80 nodes {e80:.2e} (tolerance {tol:g})")
        # probit identity behind the analytic Bernoulli marginal
        lik = L.BernoulliLikelihood().double()
        worst = 0.0
        for (m, v) in [(0.3, 0.5), (-1.2, 2.0), (2.0, 0.1), (0.0, 9.0), (-4.0, 0.01)]:
            fd = gpytorch.distributions.MultivariateNormal(torch.tensor([m], dtype=torch.double), torch.tensor([[v]], dtype=torch.double))
            got = lik.marginal(fd).probs.item()
            want = float(integrate(lambda f: mp.ncdf(f), m, v))
            worst = max(worst, abs(got - want))
        rec("bernoulli_marginal_is_probit_integral", worst < 1e-7, f"max abs error {worst:.2e}")

    if only in (None, "lncdf"):
        from scipy.special import log_ndtr
        from gpytorch.functions import log_normal_cdf
        npts = 20001 if tier == "quick" else 200001
        z = torch.linspace(-40, 10, npts, dtype=torch.double)
        z = torch.cat([z, torch.tensor([-1.0, -1.0 - 1e-12, -1.0 + 1e-12, -0.2, 0.2, -0.2 - 1e-12, 0.2 + 1e-12, 0.0], dtype=torch.double)]).requires_grad_(True)
        out = log_normal_cdf(z)
        ref = torch.from_numpy(log_ndtr(z.detach().numpy()))
        err = (out.detach() - ref).abs()
        rec("log_normal_cdf/abs_error_whole_line", err.max().item() <= 2e-3, f"max abs error {err.max().item():.3e} at z={z[err.argmax()].item():.4f}")
        hi = z.detach() >= -1
        rec("log_normal_cdf/rounding_level_for_z_ge_-1", err[hi].max().item() <= 1e-12 * (1 + ref[hi].abs().max().item()) + 1e-13, f"max abs error for z >= -1: {err[hi].max().item():.3e}")
        (g,) = torch.autograd.grad(out.sum(), z)
        true = torch.exp(-z.detach() ** 2 / 2 - ref) / math.sqrt(2 * math.pi)
        rel = ((g - true).abs() / true)
        rec("log_normal_cdf/derivative_relative_error", rel.max().item() <= 2e-3, f"max rel error {rel.max().item():.3e} at z={z[rel.argmax()].item():.4f}")
        rec("log_normal_cdf/finite", bool(torch.isfinite(out).all() and torch.isfinite(g).all()), "finite everywhere on [-40, 10]")
    return {"name": "C13 quadrature / likelihood integrals / log_normal_cdf accuracy", "evaluations": ev, "distinct_nontrivial": len(seen),
            "bound": "Q in 1..64 nodes; polynomial degree < min(2Q, 10); 3 (quick) / 6 (thorough) (m, v) pairs x 2 observations per likelihood, 20 vs 80 nodes; "
                     "log_normal_cdf on a grid of 2e4 (quick) / 2e5 (thorough) points of [-40, 10] plus branch boundaries",
            "rule": "a case = (check, configuration); distinct by that key", "samples": samples, "violations": violations, "wall_s": round(time.time() - t0, 2)}
