"""C01 bounded stand-in (NOT counted as proved): eval-mode exact GP posterior vs the dense closed-form Gaussian conditional.

For ExactGP subclasses with Gaussian-family likelihoods the real code's  model(x*)  (mean, FULL covariance, variance) and
likelihood(model(x*))  are compared, in float64, with

    mean = m* + K*x (Kxx + S)^-1 (y - mx)          cov = K** - K*x (Kxx + S)^-1 Kx*          cov_y = cov + S*

computed HERE with dense torch.linalg (Cholesky of Kxx + S) from what the model's own kernel / mean evaluate to on the given
inputs (kernel(x1, x2).to_dense(), mean(x), evaluated under DEFAULT settings and outside the settings context under test)
and from the likelihood's noise PARAMETERS read through their public properties (the noise matrices S, S* are assembled here:
sigma^2 I; diag(fixed) + sigma2^2 I; I_n (x) (D_T + sigma^2 I_T) in the interleaved layout).  No ExactGP / prediction-strategy /
likelihood.marginal code is used by the oracle.

Families: GaussianLikelihood; FixedNoiseGaussianLikelihood without / with learned additional noise (test noise passed with
noise=...; additionally likelihood(model(x*)) WITHOUT noise= for m != n, the documented no-op of the fixed part: only the learned
noise is added); MultitaskGaussianLikelihood (rank 0 and rank 1 task noise) with MultitaskMean + Kronecker MultitaskKernel (T = 2);
gaussian_small_noise: GaussianLikelihood with sigma^2 = 2e-3 (cond(Kxx + S) up to ~1e5), direct solves only.
Kernels: Scale(RBF-ARD), Scale(Matern-5/2) + Linear, Scale(RQ * Matern-3/2), Polynomial(2), active_dims sum RBF + Scale(Matern-1/2),
Scale(Periodic).  Means: Zero, Constant, Linear.  Hyper-parameters: every raw parameter ~ 0.6 * N(0, 1) (seeded), i.e. anywhere
in the constrained range around its default; noise >= ~0.05 (except gaussian_small_noise) so that Kxx + S is well conditioned.
Sizes: n in {1, 2, 7}, d in {1, 3}, test sizes m in {1, 3, 4, 5}.
Batch configurations (model batch, train-x batch, test-x batch, target batch):
    plain; test_batch; train_batch; train_test_batch; model_batch; model_batch_shared_targets; all_batch; broadcast_2x1_3
    (train (2,1,n,d) against test (3,m,d)); model_batch_2x1_test_3; targets_batch_only (targets (2,n) with unbatched inputs/model).
Settings (every case runs on a FRESH deepcopy of the model, so no cache is shared between paths):
    lazily_evaluate_kernels on/off  x  max_eager_kernel_size 0 (joint matrix larger: lazy slicing) / 512 (eager)
    x solves: chol (fast_computations on, max_cholesky_size 800) | cg (fast_computations on, max_cholesky_size 0: CG solves and
      Lanczos root decompositions, cg_tolerance = eval_cg_tolerance = 1e-12, max_cg_iterations 500) | off0 (fast_computations
      all off, max_cholesky_size 0) | rootoff_cg (covar_root_decomposition off, solves on, size 0) | cgoff_root (solves off,
      covar_root_decomposition on, size 0)
    x fast_pred_var off/on (max_root_decomposition_size 100 >= n: full rank)  x  detach_test_caches on/off
    plus skip_posterior_variances (covariance must be exactly zero, mean still right).
    Predictions are made with autograd enabled (parameters require grad) so that the attached-cache path really is attached.
    The 30 core models (family x n x d, unbatched) get the full cross (quick: only a rotating quarter of the slow iterative-solve
    combinations); every other model (kernel x mean, batch configuration x family[, x n]) a deterministic slice (quick 1/10, thorough 1/4).
Sequences (same model object, no cache clearing): predictions at 4 different test sets (sizes 3, 1, 5, 3-again; the eager-size
    threshold n + 3 is crossed between them), then set_train_data(targets=new_y) and two more predictions.

Tolerances: |got - want| <= tol * (1 + max|want| [+ max|K**| for covariances]) with tol = 1e-6, EXCEPT
  * solves = cg / rootoff_cg / cgoff_root (iterative algorithms of the linear_operator dependency): tol = 1e-4.  linear_cg stops
    updating a column as soon as p^T A p < eps = 1e-10 (rhs normalised) and freezes a column at residual 1e-10
    (stop_updating_after); neither is controlled by cg_tolerance, so the attainable residual is ~1e-5/sqrt(lambda) whatever the
    tolerance setting says (measured here: worst passing relative error 8e-6 on the iterative paths against 3e-14 on the direct
    ones, see "worst_passing_relative_error" in the result).  The Lanczos root (inverse) decomposition used with
    fast_pred_var is full rank here but carries the same order of rounding loss.  The 1e-4 bound still separates every
    structural error (sign, transpose, dropped noise, wrong slice), which are >= 1e-2 on these problems.
Exceptions raised inside gpytorch on these inputs are violations (key .../raises); anything else is re-raised (harness defect).
"skipped" in the result lists configurations whose model construction / oracle kernel evaluation failed (none at present).
Shapes are part of every comparison: mean must be B + (m[, T]) and covariance B + (mT, mT) with B the broadcast of all batch shapes.
"""
from __future__ import annotations

import contextlib
import copy
import itertools
import time
import warnings


def run(tier="quick", seed=0, only=None):
    import torch
    import gpytorch
    from gpytorch import kernels as GK, means as GM, likelihoods as GL, settings as S
    from gpytorch.distributions import MultivariateNormal as MVN, MultitaskMultivariateNormal as MTMVN
    from engine.runner import classify_replay_exception

    warnings.filterwarnings("ignore")
    t0 = time.time()
    gen = torch.Generator().manual_seed(1000 + seed)
    D = torch.double
    T = 2  # tasks
    ev, seen, violations, samples, skipped = 0, set(), [], [], []
    worst = {"direct(tol 1e-6)": 0.0, "iterative(tol 1e-4)": 0.0}  # largest PASSING relative error per tolerance class (diagnostic)

    def rec(key, ok, detail="", inp=None):
        nonlocal ev
        ev += 1
        seen.add(key)
        if len(samples) < 3:
            samples.append({"case": key, "ok": bool(ok), "detail": str(detail)[:160]})
        if not ok and not any(v["key"] == key for v in violations):
            if callable(inp):
                inp = inp()
            violations.append({"key": key, "input": inp or {"case": key}, "detail": str(detail), "entry": None})

    def randn(*shape):
        return torch.randn(tuple(shape), dtype=D, generator=gen)

    def rand(lo, hi, *shape):
        return lo + (hi - lo) * torch.rand(tuple(shape), dtype=D, generator=gen)

    def tl(t):
        return t.detach().tolist() if torch.is_tensor(t) else t

    # ------------------------------------------------------------------ models (real gpytorch classes)
    class GP(gpytorch.models.ExactGP):
        def __init__(self, x, y, lik, mean, kern):
            super().__init__(x, y, lik)
            self.mean_module, self.covar_module = mean, kern

        def forward(self, x):
            return MVN(self.mean_module(x), self.covar_module(x))

    class MTGP(gpytorch.models.ExactGP):
        def __init__(self, x, y, lik, mean, kern):
            super().__init__(x, y, lik)
            self.mean_module, self.covar_module = mean, kern

        def forward(self, x):
            return MTMVN(self.mean_module(x), self.covar_module(x))

    def ad(d):  # active dims of the two summands
        return ([0, 2], [1]) if d == 3 else ([0], [0])

    KERNELS = {
        "scale_rbf_ard": lambda d, b: GK.ScaleKernel(GK.RBFKernel(ard_num_dims=d, batch_shape=b), batch_shape=b),
        "matern25_plus_linear": lambda d, b: GK.ScaleKernel(GK.MaternKernel(nu=2.5, batch_shape=b), batch_shape=b) + GK.LinearKernel(batch_shape=b),
        "scale_rq_times_matern15": lambda d, b: GK.ScaleKernel(GK.RQKernel(batch_shape=b) * GK.MaternKernel(nu=1.5, batch_shape=b), batch_shape=b),
        "poly2": lambda d, b: GK.PolynomialKernel(power=2, batch_shape=b),
        "active_dims_sum": lambda d, b: GK.RBFKernel(active_dims=ad(d)[0], batch_shape=b) + GK.ScaleKernel(GK.MaternKernel(nu=0.5, active_dims=ad(d)[1], batch_shape=b), batch_shape=b),
        "scale_periodic": lambda d, b: GK.ScaleKernel(GK.PeriodicKernel(batch_shape=b), batch_shape=b),
    }
    MEANS = {
        "zero": lambda d, b: GM.ZeroMean(batch_shape=b),
        "constant": lambda d, b: GM.ConstantMean(batch_shape=b),
        "linear": lambda d, b: GM.LinearMean(d, batch_shape=b),
    }
    # name: (model batch, train-x batch, test-x batch, target batch)
    BATCH = {
        "plain": ((), (), (), ()),
        "test_batch": ((), (), (2,), ()),
        "train_batch": ((), (2,), (), (2,)),
        "train_test_batch": ((), (2,), (2,), (2,)),
        "model_batch": ((2,), (), (), (2,)),
        "model_batch_shared_targets": ((2,), (), (), ()),
        "all_batch": ((2,), (2,), (2,), (2,)),
        "broadcast_2x1_3": ((), (2, 1), (3,), (2, 1)),
        "model_batch_2x1_test_3": ((2, 1), (), (3,), (2, 1)),
        "targets_batch_only": ((), (), (), (2,)),
    }
    FAMILIES = ("gaussian", "fixed_noise", "fixed_noise_learned", "multitask_rank0", "multitask_rank1")
    SMALL = "gaussian_small_noise"  # sigma^2 = 2e-3 (cond(Kxx+S) up to ~1e5): direct solves only

    def build(fam, kname, mname, n, d, bname):
        """a template model (never called) + the data; hyper-parameters random in range"""
        mb, tb, sb, yb = (torch.Size(s) for s in BATCH[bname])
        x = randn(*tb, n, d)
        multitask = fam.startswith("multitask")
        y = randn(*yb, n, T) if multitask else randn(*yb, n)
        fixed = None
        if fam in ("gaussian", SMALL):
            lik = GL.GaussianLikelihood(batch_shape=mb)
        elif fam in ("fixed_noise", "fixed_noise_learned"):
            fixed = rand(0.05, 0.6, *yb, n)
            lik = GL.FixedNoiseGaussianLikelihood(noise=fixed, learn_additional_noise=fam.endswith("learned"), batch_shape=mb)
        else:
            lik = GL.MultitaskGaussianLikelihood(num_tasks=T, rank=int(fam[-1]), batch_shape=mb)
        if multitask:
            mean = GM.MultitaskMean(MEANS[mname](d, mb), num_tasks=T)
            kern = GK.MultitaskKernel(KERNELS[kname](d, mb), num_tasks=T, rank=1, batch_shape=mb)
            model = MTGP(x, y, lik, mean, kern)
        else:
            model = GP(x, y, lik, MEANS[mname](d, mb), KERNELS[kname](d, mb))
        model = model.double()
        with torch.no_grad():
            for p in model.parameters():
                p.copy_(0.6 * randn(*p.shape))
            if fam == SMALL:
                lik.noise = torch.full_like(lik.noise, 2e-3)
        model.eval()
        return model, x, y, fixed

    # ------------------------------------------------------------------ the oracle (own dense linear algebra)
    def noise_matrix(lik, fam, k, fixed_diag):
        """S for k points, from the likelihood's parameters (dense, batch = the parameters' batch)"""
        eye = torch.eye(k, dtype=D)
        if fam in ("gaussian", SMALL):
            return lik.noise.detach().unsqueeze(-1) * eye
        if fam == "fixed_noise":
            return torch.diag_embed(fixed_diag)
        if fam == "fixed_noise_learned":
            return torch.diag_embed(fixed_diag) + lik.second_noise.detach().unsqueeze(-1) * eye
        if fam == "multitask_rank0":
            Dt = torch.diag_embed(lik.task_noises.detach())
        else:
            F = lik.task_noise_covar_factor.detach()
            Dt = F @ F.transpose(-1, -2)
        Dt = Dt + lik.noise.detach().unsqueeze(-1) * torch.eye(T, dtype=D)
        # interleaved layout: index i * T + t  ->  I_k (x) Dt
        out = torch.zeros(*Dt.shape[:-2], k * T, k * T, dtype=D)
        for i in range(k):
            out[..., i * T:(i + 1) * T, i * T:(i + 1) * T] = Dt
        return out

    def oracle(model, fam, x, y, xs, fixed, test_fixed):
        lik = model.likelihood
        multitask = fam.startswith("multitask")
        n, m = x.shape[-2], xs.shape[-2]
        with torch.no_grad():
            db = torch.broadcast_shapes(x.shape[:-2], xs.shape[:-2])
            xb, xsb = x.expand(*db, *x.shape[-2:]), xs.expand(*db, *xs.shape[-2:])
            kern, mean = model.covar_module, model.mean_module
            Kxx, Ksx, Kss = kern(xb, xb).to_dense(), kern(xsb, xb).to_dense(), kern(xsb, xsb).to_dense()
            mx, ms = mean(xb), mean(xsb)
            yy = y
            if multitask:
                mx, ms, yy = mx.reshape(*mx.shape[:-2], n * T), ms.reshape(*ms.shape[:-2], m * T), y.reshape(*y.shape[:-2], n * T)
            S_tr = noise_matrix(lik, fam, n, fixed)
            S_te = noise_matrix(lik, fam, m, test_fixed)
            B = torch.broadcast_shapes(Kxx.shape[:-2], S_tr.shape[:-2], yy.shape[:-1], mx.shape[:-1], S_te.shape[:-2])
            N, M = Kxx.shape[-1], Kss.shape[-1]
            A = (Kxx + S_tr).expand(*B, N, N)
            L = torch.linalg.cholesky(A)
            r = (yy - mx).expand(*B, N).unsqueeze(-1)
            Ksx = Ksx.expand(*B, M, N)
            mu = ms.expand(*B, M) + (Ksx @ torch.cholesky_solve(r, L)).squeeze(-1)
            cov = Kss.expand(*B, M, M) - Ksx @ torch.cholesky_solve(Ksx.transpose(-1, -2), L)
            cov_y = cov + S_te
            if multitask:
                mu = mu.reshape(*B, m, T)
            return {"mean": mu, "cov": cov, "cov_y": cov_y.expand(*B, M, M), "kss": float(Kss.abs().max()), "cond": float(torch.linalg.cond(A).max())}

    # ------------------------------------------------------------------ settings under test
    LAZY, EAGER, FPV, DET = (True, False), (0, 512), (False, True), (True, False)
    SOLVES_ALL = ("chol", "cg", "off0", "rootoff_cg", "cgoff_root")
    ITERATIVE = ("cg", "rootoff_cg", "cgoff_root")

    def ctx(lazy, eager, solves, fpv, det, skip=False):
        st = contextlib.ExitStack()
        fc = {"chol": (True, True, True), "cg": (True, True, True), "off0": (False, False, False),
              "rootoff_cg": (False, True, True), "cgoff_root": (True, False, False)}[solves]
        for c in (S.lazily_evaluate_kernels(lazy), S.max_eager_kernel_size(eager),
                  S.fast_computations(covar_root_decomposition=fc[0], log_prob=fc[1], solves=fc[2]),
                  S.max_cholesky_size(800 if solves == "chol" else 0),
                  S.cg_tolerance(1e-12), S.eval_cg_tolerance(1e-12), S.max_cg_iterations(500),
                  S.max_root_decomposition_size(100), S.max_lanczos_quadrature_iterations(100),
                  S.fast_pred_var(fpv), S.detach_test_caches(det), S.skip_posterior_variances(skip)):
            st.enter_context(c)
        return st

    def tag(lazy, eager, solves, fpv, det, skip=False):
        return f"lazy{int(lazy)}_eager{eager}_{solves}_fpv{int(fpv)}_detach{int(det)}" + ("_skipvar" if skip else "")

    FULL = [c for c in itertools.product(LAZY, EAGER, SOLVES_ALL, FPV, DET)]
    SKIP = [(lz, eg, sv, False, True, True) for lz, eg, sv in itertools.product(LAZY, EAGER, ("chol", "cg", "off0"))]

    def settings_of(c):
        return {"lazily_evaluate_kernels": c[0], "max_eager_kernel_size": c[1], "solves": c[2], "fast_pred_var": c[3],
                "detach_test_caches": c[4], "skip_posterior_variances": bool(len(c) > 5 and c[5]),
                "fixed": "cg_tolerance=eval_cg_tolerance=1e-12, max_cg_iterations=500, max_root_decomposition_size=100; chol: max_cholesky_size=800, fast_computations all on; cg: all on, max_cholesky_size=0; off0: all off, size 0; rootoff_cg: covar_root_decomposition off, size 0; cgoff_root: solves off, size 0"}

    def close(got, want, tol, scale):
        if tuple(got.shape) != tuple(want.shape):
            return False, f"shape {tuple(got.shape)} != expected {tuple(want.shape)}"
        if got.numel() == 0:
            return True, "empty"
        if not bool(torch.isfinite(got).all()):
            return False, "non-finite values in the output"
        err = float((got - want).abs().max())
        bound = tol * (1 + scale)
        if err <= bound:
            cls = "direct(tol 1e-6)" if tol <= 1e-6 else "iterative(tol 1e-4)"
            worst[cls] = max(worst[cls], err / (1 + scale))
        return err <= bound, f"max abs diff {err:.3e} (allowed {bound:.1e}; scale of the quantity {scale:.3g})"

    def describe(spec, model, x, y, xs, fixed, test_fixed, cfg, extra=None):
        def f():
            out = {"family": spec[0], "kernel": spec[1], "mean": spec[2], "n": spec[3], "d": spec[4], "batch_config": spec[5],
                   "batch_shapes(model,train_x,test_x,targets)": [list(s) for s in BATCH[spec[5]]],
                   "parameters": {k: tl(v) for k, v in model.state_dict().items()},
                   "train_x": tl(x), "train_y": tl(y), "test_x": tl(xs), "settings": settings_of(cfg)}
            if fixed is not None:
                out["fixed_noise"], out["test_noise"] = tl(fixed), tl(test_fixed)
            if extra:
                out.update(extra)
            return out
        return f

    def predict_and_compare(prefix, model, fam, want, xs, test_fixed, cfg, inp):
        """one call of the real code under the settings cfg, compared with the oracle `want`"""
        lik = model.likelihood
        skip = len(cfg) > 5 and cfg[5]
        tol = 1e-4 if cfg[2] in ITERATIVE else 1e-6
        try:
            with ctx(*cfg):
                out = model(xs)
                mean, cov, var = out.mean.detach(), out.covariance_matrix.detach(), out.variance.detach()
                cov_y = None
                if not skip:
                    kw = {"noise": test_fixed} if test_fixed is not None else {}
                    outy = lik(out, **kw)
                    mean_y, cov_y = outy.mean.detach(), outy.covariance_matrix.detach()
                    cov_d = None
                    if test_fixed is not None and xs.shape[-2] != model.train_inputs[0].shape[-2]:
                        cov_d = lik(out).covariance_matrix.detach()  # no noise= given and m != n: documented no-op for the fixed part
        except Exception as e:  # noqa: BLE001
            r = classify_replay_exception(e)
            if r.get("violates"):
                rec(f"{prefix}/raises", False, r["detail"][:1500], inp)
                return
            raise
        smean = float(want["mean"].abs().max())
        ok, det = close(mean, want["mean"], tol, smean)
        rec(f"{prefix}/mean", ok, det, inp)
        if skip:
            z = torch.zeros_like(want["cov"])
            ok = tuple(cov.shape) == tuple(z.shape) and bool((cov == 0).all())
            rec(f"{prefix}/covariance_is_zero", ok, f"shape {tuple(cov.shape)} (expected {tuple(z.shape)}), max |cov| = {float(cov.abs().max()) if cov.numel() else 0:.3e}", inp)
            return
        scov = float(want["cov"].abs().max()) + want["kss"]
        ok, det = close(cov, want["cov"], tol, scov)
        rec(f"{prefix}/covariance", ok, det + f"; cond(Kxx+S) = {want['cond']:.1e}", inp)
        wv = want["cov"].diagonal(dim1=-1, dim2=-2)
        if mean.dim() == wv.dim() + 1:  # multitask: variance laid out (m, T)
            wv = wv.reshape(*wv.shape[:-1], -1, T)
        ok, det = close(var, wv, tol, scov)
        rec(f"{prefix}/variance", ok, det, inp)
        ok, det = close(cov_y, want["cov_y"], tol, scov + float(want["cov_y"].abs().max()))
        ok2, det2 = close(mean_y, want["mean"], tol, smean)
        rec(f"{prefix}/likelihood_adds_noise", ok and ok2, f"covariance: {det}; mean: {det2}", inp)
        if cov_d is not None:
            wd = want["cov"]
            if fam == "fixed_noise_learned":
                wd = wd + lik.second_noise.detach().unsqueeze(-1) * torch.eye(wd.shape[-1], dtype=D)
            ok, det = close(cov_d, wd.expand(*want["cov"].shape), tol, scov)
            rec(f"{prefix}/likelihood_without_test_noise", ok, det, inp)

    def test_points(spec, m):
        sb = torch.Size(BATCH[spec[5]][2])
        yb = torch.Size(BATCH[spec[5]][3])
        xs = randn(*sb, m, spec[4])
        tf = rand(0.05, 0.6, *torch.broadcast_shapes(sb, yb), m) if spec[0].startswith("fixed") else None
        return xs, tf

    used = {}

    def sweep(spec, combos, m):
        fam = spec[0]
        try:
            model, x, y, fixed = build(*spec)
            xs, test_fixed = test_points(spec, m)
            want = oracle(model, fam, x, y, xs, fixed, test_fixed)
        except Exception as e:  # noqa: BLE001  (model construction / kernel evaluation for the oracle: not the path under test)
            skipped.append({"spec": list(spec), "reason": f"could not build the model / evaluate kernel, mean for the oracle: {type(e).__name__}: {str(e)[:300]}"})
            return
        base = f"{fam}/{spec[1]}+{spec[2]}/n{spec[3]}d{spec[4]}m{m}/{spec[5]}"
        used[base] = used.get(base, 0) + 1
        if used[base] > 1:  # the same configuration drawn again (other hyper-parameters / data)
            base += f"#draw{used[base]}"
        for cfg in combos:
            mdl = copy.deepcopy(model)
            predict_and_compare(f"{base}/{tag(*cfg)}", mdl, fam, want, xs, test_fixed, cfg, describe(spec, model, x, y, xs, fixed, test_fixed, cfg))

    def sequence(spec, cfg):
        """several predictions on ONE model object under one settings context, then new targets"""
        fam = spec[0]
        try:
            model, x, y, fixed = build(*spec)
        except Exception as e:  # noqa: BLE001
            skipped.append({"spec": list(spec), "reason": f"could not build the model: {type(e).__name__}: {str(e)[:300]}"})
            return
        n = spec[3]
        base = f"sequence/{fam}/{spec[1]}+{spec[2]}/n{n}d{spec[4]}/{spec[5]}/{tag(*cfg)}"
        mdl = copy.deepcopy(model)
        steps = [("s1_m3", 3, False), ("s2_m1", 1, False), ("s3_m5", 5, False), ("s4_m3", 3, False), ("s5_new_targets_m4", 4, True), ("s6_m1", 1, False)]
        cfg = list(cfg)
        if cfg[1] != 0:  # threshold between the joint sizes of the m = 3 and the m = 5 steps
            cfg[1] = (n + 3) * (T if fam.startswith("multitask") else 1)
        cfg = tuple(cfg)
        hist = []
        for name, m, new_targets in steps:
            if new_targets:
                y = y + randn(*y.shape)
                mdl.set_train_data(targets=y, strict=True)
            xs, test_fixed = test_points(spec, m)
            hist.append({"step": name, "test_x": tl(xs), "train_y": tl(y)})
            try:
                want = oracle(model, fam, x, y, xs, fixed, test_fixed)
            except Exception as e:  # noqa: BLE001
                skipped.append({"spec": list(spec), "reason": f"oracle kernel evaluation failed: {type(e).__name__}: {str(e)[:300]}"})
                return
            predict_and_compare(f"{base}/{name}", mdl, fam, want, xs, test_fixed, cfg,
                                describe(spec, model, x, y, xs, fixed, test_fixed, cfg, {"history (same model object, in order)": list(hist)}))

    # ------------------------------------------------------------------ the bounded enumeration
    quick = tier == "quick"
    knames, mnames = list(KERNELS), list(MEANS)
    specs_full, specs_slice = [], []
    # core: every family x n x d, plain batch, kernels / means rotating  -> full settings cross
    i = 0
    for fam in FAMILIES:
        for n in (1, 2, 7):
            for d in (1, 3):
                specs_full.append((fam, knames[i % len(knames)], mnames[i % len(mnames)], n, d, "plain"))
                i += 1
    # every kernel x mean once more (single output, n = 7)
    for kn in knames:
        for mn in mnames:
            specs_slice.append(("gaussian", kn, mn, 7, 3 if (i % 2) else 1, "plain"))
            i += 1
    # every batch configuration x family
    for bname in BATCH:
        if bname == "plain":
            continue
        for fam in FAMILIES:
            specs_slice.append((fam, knames[i % len(knames)], mnames[i % len(mnames)], (7, 2, 1)[i % 3], (3, 1)[i % 2], bname))
            i += 1
    if not quick:
        for bname in BATCH:
            for fam in FAMILIES:
                for n in (1, 2, 7):
                    specs_slice.append((fam, knames[i % len(knames)], mnames[(i // 2) % len(mnames)], n, (1, 3)[i % 2], bname))
                    i += 1

    specs_small = [(SMALL, knames[k % len(knames)], mnames[k % len(mnames)], n, d, b)
                   for k, (n, d, b) in enumerate(itertools.product((2, 7), (1, 3), ("plain", "all_batch", "broadcast_2x1_3")))]
    DIRECT = [c for c in FULL if c[2] not in ITERATIVE]

    def sliced(j, stride):
        combos = FULL[j % stride::stride]
        return combos + SKIP[j % 4::4]

    if only in (None, "sweep"):
        for j, spec in enumerate(specs_full):
            if quick:
                # full cross over the direct solves, a rotating quarter of the (slow) iterative ones
                combos = [c for c in FULL if c[2] not in ITERATIVE] + [c for c in FULL if c[2] in ITERATIVE][j % 4::4] + SKIP[j % 3::3]
            else:
                combos = FULL + SKIP
            sweep(spec, combos, m=(3, 4, 1)[j % 3])
        for j, spec in enumerate(specs_slice):
            sweep(spec, sliced(j, 10 if quick else 4), m=(4, 3, 1)[j % 3])
        for j, spec in enumerate(specs_small):
            sweep(spec, DIRECT[j % 2::2] if quick else DIRECT, m=(3, 4)[j % 2])
    if only in (None, "sequence"):
        seq_cfgs = [(True, 512, "chol", False, True), (True, 512, "chol", True, False), (False, 0, "off0", True, True),
                    (True, 0, "chol", False, False), (False, 512, "cg", True, True), (True, 512, "cg", False, False)]
        seq_specs = [(fam, knames[k % len(knames)], mnames[k % len(mnames)], n, (1, 3)[k % 2], b)
                     for k, (fam, n, b) in enumerate(itertools.product(FAMILIES, (2, 7), ("plain", "model_batch", "train_test_batch")))]
        if quick:
            seq_specs = seq_specs[::2]
        for k, spec in enumerate(seq_specs):
            for cfg in (seq_cfgs[k % 2::2] if quick else seq_cfgs):
                sequence(spec, cfg)

    return {"name": "C01 exact GP posterior vs dense Gaussian conditional (float64)", "evaluations": ev, "distinct_nontrivial": len(seen),
            "bound": f"n in {{1,2,7}}, d in {{1,3}}, m in {{1,3,4,5}}, T = 2 tasks; {len(FAMILIES)} likelihood families, {len(KERNELS)} kernels, {len(MEANS)} means; "
                     f"{len(BATCH)} batch configurations (batch sizes 2, 2x1 vs 3); settings cross lazy(2) x eager-threshold(2) x solves(5) x fast_pred_var(2) x detach(2) = {len(FULL)} "
                     f"+ {len(SKIP)} skip_posterior_variances combinations (full for the {len(specs_full)} core models{' except 3/4 of the iterative-solve combinations' if quick else ''}, a deterministic {'tenth' if quick else 'quarter'} for the {len(specs_slice)} others); "
                     f"sequences of 6 predictions (+ set_train_data(targets)) on one model object; hyper-parameters raw ~ 0.6 N(0,1), seed {seed}",
            "rule": "a case = (family, kernel+mean, n/d/m, batch configuration, settings path, quantity in {mean, covariance, variance, likelihood_adds_noise, covariance_is_zero, raises}); distinct by that key",
            "samples": samples, "violations": violations, "skipped": skipped, "worst_passing_relative_error": worst, "wall_s": round(time.time() - t0, 2)}
