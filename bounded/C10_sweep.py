"""C10 bounded stand-in (NOT counted as proved): real MultivariateNormal objects against dense float64 references.

Bound: event sizes <= 4, batch rank <= 2; covariance representations dense / lazy (DenseLinearOperator) / root / diagonal;
log_prob on the fast and the Cholesky path for every broadcast pattern of contracts.C10_mvn.LP_PATTERNS; exhaustive index
expressions on shapes (2,3) / (3,) from ints, slices with start/stop in {None,-3,-1,0,1,2} step in {None,2}, ellipsis, index
tensors; sample moments with 2e5 seeded draws (5 sigma); KL closed form and KL(p||p) = 0; indexing after the Cholesky
factor has been cached.
"""
from __future__ import annotations

import itertools
import time


def run(tier="quick", seed=0):
    import torch
    import gpytorch
    from linear_operator import to_linear_operator
    from linear_operator.operators import DiagLinearOperator, RootLinearOperator
    from gpytorch.distributions import MultivariateNormal as MV
    from contracts import C10_mvn as K
    t0 = time.time()
    ev, seen, violations, samples = 0, set(), [], []

    def rec(key, res):
        nonlocal ev
        ev += 1
        seen.add(key.split("#")[0] if tier == "quick" else key)
        if len(samples) < 3:
            samples.append({"case": key, "ok": not res.get("violates")})
        k0 = key.split("#")[0]
        if res.get("violates") and not any(v["key"] == k0 for v in violations):
            violations.append({"key": k0, "input": {"case": key}, "detail": res.get("detail"), "entry": res.get("entry")})

    for pat in range(len(K.LP_PATTERNS)):
        rec(f"log_prob/pattern{pat}", K.replay_log_prob({}, (pat,), "", {}))
    for cl in ("variance", "stddev", "confidence_region", "add_mvn", "add_scalar", "radd", "mul", "truediv", "add_jitter", "expand", "rsample"):
        rec(f"ops/{cl}", K.replay_simple({}, (0,), cl, {}))
    for br in (0, 1):
        rec(f"kl/{br}", K.replay_kl({}, (br,), "", {}))
    # representations
    g = torch.Generator().manual_seed(seed)
    A = torch.randn(3, 3, dtype=torch.double, generator=g)
    S = A @ A.T + torch.eye(3, dtype=torch.double)
    y = torch.randn(3, dtype=torch.double, generator=g)
    ref = torch.distributions.MultivariateNormal(torch.zeros(3, dtype=torch.double), S).log_prob(y)
    for name, cov in (("dense", S), ("lazy", to_linear_operator(S)), ("root", RootLinearOperator(torch.linalg.cholesky(S)))):
        d = MV(torch.zeros(3, dtype=torch.double), cov)
        for fast in (True, False):
            with gpytorch.settings.fast_computations(log_prob=fast), gpytorch.settings.max_cholesky_size(10 if fast else 800):
                got = d.log_prob(y)
            rec(f"representation/{name}/fast={fast}", {"violates": not torch.allclose(got, ref, atol=1e-6 if fast else 1e-9), "detail": f"{got.item()} vs {ref.item()}"})
    # exhaustive index expressions
    vals = [None, -3, -1, 0, 1, 2]
    sl = [slice(a, b, c) for a in vals for b in vals for c in (None, 2)]
    for shape in ((3,), (2, 3)):
        d = K._mk(list(shape[:-1]), shape[-1], 7)
        per_dim = []
        for ext in shape:
            per_dim.append(list(range(-ext, ext)) + sl + [torch.tensor([0, ext - 1, -1])])
        combos = list(itertools.product(*per_dim))
        if tier == "quick":
            import random
            combos = random.Random(seed).sample(combos, min(len(combos), 250))
        for idx in combos:
            if sum(torch.is_tensor(x) for x in idx) > 1:
                continue
            ix = idx if len(idx) > 1 else idx[0]
            rec(f"getitem/{len(shape)}#{ix!r}", K.gather_check_mvn(d, ix))
        for ix in ((Ellipsis, 1), (Ellipsis, slice(1, None)), (Ellipsis,), (0, Ellipsis))[: 4 if len(shape) > 1 else 3]:
            rec(f"getitem/{len(shape)}#{ix!r}", K.gather_check_mvn(d, ix))
    for br, kinds in (K.getitem_cases(None) if tier != "quick" else [c for c in K.getitem_cases(None) if c[0] <= 1]):
        if br <= 1:
            rec(f"getitem_cached/{br}/{kinds}", K.replay_getitem_cached({}, (br, kinds), "", {}))
    # sample moments
    d = MV(torch.tensor([0.5, -1.0, 2.0], dtype=torch.double), S)
    torch.manual_seed(seed)
    N = 200000
    smp = d.rsample(torch.Size([N]))
    me, ce = smp.mean(0), torch.cov(smp.T)
    ok = bool(((me - d.mean).abs() < 5 * S.diagonal().sqrt() / N ** 0.5).all()) and bool(((ce - S).abs() < 5 * 3 * S.abs().max() / N ** 0.5).all())
    rec("sampling/moments", {"violates": not ok, "detail": f"sample mean {me.tolist()}, max cov err {(ce - S).abs().max().item():.4f}"})
    return {"name": "C10 representation / indexing / sampling sweep", "evaluations": ev, "distinct_nontrivial": len(seen),
            "bound": "event size <= 4, batch rank <= 2, 3 covariance representations, fast and Cholesky paths, index expressions on shapes (3,) and (2,3) "
                     + ("(seeded sample of 250 per shape)" if tier == "quick" else "(full product)") + ", 2e5 sample draws",
            "rule": "a case = (check, configuration); distinct by kind of check in the quick tier", "samples": samples, "violations": violations,
            "wall_s": round(time.time() - t0, 2)}
