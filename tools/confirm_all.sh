#!/bin/bash
# tools/confirm_all.sh <Cxx> <A|B|BASE>  -- confirm one seeded change (seeded/Cxx-L/{patch.diff,demo.py}) in a scratch worktree OF THE COMMIT THE SEED WAS WRITTEN FOR
# (pass SEED_BASE=<commit>, default HEAD; seeds were confirmed against 3c7e7af and earlier): demo exit codes without / with the
# patch and the list of failing tests of the whole pinned suite with the patch applied (BASE: unpatched tree).
export OMP_NUM_THREADS=1 MKL_NUM_THREADS=1
P=$1; L=$2; D=/verif/seeded/$P-$L; OUT=/tmp/seedconf; mkdir -p $OUT
W=/tmp/sc_${P}_$L
git -C /repo worktree add -q --detach $W ${SEED_BASE:-HEAD} || exit 2
cd $W
if [ "$L" != BASE ]; then
  r0=$(PYTHONPATH=$W timeout 900 /venv/bin/python -W ignore $D/demo.py >$OUT/${P}_$L.demo0 2>&1; echo $?)
  if ! git apply $D/patch.diff 2>$OUT/${P}_$L.apply; then echo "$P $L PATCH-FAIL" > $OUT/${P}_$L.result; cd /; git -C /repo worktree remove --force $W; exit 0; fi
  r1=$(PYTHONPATH=$W timeout 900 /venv/bin/python -W ignore $D/demo.py >$OUT/${P}_$L.demo1 2>&1; echo $?)
  files=$(git diff --name-only | tr '\n' ' ')
else r0=-; r1=-; files=-; fi
PYTHONPATH=$W timeout 7200 /venv/bin/python -m pytest -q -p no:cacheprovider --timeout=900 --junitxml=$OUT/${P}_$L.xml test >$OUT/${P}_$L.pytest 2>&1
t=$(tail -1 $OUT/${P}_$L.pytest)
cd /; git -C /repo worktree remove --force $W
echo "$P $L demo_without=$r0 demo_with=$r1 files=[$files] tests: $t" > $OUT/${P}_$L.result
