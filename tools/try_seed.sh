#!/bin/bash
# tools/try_seed.sh <dir with patch.diff> <Cxx> [tier]  -- apply a seeded change to /repo, run the property's check, undo it straight afterwards
D=$1; P=$2; T=${3:-quick}
git -C /repo diff --quiet || { echo "/repo has local changes"; exit 2; }
git -C /repo apply $D/patch.diff || { echo "patch does not apply"; exit 2; }
/verif/check $P --tier $T > /tmp/try_seed_$P.log 2>&1; rc=$?
git -C /repo checkout -- . ; git -C /repo status --short | grep -v '^??' 
echo "exit=$rc"; grep -v KNOWN-FINDING /tmp/try_seed_$P.log | grep "VIOLATION\|failed obligation\|tier=" | head -12
