"""usage: tools/dbg.py Cxx 'case_regex'  -- run matching cases in-process and dump full obligation records"""
import sys, json, re, os
sys.path.insert(0, os.path.dirname(os.path.dirname(os.path.abspath(__file__))))
from engine import runner, driver
from engine.extract import RepoIndex
prop, rx = sys.argv[1], sys.argv[2]
driver.load_contracts(prop)
ix = RepoIndex()
for cd in runner.CASES[prop]:
    for params in (cd.expand(ix) if cd.expand else [()]):
        if not isinstance(params, tuple): params = (params,)
        cid = cd.name + ("[" + ",".join(driver._pstr(p) for p in params) + "]" if params else "")
        if re.search(rx, cid):
            r = runner.run_case(cd, params, cid)
            for n, o in r["obligations"].items():
                if o["status"] != "unsat" or "-a" in sys.argv:
                    print(n, o["status"], json.dumps(o.get("model")), "\n  replay:", json.dumps(o.get("replay"))[:1500])
                    if "-vc" in sys.argv: print(o["vc"])
                    if "-i" in sys.argv: print("  info:", json.dumps({k: v for k, v in (o.get("info") or {}).items() if not k.startswith("_")}, default=str)[:1500])
            print(cid, "paths", r["paths"], "undecided", r["undecided_paths"], "crash", r["crash"])
