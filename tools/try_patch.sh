#!/bin/bash
# tools/try_patch.sh Cxx patch.diff  -- apply a seeded change to /repo, run the quick check of Cxx, undo; prints the failed obligations (proof tier first)
P=$1; D=$2
git -C /repo apply "$D" || exit 2
./check $P --tier quick > /tmp/try_$P.log 2>&1; rc=$?
git -C /repo checkout -- .
echo "exit=$rc"; tail -1 /tmp/try_$P.log
grep "failed obligation" /tmp/try_$P.log | grep -v "bounded:" | head -8
echo "bounded failures: $(grep 'failed obligation: bounded:' /tmp/try_$P.log | wc -l)"; grep "failed obligation: bounded:" /tmp/try_$P.log | head -3
