#!/usr/bin/env python3
"""tools/store_seed.py Cxx LETTER 'expect-regex' [src=/tmp/wt4_Cxx/_out]
Stores a sub-agent's seeded change as seeded/Cxx-LETTER/{patch.diff,demo.py,meta.json}, removes the agent's worktree, confirms the seed with
tools/confirm_all.sh (demo without / with the patch, whole pinned suite with the patch, failing set compared with the unpatched baseline recorded in
seeded/C09-C/meta.json) and registers it as mutants/Cxx/seedLETTER.patch for the selftest."""
import json, os, shutil, subprocess, sys
import xml.etree.ElementTree as ET
ID, L, expect = sys.argv[1:4]
src = sys.argv[4] if len(sys.argv) > 4 else f"/tmp/wt4_{ID}/_out"
dst = f"/verif/seeded/{ID}-{L}"
os.makedirs(dst, exist_ok=True)
for f in ("patch.diff", "demo.py"):
    shutil.copy(os.path.join(src, f), dst)
notes = open(os.path.join(src, "notes.md")).read() if os.path.exists(os.path.join(src, "notes.md")) else ""
wt = os.path.dirname(src.rstrip("/"))
if wt.startswith("/tmp/wt"):
    subprocess.run(["git", "-C", "/repo", "worktree", "remove", "--force", wt])
subprocess.run(["/verif/tools/confirm_all.sh", ID, L], check=False)
res = open(f"/tmp/seedconf/{ID}_{L}.result").read().strip()
base = set(json.load(open("/verif/seeded/C09-C/meta.json"))["confirmed_by_me"]["failing_tests_with_patch"])
fails = []
try:
    t = ET.parse(f"/tmp/seedconf/{ID}_{L}.xml")
    fails = sorted({f"{tc.get('classname')}::{tc.get('name')}" for tc in t.iter("testcase") if tc.find("failure") is not None or tc.find("error") is not None})
except Exception as e:  # noqa: BLE001
    res += f" [junit xml unreadable: {e}]"
head = subprocess.run(["git", "-C", "/repo", "rev-parse", "--short", "HEAD"], capture_output=True, text=True).stdout.strip()
meta = {"property": ID, "seed": L, "summary": (notes.strip().splitlines() or [""])[0][:300], "what_it_needs_to_manifest": notes[:4000],
        "files_touched": [l[6:].strip() for l in open(f"{dst}/patch.diff") if l.startswith("+++ b/")],
        "confirmed_by_me": {"how": f"tools/confirm_all.sh {ID} {L} in a scratch git worktree of /repo at HEAD {head} (removed afterwards): demo.py without the patch, git apply patch.diff, demo.py with the patch, then the whole pinned test suite",
                             "result_line": res, "failing_tests_with_patch": fails, "same_failing_set_as_unpatched_tree": set(fails) == base},
        "origin": f"fresh sub-agent that saw only the property text and its own scratch worktree {wt} (nothing from /verif)"}
json.dump(meta, open(f"{dst}/meta.json", "w"), indent=1)
os.makedirs(f"/verif/mutants/{ID}", exist_ok=True)
with open(f"/verif/mutants/{ID}/seed{L}.patch", "w") as f:
    f.write(f"# expect: {expect}\n# kind: mutant\n" + open(f"{dst}/patch.diff").read())
print(res, "| same failing set as baseline:", set(fails) == base)
