#!/usr/bin/env python3
"""Regenerates MANIFEST.json from the table below (kept here so the manifest stays consistent)."""
import json, os
V = os.path.dirname(os.path.dirname(os.path.abspath(__file__)))
props = [json.loads(l)["id"] for l in open(os.path.join(V, "properties.jsonl"))]

CLAIMED = {
 "C20": dict(
  category="proof",
  text="Contract-based deductive verification of the real settings classes: for every exported settings class the bracket triple "
       "(constructor; __enter__; observers; __exit__ with arbitrary exc-info) is executed symbolically on the AST extracted from the "
       "current source, for ALL prior field values and ALL constructor arguments, and z3 discharges: observers return the innermost "
       "argument, __exit__ is falsy, every field is restored, nothing outside the class's fields is written, constructor failures "
       "leave the state untouched, and the initial state reports the documented defaults. Composition over all well-nested programs is "
       "the induction over this triple (pre-state universally quantified, class invariant proved preserved). Counter-models are replayed "
       "on the real module.",
  design_ref="DESIGN.md section 5, C20",
  note="Assumes the `with` protocol of CPython (section 3), that block bodies do not write settings fields directly, and the op-table "
       "meaning of torch.is_tensor / dtype identity. linear_operator re-exports are verified from the installed source (dependency). "
       "One known finding (linear_operator cholesky_jitter half value) is listed in known_findings.json.",
  technique="contract-based deductive verification: AST-extracted real functions, symbolic execution to VCs, z3 (cvc5 on unknowns)"),
 "C11": dict(
  category="proof",
  text="Contract-based deductive verification of the real MultitaskMultivariateNormal code: every method is executed symbolically on its "
       "extracted AST with symbolic n, t, batch sizes, slice bounds (incl. None / negative / out of range), int indices and index-tensor "
       "contents, and z3 discharges postconditions stated over the abstract view (flat(i,a)=i*t+a interleaved, a*n+i otherwise): mean/variance "
       "layout, the value layout handed to the base log density, sample layout, to_data_independent_dist blocks, constructors "
       "(from_batch_mvn for every task_dim at batch rank <= 3, from_independent_mvns, from_repeated_mvn, expand, __init__) and d[idx] = "
       "(mean[idx], sub-covariance of the selected pairs, exact shape) where the selected pairs come from applying the op-table meaning of torch "
       "indexing to coordinate tensors. Batch rank and the tuple of index kinds are enumerated (stated), everything else is unbounded.",
  design_ref="DESIGN.md section 5, C11",
  note="Trusted: op-table meaning of torch view/reshape/transpose/permute/expand/indexing/arange/meshgrid and of BlockInterleaved/BlockDiag/Cat/"
       "DiagLinearOperator (dense meaning); reals for floats; base-class MultivariateNormal.log_prob/rsample are callee contracts here (verified "
       "under C10). Enumerated (not unbounded): batch rank <= 1 for indexing and <= 2 elsewhere, <= 3 for from_batch_mvn, 2-3 tasks for "
       "from_independent_mvns, index-kind tuples. Bounded tier (real objects vs dense oracle) is reported separately and not counted.",
  technique="contract-based deductive verification: AST-extracted real functions, symbolic execution with an elementwise tensor domain, z3 (qfnia tactic / cvc5 on unknowns)"),
 "C17": dict(
  category="other",
  text="Proof tier (contract-based deductive verification, counted): for all four constraint classes the real __init__/transform/"
       "inverse_transform are executed symbolically with symbolic finite bounds and raw values (scalar and tensor-valued, any extent) and "
       "z3 discharges closed-interval containment, strict monotonicity and the constructor invariant; the two inverse identities are "
       "discharged over the extracted inv_sigmoid / inv_softplus bodies with sigmoid/softplus defined through exp/log (z3 first, sympy CAS "
       "back end for the transcendental identities, cross-checked numerically). Every register_constraint site found in gpytorch/ on this "
       "run (30 on the pinned tree) x 4 constraint kinds: getter = constraint.transform(raw) (hence inside the bounds after any history), "
       "public setter reads back the value, writes only the raw parameter and keeps the parameter cell, verified modularly against the "
       "constraint contracts and the real Module.initialize; every register_prior closure pair reads / stores the constrained value; "
       "SmoothedBoxPrior and HorseshoePrior log densities equal the documented formulas per batch element. Module.initialize with the constraint's verdict as callee contract: accepted values are stored in the same Parameter cell, a rejected assignment raises RuntimeError and leaves the parameter's values unchanged. Bounded tier (not counted): "
       "float32/float64 saturation over the whole finite range, setter round trips across magnitudes on real modules, rejection of "
       "out-of-bounds values, reference densities (scipy), normalisation by numerical integration.",
  design_ref="DESIGN.md section 5, C17",
  note="Floats are read as reals in the proof tier (overflow/saturation only in the bounded tier); exp/log axioms are ground instances "
       "listed in the evidence; sympy's simplifier is trusted for the four inverse identities; NaN-based rejection of out-of-bounds "
       "assignments is checked in the bounded tier only; torch-backed priors delegate to torch.distributions (assumed); LKJ priors are "
       "covered by the bounded tier only.",
  technique="contract-based deductive verification: AST-extracted real functions, symbolic execution, modular callee contracts, z3 + sympy CAS for exp/log identities"),
 "C12": dict(
  category="other",
  text="Proof tier (counted): likelihood objects are built by their real constructors (symbolically executed) and every entry point is run "
       "on symbolic function distributions with symbolic n, t, batch sizes and arbitrary noise parameters; z3 discharges, entry by entry, "
       "marginal(N(m,C)) = N(m, C + R) with R = sigma^2 I (all four likelihood/distribution batch patterns), diag(fixed noise raised to "
       "min_fixed_noise), diag(call-time noise) in place of the stored noise, [+ learned sigma^2 I], the documented no-op with warning on size "
       "mismatch, and I_n (x) (D_t [+ sigma^2 I]) in the layout of the input for the multitask likelihood (rank 0 and rank > 0, global/task noise "
       "switches) -- 'added once' is the equality itself; forward = Normal(f, sqrt(diag R)); expected_log_prob and log_marginal equal their "
       "elementwise closed forms for the homoskedastic and fixed-noise likelihoods (all three entry points use the same R); LikelihoodList "
       "calls member i with its own positional arguments and noise_i by keyword. Bounded tier (not counted): dense float64 sweep on real "
       "objects, Monte-Carlo check that expected_log_prob is the stated expectation.",
  design_ref="DESIGN.md section 5, C12",
  note="Trusted: dense meaning of Diag/ConstantDiag/KroneckerProduct(Diag)/Root/Zero linear operators and of torch.distributions.Normal; "
       "reals for floats; the Gaussian second-moment identity E[(y-f)^2] = (y-m)^2 + v that turns the closed form into the stated expectation "
       "is cited (checked by Monte Carlo in the bounded tier), not mechanised; HeteroskedasticNoise and DirichletClassificationLikelihood "
       "are not under contract; batch ranks <= 1 enumerated.",
  technique="contract-based deductive verification: AST-extracted real functions (constructors included), symbolic execution with an elementwise tensor domain, z3 + sympy CAS"),
 "C15": dict(
  category="other",
  text="Proof tier (counted): the real _ApproximateMarginalLogLikelihood.forward (with VariationalELBO / PredictiveLogLikelihood "
       "_log_likelihood_term and the real named_priors / added_loss_terms traversals of the module tree) is executed symbolically for "
       "symbolic minibatch size B, num_data N, beta, 0..3 registered priors (on the model and on a sub-module) and 0..2 added-loss terms, "
       "and z3 discharges value = (1/B) sum_i l_i - (beta/N) KL + (1/N) sum log priors - sum added losses (and the exact four terms for "
       "combine_terms=False), that the documented per-point term (expected_log_prob resp. log_marginal) is the one used with (y, q(f)), and "
       "that each prior closure is evaluated on its owning module; NGD.step performs p <- p - lr*N*grad on exactly the parameters that have "
       "a gradient. The callees are represented by their contracts (C12/C13: what l_i is; C14: KL). For a multitask q(f) (event shape (B, T)) the likelihood term is averaged over the B points, not the T tasks; the Cholesky-derivative helper of the natural-gradient backward is Phi(A) for every batch element (C19 contract, shared). Bounded tier (not counted): N*ELBO <= "
       "exact evidence for random q(u), one NGD step of size one reaches the collapsed (Titsias) bound and zero natural gradient there "
       "(batch shapes () and (3,)), collapsed bound <= evidence, minibatch scaling.",
  design_ref="DESIGN.md section 5, C15",
  note="The inequality / optimum claims are theorems about values of compositions (Jensen, conjugacy) and are only checked numerically "
       "(n=12, m=5, float64). Numbers of priors / added losses are enumerated (0..3 / 0..2); batch shape () in the proof tier. "
       "TrilNaturalVariationalDistribution is not held to the one-step claim (non-linear re-parameterisation of the natural matrix).",
  technique="contract-based deductive verification: AST-extracted real functions, modular callee contracts (stubs), z3"),
 "C10": dict(
  category="other",
  text="Proof tier (counted): the real MultivariateNormal methods are executed symbolically on distributions with symbolic event size, "
       "batch sizes, scalars, slice bounds and index-tensor contents, against the abstract view (Mean, Cov): log_prob on the fast path "
       "equals -1/2 (d^T S^-1 d + log|S| + n log 2pi) for nine distribution/value broadcast patterns (expand and repeat branches, value "
       "event size 1 included); variance / stddev / confidence_region; + - * / by scalars, sums of MVNs, add_jitter, expand, unsqueeze; "
       "d[idx] = (mean[idx], marginal covariance of the selected components, exact shape) for every tuple of index kinds at batch rank <= 2 "
       "via coordinate tensors; rsample(base_samples=e) = mean + L e; kl_mvn_mvn assembly; and the representation invariant 'a cached "
       "scale-tril is the Cholesky factor of the carried covariance' is preserved by indexing / expand / unsqueeze starting from the state in "
       "which the factor is already cached. Refutations of matrix-functional obligations are found by instantiating 1x1 / 2x2 matrices and "
       "replayed on the real code. Bounded tier (not counted): representations x fast/Cholesky paths, exhaustive small index expressions, "
       "sample moments, KL closed form.",
  design_ref="DESIGN.md section 5, C10",
  note="Trusted: inv_quad_logdet / logdet / cholesky / root_decomposition as exact functionals of the dense matrix (CG/Lanczos treated as "
       "exact), torch indexing/view/repeat/expand; the column split + trace-cyclicity lemma that turns the computed quadratic form into "
       "tr(Sq^-1 Sp) + d^T Sq^-1 d is cited; the Cholesky log_prob path delegates to torch (assumed); precondition: a batch index tensor "
       "that becomes the event dimension selects distinct elements; batch ranks enumerated.",
  technique="contract-based deductive verification: AST-extracted real functions, elementwise tensor domain + uninterpreted matrix functionals, z3; refutation by 2x2 instantiation"),
 "C02": dict(
  category="other",
  text="Proof tier (counted): the real ExactMarginalLogLikelihood.forward / _add_other_terms with the real named_priors / "
       "added_loss_terms traversals are executed symbolically (batch ranks 0 and 1, 0..3 priors on the model and a sub-module, 0..2 added "
       "losses, symbolic n and batch size) and z3 discharges MLL[b] = (log N(y_b; marginal) + sum added[b] + sum_p sum_e log prior_p[b, e]) / n, "
       "the call order likelihood(f) then log_prob(y), prior closures evaluated on the owning module, and no reduction across batch elements; "
       "SumMarginalLogLikelihood = mean of the members applied to their own arguments; MultivariateNormal.log_prob = the Gaussian log "
       "density (shared with C10); LeaveOneOutPseudoLikelihood.forward (batch ranks 0, 1; Cholesky factor and its solves as callee contracts): the first solve is "
       "against the identity, the second against y - m, sigma2_i = 1 / (K^-1)_ii, mu_i = y_i - (K^-1 (y - m))_i sigma2_i, value = (sum_i log N(y_i; mu_i, "
       "sigma2_i) + priors + added losses) / n; plus the Lean 4 / Mathlib lemma lean/Loo.lean (re-checked by lean every run) that 1 / (K^-1)_ii and "
       "y_i - (K^-1 y)_i / (K^-1)_ii are the predictive variance and mean of point i given the others (block-inverse / Schur-complement identity). "
       "Bounded tier (not counted): dense float64 value AND gradient w.r.t. every raw hyperparameter on the "
       "Cholesky path for homoskedastic / fixed-noise / multitask-Kronecker likelihoods, priors, batch shapes; the LOO objective against the n "
       "true leave-one-out predictive log densities computed by deleting each point.",
  design_ref="DESIGN.md section 5, C02",
  note="Callee contracts: the likelihood marginal (C12) and MultivariateNormal.log_prob (C10, which trusts inv_quad_logdet). Gradient "
       "equality = value equality as a function of the raw parameters + correct autograd of torch / linear_operator (assumed; checked "
       "numerically in the bounded tier). LeaveOneOutPseudoLikelihood is covered by the bounded tier only. Stochastic CG/Lanczos path: "
       "assumed exact.",
  technique="contract-based deductive verification: AST-extracted real functions, modular callee contracts (stubs), z3"),
 "C19": dict(
  category="other",
  text="Proof tier (counted): the real RBFCovariance / MaternCovariance (nu = 1/2, 3/2, 5/2) forward and backward are executed symbolically "
       "(alias-aware tensor domain, so the chains of in-place operations are followed) and the tensor saved for backward is shown equal to "
       "the SYMBOLIC DERIVATIVE (engine/diff.py) with respect to the lengthscale of the value forward actually returned, for all inputs incl. "
       "coincident points, batch ranks 0/1 and every upstream gradient; LogNormalCDF.forward/backward: the three branches partition the reals, "
       "each computes the stated expression (coefficients read from the source) and backward returns grad * phi/Phi-hat on every call of the "
       "same graph; _phi_for_cholesky_ for every batch rank; _cholesky_backward IS the gradient w.r.t. Sigma (symmetric, and <G, Ldot> = "
       "<R, Ldot L^T + L Ldot^T> for every lower-triangular tangent) and _TrilNaturalToMuVarSqrt.backward is the push-forward of the "
       "natural-gradient direction, as polynomial identities for symbolic entries at matrix sizes 1..3 (z3, sympy CAS for the large ones); "
       "_NaturalToMuVarSqrt._backward / backward deliver d/d eta1 = dmu - 2 dSigma mu, d/d eta2 = dSigma for symbolic size. Bounded tier "
       "(not counted): fast vs generic kernel paths and finite differences, natural / tril-natural gradients vs autograd of the expectation "
       "parameterisation (batch shapes () and (3,), m <= 4), prediction gradients vs finite differences, log_normal_cdf vs log_ndtr.",
  design_ref="DESIGN.md section 5, C19",
  note="Matrix sizes 1..3 are enumerated for the Cholesky-derivative identities (entries, batch index and tangents symbolic); the distance "
       "callee of the kernels is a contract (positive homogeneity, proved for covar_dist in C05); sympy's polynomial normal form is trusted "
       "for the m = 2, 3 identities; exp/sqrt/log/Phi are uninterpreted with ground axioms; floats are reals. CIQ's _NgdInterpTerms.backward "
       "is NOT under contract and not covered by the bounded tier (contour-integral quadrature: iterative, stochastic).",
  technique="contract-based deductive verification: AST-extracted real functions, alias-aware elementwise tensor domain, symbolic differentiation, z3 + sympy CAS; refutation by numeric evaluation of the VC"),
 "C13": dict(
  category="other",
  text="Proof tier (counted): the real GaussHermiteQuadrature1D.forward returns (1/sqrt(pi)) sum_k w_k F(sqrt(2v) t_k + m) per batch element "
       "for an arbitrary elementwise integrand, any number of nodes and batch rank 0..2; with the Hermite-moment contract of numpy's hermgauss "
       "nodes it integrates the monomials x^p, p = 0..5 (< 2Q) exactly against N(m, v) for all m, v >= 0 (z3); the constructor uses the "
       "argument or the num_gauss_hermite_locs setting in force at construction (default arguments are given definition-time semantics); "
       "_OneDimensionalLikelihood.expected_log_prob / log_marginal hand the quadrature exactly log p(y|f) resp. p(y|f) of the distribution "
       "forward builds, on the given function distribution, and return the result (resp. its log); Bernoulli / Laplace / Student-t / Beta "
       "conditionals have the documented parameters; Bernoulli.marginal = Bernoulli(Phi(m / sqrt(1+v))), its log_marginal and the {0,1}-label "
       "integrand of expected_log_prob; SoftmaxLikelihood logits = W f; the three branches of log_normal_cdf. Bounded tier (not counted): "
       "hermgauss moments for Q <= 64, polynomial exactness on the real module, likelihood integrals against mpmath adaptive integration "
       "with 20 vs 80 nodes, the probit identity, log_normal_cdf accuracy (2e-3 absolute, rounding for z >= -1, derivative) on a dense grid.",
  design_ref="DESIGN.md section 5, C13",
  note="Assumed: numpy hermgauss (dependency; its moment contract is checked numerically only), torch.distributions log densities, the probit "
       "identity (cited; checked numerically), reals for floats. Exactness is proved for monomials up to degree 5 (linearity gives all "
       "polynomials of degree <= 5); higher degrees only in the bounded tier. Accuracy of the log_normal_cdf approximation and the truncation "
       "error of the rule on non-polynomial integrands are numerical-analysis bounds: bounded tier only. One known finding (SoftmaxLikelihood "
       "legacy transposition for square inputs) is listed in known_findings.json.",
  technique="contract-based deductive verification: AST-extracted real functions, elementwise tensor domain with binder-free sums, modular callee contracts, z3 + sympy CAS"),
 "C05": dict(
  category="other",
  text="Proof tier (counted): the real Kernel.covar_dist / sq_dist and the forward methods of RBF, Matern (nu 1/2, 3/2, 5/2), RQ, Periodic, "
       "Cosine, Linear, Polynomial (power 1..3), Constant, Scale, Additive, Product kernels are executed symbolically with symbolic n1, n2, d, "
       "batch size, inputs and (ARD) hyper-parameters and z3 discharges, for the entry (b, i, j): value == documented covariance function "
       "(sums over the input dimension as binder-free sum atoms normalised by linearity), exact output shape, diag branch == the diagonal; "
       "Kernel.__add__ / __mul__ with their flattening (operands leaf / sum / product, all nine combinations) evaluate to the sum / product "
       "of the operands' values; the polynomial factor of the piecewise polynomial kernel (q = 0..3) equals Rasmussen & Williams eq. 4.21. "
       "Derivative kernels in the interleaved layout, for symbolic n1, n2 and concrete input dimension d in {1, 2} (the block assembly by slice assignment, reshapes, repeats and the perfect-shuffle gather are executed symbolically; index conditions are resolved against the integer part of the path condition): PolynomialKernelGrad (powers 2, 3) value / both gradients / mixed second derivatives = the derivatives of (x1.x2 + c)^p; RBFKernelGrad (isotropic and ARD, x1 != x2) = k, u_a k, -u_a k, ([a == e]/l_a^2 - u_a u_e) k with u_a = (x1_a - x2_a)/l_a^2; Matern52KernelGrad likewise with g = 5/3 (1 + s r) e^(-s r) and the Hessian block -5/3 e^(-s r) (5 u_a u_e - [a == e](1 + s r)/l_a^2) for the distance r of covar_dist's contract (identities closed by the CAS); a sympy lemma shows that these closed forms are the first and mixed second derivatives of the kernels (d = 2, ARD); RBFKernelGradGrad (value, first and diagonal second derivatives; d = 1, 2, isotropic and ARD): every entry [(i, p), (j, q)] equals D_p^{x1_i} D_q^{x2_j} k, the SYMBOLIC derivative computed by engine/diff.py from the kernel expression (all (2d+1)^2 blocks). Identities the back ends cannot close are checked numerically at sampled valuations; a difference is a counter-model candidate that is replayed (autograd reference) before it is reported. Bounded tier (not counted): a float64 oracle sweep over EVERY kernel exported by gpytorch.kernels (CPU) against independent "
       "re-implementations of the documented formulas, and the derivative kernels (RBF-grad, Matern-5/2-grad, polynomial-grad powers 1..4, "
       "RBF-grad-grad) against autograd derivatives of the base kernel in the interleaved layout, n1 != n2, d in {1,2,3}, batch shapes () / (2,).",
  design_ref="DESIGN.md section 5, C05",
  note="Kernels outside the proof list (spectral, arc, cylindrical, Hamming, KL, Newton-Girard, structure, index / multitask / LCM, RFF, grid, "
       "inducing-point and the derivative kernels) are covered by the bounded tier only. Hyper-parameter getters are taken as arbitrary "
       "positive tensors (their relation to the raw parameters is C17). exp / sqrt / cos / sin / pow are uninterpreted with ground axioms; floats "
       "are reals. MultitaskKernel's docstring formula is read up to the row/column permutation of the interleaved layout. Known findings "
       "(distributional kernels' lengthscale, HammingIMQ batching, a linear_operator exception) are listed in known_findings.json.",
  technique="contract-based deductive verification: AST-extracted real functions, elementwise tensor domain with binder-free sums and reciprocal atoms, z3 + sympy CAS"),
 "C06": dict(
  category="other",
  text="Proof tier (counted): LazyEvaluatedKernelTensor._getitem is executed symbolically for ARBITRARY row / column slices (start, stop, step "
       "each None or any integer: negative, zero, out of range) with 1, 2, 3 or (2, 1) outputs per input and symbolic n1, n2, d, and z3 discharges: "
       "either the dense fall-back is taken with the same index objects, or the new lazy tensor (same kernel, flags, params) holds exactly the "
       "points x[start/t + p] with count * t = |range(*slice.indices(N))| and a start aligned to a block boundary -- i.e. it denotes "
       "dense(M)[rows, cols]; an int batch index indexes both inputs and the kernel; _size for every broadcast pattern of x1 / x2 / kernel batch "
       "shapes, multi-output factors and last_dim_is_batch; _transpose_nonbatch, _unsqueeze_batch, repeat; Kernel.__call__: the inputs handed to "
       "forward / to the lazy tensor are exactly the active_dims columns of x1 and x2 (x2 = x1 when omitted, 1-d inputs become columns), diag=True "
       "returns forward's diagonal, lazy and eager modes wrap the same (inputs, kernel); (k1 + ... + kn)[idx] and the product form build a NEW "
       "composite of the indexed parts and leave the source untouched (deepcopy modelled structurally). Kernel.__call__(diag=True) on a kernel of batch shape (B,) with unbatched inputs returns the (B, n) diagonals for every B and n (B == n included), also when forward ignores the diag flag. Bounded tier (not counted): exhaustive "
       "index expressions (ints, slices over 11 bounds x 3 steps, index tensors, batch indices, Ellipsis) on 8 kernels incl. multitask, derivative "
       "and a (2, 1)-output kernel, diag / transpose / lazy-vs-eager / stacked blocks / repeat / unsqueeze, active_dims incl. kernel[i] and expand_batch.",
  design_ref="DESIGN.md section 5, C06",
  note="The generic LinearOperator.__getitem__ (ints, index tensors, Ellipsis expansion) is dependency code: it is exercised by the bounded tier "
       "only, where two dependency defects (negative ints, broadcasting of index tensors) are known findings. @cached / @recall_grad_state are "
       "dropped by the extraction. Kernel.__getitem__ / expand_batch on parameter tensors (deepcopy + .data assignment) are covered by the bounded "
       "tier only; the kernels' own diag-vs-full and symmetry statements are the C05 elementwise postconditions. Outputs per input enumerated "
       "(1, 2, 3, (2,1)); batch rank <= 1.",
  technique="contract-based deductive verification: AST-extracted real functions, symbolic slices (CPython slice.indices semantics), elementwise tensor domain, modular callee contracts, z3"),
 "C16": dict(
  category="other",
  text="Proof tier (counted): with an opt-in NaN model (NaN = a distinguished unconstrained real) the real observation_nan_policy._get_observed "
       "returns a mask of the event shape with observed[e] <=> no batch element is NaN at e (batch ranks 0..2, event ranks 1..2; the reduction over "
       "the batch is a fresh predicate with instantiated facts and a Skolem witness) and _fill_tensor replaces exactly the NaN entries by the "
       "finite fill value; _GaussianLikelihoodBase.expected_log_prob / log_marginal under 'mask' return exactly the terms of the entries selected "
       "by that mask (noise, mean, variance and target all masked alike) and under 'fill' return 0 for every missing entry and the unchanged term "
       "for every other one (also when an observation equals the fill value); ExactMarginalLogLikelihood.forward under 'mask' evaluates "
       "log_prob on (mean[obs], cov[obs, obs]) at target[obs] -- the density of the data set with the missing observations deleted -- divides "
       "by the total number n of targets, and rejects 'fill' with ValueError; prediction: _mean_cache('mask') solves the training system with the missing "
       "rows AND columns masked out against (y - m) at the observed positions and stores NaN elsewhere, exact_predictive_mean under 'mask' is m* + the sum over "
       "OBSERVED columns of K*x times the cache (mask re-derived from the cache), under 'fill' m* + the sum over the non-missing columns; _mean_cache('fill') (batch ranks 0, 1) solves, per batch element, the system with "
       "that element's missing rows and columns zeroed off the diagonal against y - m with the missing entries filled, and marks that element's missing "
       "entries (IEEE fact assumed: y - m is NaN exactly where y is). Bounded tier (not counted): every NaN pattern on n = 4 (quick) / 5 "
       "(thorough) single-output exact GPs, batched targets, 3 x 2 multitask interleaved and non-interleaved, both policies in both orders on the "
       "same model: posterior mean / covariance vs a model trained on the observed subset, n*MLL(mask) = n_obs*MLL(deleted), likelihood terms, finiteness.",
  design_ref="DESIGN.md section 5, C16",
  note="'rescaled by the count of observed values' is read as n * MLL(mask) == n_obs * MLL(deleted data) (the code divides by n). NaN poisoning of "
       "arithmetic is not modelled in the proof tier ('no NaN in any output' is bounded-tier only). The fill branch of _mean_cache and the predictive "
       "covariance are covered by the bounded tier only; a known finding (posterior covariance ignores the policy) is listed in "
       "known_findings.json. Gaussian marginalisation (restriction = sub-mean / sub-covariance) is cited. Masked selections are represented in place "
       "with an uninterpreted count as their visible extent.",
  technique="contract-based deductive verification: AST-extracted real functions, elementwise tensor domain with a NaN flag model and predicate-valued reductions, modular callee contracts, z3 + sympy CAS"),
 "C07": dict(
  category="other",
  text="Proof tier (counted): the clauses a contract can state -- reported variance = covariance diagonal clamped at settings.min_variance (so >= the "
       "configured minimum), stddev its non-negative root, confidence_region = mean -+ 2 stddev (MultivariateNormal.{variance, stddev, "
       "confidence_region}); every noise-like parameter registered with a constraint reads as constraint.transform(raw) inside [lower, upper] for "
       "all raw values (the site contract on the noise sites found in gpytorch/ on this run); HeteroskedasticNoise.forward = diag(constraint."
       "transform(noise-model mean[, indices])) with the noise model restored to its mode; the Gaussian marginal adds exactly that noise to the "
       "diagonal; Lean 4 / Mathlib lemmas over the C01 / C14 contracts (lean/Psd.lean, lean/Mono.lean; re-checked by lean on every run, axioms audited): the "
       "closed forms those contracts pin down -- Kss - Kxs^T (Kxx+N)^-1 Kxs, Kxx - Kxz Kzz^-1 Kzx + (Kzz^-1 Kzx)^T S (Kzz^-1 Kzx) and its whitened form -- "
       "are PSD over the reals when the joint prior covariance and N / S are PSD and the solved matrix is positive definite; prior - posterior is PSD; the "
       "posterior covariance given old + added observations is below the one given the old observations in the PSD order. Bounded tier (not counted; the "
       "ONLY tier for kernel Gram matrices and for rounding effects): symmetry / smallest eigenvalue of Gram matrices of 33 kernel "
       "classes on duplicated and nearly coincident rows over three lengthscale regimes; prior / posterior / variational / marginal covariances PSD, "
       "prior - posterior PSD, nested training sets never increase a variance, variance floors under non-default min_variance, noise >= bounds.",
  design_ref="DESIGN.md section 5, C07",
  note="Positive semi-definiteness of kernel Gram matrices is a theorem of analysis about values (Bochner), not a postcondition a solver can discharge "
       "from the code: it is checked numerically only; for the model covariances the code-to-closed-form step is proved in C01 / C14 and the closed-form-is-PSD "
       "step in Lean over the reals, with rounding left to the numerical tier (float64, tolerance 1e-8*scale on Gram matrices, 1e-6*scale on model covariances, 1e-2 on "
       "the CG path). FixedNoiseGaussianLikelihood's settings.min_fixed_noise floor is documented for construction only and is not demanded of "
       "later assignments (no constraint is involved). Known findings (kinked kernels on the requires_grad path, HammingIMQ batching, KISS + "
       "fixed-noise fantasies) are listed in known_findings.json.",
  technique="contract-based deductive verification for the variance-floor and noise-bound clauses (AST-extracted real functions, z3) plus Lean 4 / Mathlib lemmas over the C01 / C14 contracts for PSD of the model covariances; numerical enumeration (bounded) for kernel Gram matrices and rounding"),
 "C01": dict(
  category="other",
  text="Proof tier (counted): the assembly of the closed-form conditional from the REAL prediction code, with the linear solve as a callee "
       "contract (A @ SOLVE(A, R) = R): DefaultPredictionStrategy.exact_prediction splits the joint prior at [X; X*] into m* = mu[n:], K** = "
       "Sigma[n:, n:], K*x = Sigma[n:, :n] on both sides of the eager-size threshold (symbolic n, s, batch); _mean_cache('ignore') = "
       "SOLVE(cov(likelihood(train prior, train inputs)), y - marginal mean) with and without detach; exact_predictive_mean = m* + K*x @ "
       "mean_cache; exact_predictive_covar (fast_pred_var off) = K** - K*x @ SOLVE(cov(likelihood(N(0, Kxx))), Kx*) for tensor and operator "
       "arguments (addmm alpha/beta honoured), a zero operator of the test size under skip_posterior_variances; with fast_pred_var on, K** - (K*x R)(K*x R)^T "
       "for the inverse root R the dependency returns (R R^T = (Kxx + S)^-1 as callee contract), remembering the test-train block; ExactGP.__call__ in evaluation mode "
       "builds the strategy once from forward(train inputs), labels and likelihood, evaluates forward on cat([train, test]) and returns the "
       "joint's class of (mean, covariance). 'The likelihood adds exactly the observation noise' is C12's contract. ExactGP.set_train_data stores the new tensors and drops the prediction strategy for every combination of inputs / targets (C03 contract, shared). Bounded tier (not counted): "
       "dense float64 conditional vs model(x*) and likelihood(model(x*)) for 6 likelihood families x 6 kernels x 3 means, n in {1,2,7}, 10 batch "
       "configurations, 92 combinations of the prediction-relevant settings (lazy / eager, eager-size threshold, Cholesky / CG / root paths, "
       "fast_pred_var, detach_test_caches, skip_posterior_variances), repeated predictions on one object.",
  design_ref="DESIGN.md section 5, C01",
  note="Exactness of solve / root_inv_decomposition / CG / Lanczos is the dependency's contract (assumed in the proof tier, measured in the bounded "
       "tier: 1e-6 on direct paths, 1e-4 on CG paths whose stopping rule is not controlled by cg_tolerance). The kernel-specific strategies and the "
       "fantasy updates are bounded-tier only. Known findings: a linear_operator defect in "
       "KroneckerProductAddedDiagLinearOperator._root_inv_decomposition (wrong multitask covariances with fast_pred_var above max_cholesky_size) and "
       "targets that carry a batch dimension the inputs do not (prediction raises).",
  technique="contract-based deductive verification: AST-extracted real functions, elementwise tensor domain with binder-free sums, linear solves as callee contracts (stubs), z3"),
 "C04": dict(
  category="other",
  text="Proof tier (counted): ExactGP.get_fantasy_model is executed symbolically (single-output model, symbolic n, m, d, fantasy batch F; shared "
       "inputs with per-fantasy targets or plain inputs; with / without the noise keyword; deepcopy modelled as a structural clone so aliasing would "
       "show) and z3 discharges the assembly -- forward is evaluated once on [X; X_f], the new strategy is prediction_strategy."
       "get_fantasy_strategy(X_f, y_f, [X; X_f], [y; y_f], that prior[, noise]), the new likelihood is likelihood.get_fantasy_likelihood([noise]), "
       "the fantasy model's train data are [X; X_f] (expanded over the fantasy batch) and [y; y_f] -- and the FRAME: afterwards the source model "
       "holds the same train_inputs, train_targets, likelihood and prediction_strategy objects, and the result is a different object; FixedNoiseGaussianLikelihood.get_fantasy_likelihood "
       "(with / without learned additional noise, with / without a fantasy batch): the copy's fixed noise is [old FIXED noise; fantasy noise] (up to the "
       "min_fixed_noise rounding), the additional-noise module is copied once with its value, the source keeps its noise-model object and values, and a "
       "missing noise keyword is rejected; DefaultPredictionStrategy.get_fantasy_strategy (un-batched single-output case; symbolic n, m, root rank; "
       "root_inv_decomposition().matmul, psd_safe_cholesky, cholesky_solve, cat_rows and the root decompositions as callee contracts): Q = Kinv U^T, the "
       "factorised matrix is S - U Q with S the covariance of fantasy_likelihood(N(mu_f, K_ff), X_f), the small system's right-hand side is "
       "y_f - mu_f - U alpha, the new mean cache is [alpha - Q b; b], the carried roots / covar_cache are those of K.cat_rows(U, S), and the new strategy "
       "is built on the full data, the joint prior and the fantasy likelihood; plus the Lean 4 / Mathlib lemma lean/Bordered.lean (re-checked by lean on "
       "every run, axioms audited) that these terms solve [K U^T; U S] x = [y; y_f], i.e. the carried solve equals the one recomputed from the full data. Bounded "
       "tier (not counted): fantasy predictions (mean, full covariance) and the carried caches (mean_cache, covar_cache, lik_train_train_covar "
       "and its roots; KISS-GP interpolation caches) against dense from-scratch conditioning on the concatenated data, bitwise 'source untouched' "
       "checks, for Gaussian / FixedNoise / multitask / derivative / KISS-GP / model-list families, 1-3 fantasy steps incl. batch-expanding ones, "
       "fast_pred_var x detach_test_caches.",
  design_ref="DESIGN.md section 5, C04",
  note="The incremental update algebra of get_fantasy_strategy (Schur-complement update of the solve and of the root decompositions) is a callee "
       "contract in the proof tier and compared numerically with from-scratch conditioning in the bounded tier only. Known findings: multi-output "
       "fantasies beyond one point / un-batched, FixedNoise with shared inputs and per-fantasy noise, KISS-GP after a grad-enabled prediction, "
       "KISS-GP with fixed noise. Models above max_cholesky_size (Lanczos update) are outside the bound.",
  technique="contract-based deductive verification: AST-extracted real function, structural deepcopy model, frame obligations on object identity, modular callee contracts (stubs), z3"),
 "C09": dict(
  category="other",
  text="Proof tier (counted): Keys' cubic convolution kernel (Interpolation._cubic_interpolation_kernel) equals the documented piecewise cubic and, "
       "for EVERY fractional offset s in [0, 1), its four weights sum to one, are (0,1,0,0) at a node and reproduce linear and quadratic functions "
       "(polynomial identities discharged by z3); MultitaskKernel.forward = K_x[i,j] K_t[a,b] at row i*T+a, column j*T+b (interleaved Kronecker "
       "layout; symbolic n1, n2, T, batch; diag = its diagonal); IndexKernel: B B^T + diag(v) looked up at the task indices; LCMKernel = the sum "
       "of its components, each evaluated once on the inputs; InducingPointKernel (Cholesky factor and triangular solve as callee contracts): the factorised "
       "matrix is Kzz (upper), the inverse root is solve_triangular(U, I), k(x1, x2) = (K_x1z R)(K_x2z R)^T, in evaluation mode at x1 == x2 plus "
       "diag(k_base(x,x) - diag Q) (clamped or not), in training mode Q itself with the trace term built from N(0, diag k_base), N(0, Q) and the "
       "likelihood; InducingPointKernelAddedLossTerm.loss = -1/2 sum_i (Kxx_ii - Q_ii) / noise_i; Lean 4 / Mathlib lemma lean/Nystrom.lean: "
       "(K1 U^-1)(K2 U^-1)^T = K1 (U^T U)^-1 K2^T, the Nystrom matrix; GridKernel.update_grid drops the cached K_UU (contract shared with C03). Bounded tier (not counted): Index / Hadamard / Multitask / LCM / Grid (Toeplitz on and "
       "off, ragged, up to 3-4 dims) kernels vs explicit dense formulas; InducingPointKernel = Kxz Kzz^-1 Kzx (+ documented diagonal correction), "
       "n*MLL = Titsias bound, SGPR predictive equations; KISS-GP (fixed and data-determined grids, fantasy update, setting sequences), SGPR and "
       "RFF prediction strategies vs the dense conditional of the approximate kernel matrix under Cholesky / CG, fast_pred_var, fast_pred_samples, "
       "sgpr_diagonal_correction; multi-d interpolation weights with different grids per dimension, reproduction of quadratics, O(h^3) error, "
       "convergence of the interpolated kernel under grid refinement; eval-mode re-gridding.",
  design_ref="DESIGN.md section 5, C09",
  note="The Toeplitz / Kronecker grid algebra, the Nystrom / SGPR algebra (Cholesky solves) and the kernel-specific prediction strategies are "
       "bounded-tier only (dependency operators; tolerances 1e-6, 1e-5 where jittered root decompositions are involved, 1e-2 on CG paths whose stopping "
       "rule ignores cg_tolerance). 'Converges as the grid is refined' is an analysis statement checked on a refinement sequence. Known findings: "
       "GridKernel on batched grids, IndexKernel diag with a kernel batch, SGPR prediction at the training inputs (two defects), KISS-GP fantasy with "
       "fast_pred_samples, KISS-GP + fixed noise fantasy, out-of-range re-gridding with stale prediction caches.",
  technique="contract-based deductive verification: AST-extracted real functions, elementwise tensor domain (interleaved index arithmetic, binder-free sums), z3"),
 "C14": dict(
  category="other",
  text="Proof tier (counted): VariationalStrategy.forward (whitened) executed symbolically with the Cholesky factor and its triangular solve as "
       "callee contracts (A = SOLVE(L, Kzx), L L^T = Kzz + jitter I): the model is evaluated once on [Z; X], the factorised matrix is Kzz + jitter I, "
       "the solve's right-hand side is Kzx, mean = mu_X + A^T m~, covariance = Kxx + jitter I + A^T (S~ - I) A (Delta: A^T (-I) A) in both "
       "trace_mode forms, for symbolic m, n, batch; UnwhitenedVariationalStrategy.forward (evaluation mode, X != Z, both the Cholesky and the "
       "plain-operator branch) with LinearOperator.solve(rhs[, lhs]) and root_decomposition as callee contracts: joint prior at [Z; X], the solved matrix "
       "is Kzz + jitter_val I, INV = [(m - mu_Z)^T; R^T] SOLVE(Kzx) in one two-sided solve, mean = mu_X + INV[0], covariance = Kxx - Kxz SOLVE(Kzx) "
       "+ INV[1:]^T INV[1:] (Delta: no root rows); prior_distribution = N(0, I) of the variational shape; kl_divergence() = "
       "KL(variational_distribution || prior_distribution); Cholesky / MeanField / Delta variational distributions return N(m, tril(C) tril(C)^T) / "
       "N(m, diag s^2) / a point mass at m; multitask wrappers with the base strategy's output as a symbolic batch of independent GPs: "
       "IndependentMultitaskVariationalStrategy with task_indices gives mean[i] = mu_{t_i}[i], cov[i, j] = K_{t_i}[i, j] [t_i == t_j]; "
       "LMCVariationalStrategy.__call__ gives mean[i, t] = sum_l mu_l[i] W[l, t], cov[(i,t),(j,u)] = sum_l K_l[i, j] W[l, t] W[l, u] + jitter_val I in the "
       "interleaved layout (all tasks) and the same with the selected coefficients (one task per input; _select_lmc_coefficients trusted); both wrappers' "
       "kl_divergence() = the base KL summed over the configured task / latent dimension (dims -1, -2; batch ranks 1, 2); Lean 4 / Mathlib lemmas "
       "(lean/Variational.lean, re-checked by lean on every run, axioms audited) that the whitened and unwhitened forms pinned down by these contracts both equal "
       "the property's Kxx - Kxz Kzz^-1 (Kzz - S) Kzz^-1 Kzx / mX + Kxz Kzz^-1 (m - mz) for S = L S~ L^T, m = mz + L m~, and that the three terms of the "
       "whitened KL equal those of KL(q(u) || p(u)). Bounded tier (not counted): every (strategy x distribution) pair (standard, unwhitened, CIQ at tight "
       "tolerance, batch-decoupled, orthogonally decoupled, grid-interpolation, LMC, independent multitask; Cholesky, mean-field, delta, natural, "
       "tril-natural) on m <= 5, n <= 6, batch ranks 0..2: eval-mode mean / full covariance / KL and training-mode mean / variance against dense "
       "float64 closed forms; whitened = unwhitened for the same q(u); q(u) = p(u) gives the prior and KL = 0; wrappers mix with the stated "
       "coefficients, KL = sum of latent KLs.",
  design_ref="DESIGN.md section 5, C14",
  note="The closed form of the property follows from the proved expressions by substituting Kzz^-1 = L^-T L^-1 (cited algebra) with the jitter the "
       "code adds written explicitly; the value of KL between MVNs is C10's contract; its invariance under u = mz + L e is cited. The two trace_mode "
       "associations of the triple product are each stated as computed (equal by exchanging finite sums). Unwhitened, CIQ, decoupled, grid and "
       "multitask strategies and the natural distributions' forward are bounded-tier only. Known findings (8 groups, e.g. orthogonally decoupled "
       "mean / KL, batch-decoupled KL constant, grid strategy's hard-coded prior jitter, CIQ + natural) are listed in known_findings.json.",
  technique="contract-based deductive verification: AST-extracted real functions, elementwise tensor domain with binder-free (nested) sums, Cholesky / solve as callee contracts, z3"),
 "C08": dict(
  category="other",
  text="Proof tier (counted): element b of a batched output stated as a function of the b-th slices only, with a SYMBOLIC batch extent -- the same "
       "formula the non-batched contracts prove: kernel matrices K[b,i,j] for RBF, Matern (3 nu), RQ, Periodic (ARD and not, x1 = x2 and not, diag), "
       "Cosine, Linear, Polynomial, Constant, Scale; Constant / Zero / Linear means for every parameter / data batch pattern; Gaussian marginal, "
       "expected_log_prob, log_marginal, forward with batched noise; ExactMarginalLogLikelihood (priors, added losses) with no reduction across batch "
       "elements; MultivariateNormal.log_prob (9 broadcast patterns), KL, variance; IndependentModelList returns exactly its members' outputs, each "
       "called once on its own arguments; SumMarginalLogLikelihood = mean of the members, per batch element for batched members; Kernel.__getitem__ of a "
       "wrapper kernel whose batch shape comes from its sub-kernel returns a NEW kernel holding sub_kernel[i] (and its own indexed parameter), the "
       "source untouched. Bounded tier (not counted): batched object vs per-element replicas (parameter slices copied tensor by tensor) for 46 kernel "
       "configurations, means, likelihoods, exact GPs, every variational strategy, MLL / ELBO / PLL, model lists, over all 25 pairs of parameter / "
       "data batch shapes from {(), (2,), (3,1), (1,2), (3,2)}.",
  design_ref="DESIGN.md section 5, C08",
  note="The proof tier re-runs the C05 / C12 / C02 / C10 harnesses at batch rank 1 (rank-2 batches and mixed ranks are bounded-tier only). The "
       "bounded tier shows that batching is only reliable when parameter and data batch shapes MATCH: 13 groups of known findings (batch indexing "
       "of lazy kernel tensors and kernels, parameters not broadcast against data of another batch shape for several kernels / means / likelihoods, "
       "un-broadcast prior means, HammingIMQ, batch-decoupled strategy, log priors summed over the batch in the approximate MLLs) are listed in "
       "known_findings.json; exact / multitask / variational models with matching batch shapes, model lists and SumMLL agree with their replicas.",
  technique="contract-based deductive verification: AST-extracted real functions, elementwise tensor domain with a symbolic batch index, modular callee contracts, z3"),
 "C03": dict(
  category="other",
  text="Proof tier (counted): the per-operation step of the history-independence induction -- every public operation that changes what the "
       "prediction caches depend on drops them, on the real functions: Module.train (train(True) always, eval() when coming from training mode; "
       "eval() on an eval-mode model keeps the strategy), ExactGP.set_train_data (inputs / targets / both / neither, strict or not: strategy dropped, "
       "exactly the given data installed), Module._load_from_state_dict for ExactGP (prediction_strategy), InducingPointKernel (_cached_kernel_mat, "
       "_cached_kernel_inv_root), GridKernel (_cached_kernel_mat) and variational strategies (memoised prior / Cholesky factor) followed by the "
       "delegation to torch with the same arguments, GridKernel.update_grid (new grid buffers installed, cached K_UU dropped in interpolation mode "
       "too, full grid rebuilt otherwise), and the training-mode entry of _VariationalStrategy.__call__ (memoised values dropped before use; kept in "
       "evaluation mode). Also: a variational strategy built without an explicit jitter reads settings.variational_cholesky_jitter at every access and the read writes nothing on the strategy (settings are read at call time); InducingPointKernel caches are filled by the real getters and dropped by load (name-agnostic). Bounded tier (not counted): ALL histories of length <= 2-3 (quick) / 3-4 plus 200 sampled longer ones (thorough) over "
       "{predict under two settings, train/eval switch, optimiser step, set_train_data (inputs / targets / both), load_state_dict, get_fantasy_model, "
       "prior-mode call, backward through a non-detached prediction} for exact GPs (default, KISS-GP fixed and data-determined grid, SGPR) and "
       "variational GPs (whitened, unwhitened): next prediction vs a freshly constructed model with the same state and vs a dense oracle.",
  design_ref="DESIGN.md section 5, C03",
  note="The induction over arbitrary histories is argued, not mechanised: the invariant 'every cache was computed from the current parameters, data "
       "and grid' is preserved by predictions (frame) and re-established by the operations above; @cached decorators are dropped by the extraction, so "
       "what a cache KEY depends on is covered by the enumerated histories only. Direct parameter edits in eval mode are excluded by the statement. "
       "Known findings: second backward through a non-detached prediction, fantasies after a grad-enabled KISS-GP prediction, the data-determined "
       "KISS-GP grid as unsynchronised history state.",
  technique="contract-based deductive verification of the per-operation invalidation step (AST-extracted real functions, heap model with object identity, z3); exhaustive bounded enumeration of operation histories on the real code"),
 "C18": dict(
  category="other",
  text="Proof tier (counted): the state-footprint clauses -- what gpytorch itself must do so that torch's / Python's persistence mechanisms carry the "
       "prediction-relevant state: Interval.__init__ keeps the bounds in buffers (so every constraint's bounds travel with the state_dict); "
       "priors/utils._bufferize_attributes registers prior parameters as buffers, for a TransformedDistribution the buffer IS the tensor the base "
       "distribution reads (aliasing) and _load_transformed_to_base_dist points the base distribution at the loaded buffers; _VariationalStrategy / "
       "VariationalStrategy.__init__ register the inducing points as parameter or buffer as requested (a clone of the argument) and the "
       "initialisation flags variational_params_initialized (= 0) / updated_strategy as buffers; Module._load_from_state_dict drops the caches of "
       "ExactGP / InducingPointKernel / GridKernel / variational strategies before delegating to torch; a deep copy of a prediction strategy is None. "
       "Interval.transform / inverse_transform read no unregistered tensor state of the constraint (read footprint recorded during symbolic execution), so a state_dict round trip reproduces the hyperparameter values. Bounded tier (not counted): 49 model families (exact with a spread of kernels / constraints / priors, SGPR, KISS-GP, RFF, GridKernel, every "
       "variational strategy x distribution, multitask, model lists) x 5 save points of a train / eval / predict history x 6 mechanisms (state_dict "
       "into a fresh identical / differently constructed / already-used model, through a plain nn.Module holder, pickle, deepcopy): prior, "
       "predictive mean / covariance, objective and its gradient, every state_dict entry, independence of copies.",
  design_ref="DESIGN.md section 5, C18",
  note="'No prediction-relevant state lives outside what these mechanisms carry' is a universally quantified statement over all attributes of all "
       "classes: contracts state it for the registration sites above; the rest is measured on the enumerated families. torch's state_dict / pickle / "
       "deepcopy protocols are assumed. Loading each child's state_dict separately is not part of the property and is not demanded. Known findings "
       "(7 groups): Uniform / LKJ prior parameters outside the state_dict, transformed priors after .double(), pickling of locally defined prior "
       "closures, RFF weights registered at first call, InducingPointKernel.__deepcopy__, deepcopy with graph-holding caches, the data-determined "
       "KISS-GP grid bounds.",
  technique="contract-based deductive verification of the registration / invalidation sites (AST-extracted real functions, heap model with object identity and aliasing, z3); bounded enumeration of round trips on the real code"),
}
REASON_NOT_BUILT = "contracts for this property are not built yet in this revision (see DESIGN.md section 9 build order); not claimed until its obligations are discharged by the checker"

checks = []
for p in props:
    if p in CLAIMED:
        c = CLAIMED[p]
        checks.append({
            "property_id": p,
            "quick_cmd": f"./check {p} --tier quick",
            "thorough_cmd": f"./check {p} --tier thorough",
            "evidence_file": f"/verif/evidence/{p}.json",
            "replay_cmd_template": f"./check {p} --replay {{path}}",
            "engine": "pyvc",
            "level_claimed": {"category": c["category"], "text": c["text"], "design_ref": c["design_ref"]},
            "level_note": c["note"],
            "technique": c["technique"],
        })
na = [{"property_id": p, "reason": REASON_NOT_BUILT} for p in props if p not in CLAIMED]
m = {
 "version": 1,
 "setup_cmd": "./setup.sh",
 "hooks": {"guard": "GPYTORCH_VERIF", "enable": "no source hooks: contracts are sidecar files keyed by qualified name; checks read /repo's current sources (VERIF_REPO) and import gpytorch from there via PYTHONPATH",
           "baseline_off_cmd": "cd /repo && /venv/bin/python -m pytest -ra -q -p no:cacheprovider --timeout=900 --continue-on-collection-errors",
           "source_commits": [], "add_only": True},
 "engines": [{"name": "pyvc", "path": "engine/", "serves_properties": sorted(CLAIMED),
              "kind_free_text": "own contract verifier for Python: extracts the real functions with ast on every run, executes them symbolically (all paths), generates verification conditions from sidecar contracts and discharges them with z3 5.1 (cvc5 takes unknowns); counter-models are replayed on the real code; a bounded runtime-contract tier on the real code is labelled bounded and never counted as proved"}],
 "checks": checks,
 "not_applicable": na,
 "notes": "Genuine defects repaired in /repo are separate 'fix:' commits listed in known_findings.json under 'fixed'.",
}
json.dump(m, open(os.path.join(V, "MANIFEST.json"), "w"), indent=1)
print("claimed:", sorted(CLAIMED), "not claimed:", len(na))
