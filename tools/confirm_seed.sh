#!/bin/bash
# tools/confirm_seed.sh <dir with A.diff demo_A.py> <letter> <test paths...>
# confirms in a scratch worktree of /repo HEAD: demo passes without the patch, fails with it, tests pass with it
D=$1; L=$2; shift 2
W=/tmp/seedchk_$$_$L
git -C /repo worktree add -q --detach $W HEAD || exit 2
cd $W
r0=$(PYTHONPATH=$W timeout 600 /venv/bin/python -W ignore $D/demo_$L.py >/dev/null 2>&1; echo $?)
git apply $D/$L.diff || { echo "PATCH-FAIL"; cd /; git -C /repo worktree remove --force $W; exit 2; }
r1=$(PYTHONPATH=$W timeout 600 /venv/bin/python -W ignore $D/demo_$L.py >/dev/null 2>&1; echo $?)
if [ $# -gt 0 ]; then
  t=$(PYTHONPATH=$W timeout 3000 /venv/bin/python -m pytest -q -p no:cacheprovider -x "$@" 2>&1 | tail -1)
else t="(no tests requested)"; fi
cd /; git -C /repo worktree remove --force $W
echo "seed $D/$L: demo without patch exit=$r0 (want 0); with patch exit=$r1 (want !=0); tests with patch: $t"
