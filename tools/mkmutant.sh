#!/bin/bash
# tools/mkmutant.sh Cxx name 'expect-regex' file 'python-sub-expression: old' 'new' [kind]
# creates mutants/Cxx/name.patch by replacing the single occurrence of OLD by NEW in /repo/<file>
set -e
P=$1; N=$2; E=$3; F=$4; OLD=$5; NEW=$6; KIND=${7:-mutant}
T=$(mktemp -d /tmp/mkmut.XXXX); mkdir -p $T/a/$(dirname $F) $T/b/$(dirname $F)
cp /repo/$F $T/a/$F
python3 - "$T/a/$F" "$T/b/$F" "$OLD" "$NEW" <<'PY'
import sys
a,b,old,new=sys.argv[1:5]
s=open(a).read()
n=s.count(old)
assert n==1, f"pattern occurs {n} times"
open(b,'w').write(s.replace(old,new))
PY
mkdir -p /verif/mutants/$P
{ echo "# expect: $E"; echo "# kind: $KIND"; (cd $T && diff -u a/$F b/$F || true); } > /verif/mutants/$P/$N.patch
rm -rf $T; echo "wrote mutants/$P/$N.patch"
