#!/usr/bin/env python3
"""Development aid (never run by a check): tests hand-written known-finding rules against a dump of bounded-tier violation keys.
usage: tools/kf_rules.py Cxx /tmp/keys/<module>.json   -> prints per-rule counts and the keys no rule matches"""
import json, re, sys, collections
prop, path = sys.argv[1], sys.argv[2]
kf = json.load(open('/verif/known_findings.json'))
rules = [(re.compile(f['match']), f['what'][:70]) for f in kf['findings'] if f['property'] == prop]
keys = [v['key'] for v in json.load(open(path))]
cnt = collections.Counter(); un = []
for k in keys:
    hit = [w for r, w in rules if r.fullmatch('bounded:' + k)]
    if hit: cnt[hit[0]] += 1
    else: un.append(k)
for w, n in cnt.most_common(): print(n, w)
print('UNMATCHED', len(un))
g = collections.Counter(re.sub(r'\d+', '#', k) for k in un)
for k, n in g.most_common(int(sys.argv[3]) if len(sys.argv) > 3 else 40): print('   ', n, k)
