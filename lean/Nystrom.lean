import Mathlib.LinearAlgebra.Matrix.NonsingularInverse
import Mathlib.Data.Real.Basic

open Matrix

variable {n m p : Type*} [Fintype n] [Fintype m] [Fintype p] [DecidableEq n] [DecidableEq m] [DecidableEq p]

/-- `InducingPointKernel`: with `Uᵀ U = Kzz` (upper Cholesky factor, invertible) and `R = U⁻¹` (the cached inverse root),
`(K₁ R) (K₂ R)ᵀ` is the Nystrom matrix `K₁ Kzz⁻¹ K₂ᵀ`. -/
theorem nystrom_root (U : Matrix n n ℝ) (K1 : Matrix m n ℝ) (K2 : Matrix p n ℝ) :
    (K1 * U⁻¹) * (K2 * U⁻¹)ᵀ = K1 * (Uᵀ * U)⁻¹ * K2ᵀ := by
  rw [transpose_mul, Matrix.mul_inv_rev, transpose_nonsing_inv]
  simp only [Matrix.mul_assoc]

#print axioms nystrom_root
