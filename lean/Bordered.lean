import Mathlib.Data.Matrix.Basic
import Mathlib.Data.Matrix.Mul
import Mathlib.Data.Real.Basic
import Mathlib.Tactic.Abel

open Matrix

variable {n m : Type*} [Fintype n] [Fintype m] [DecidableEq n] [DecidableEq m]

/-- Bordered-system update of the mean cache (get_fantasy_strategy):
with `K * Kinv = 1`, `K α = y`, `Q = Kinv * Uᵀ`, and `b` solving the Schur system `(S - U Q) b = y_f - U α`,
the vector `[α - Q b; b]` solves `[K Uᵀ; U S] [a; b] = [y; y_f]`. -/
theorem bordered_update (K Kinv : Matrix n n ℝ) (U : Matrix m n ℝ) (S : Matrix m m ℝ)
    (α y : n → ℝ) (yf b : m → ℝ)
    (hK : K * Kinv = 1) (hα : K *ᵥ α = y)
    (hb : (S - U * (Kinv * Uᵀ)) *ᵥ b = yf - U *ᵥ α) :
    K *ᵥ (α - (Kinv * Uᵀ) *ᵥ b) + Uᵀ *ᵥ b = y ∧
    U *ᵥ (α - (Kinv * Uᵀ) *ᵥ b) + S *ᵥ b = yf := by
  constructor
  · rw [mulVec_sub, mulVec_mulVec, ← Matrix.mul_assoc, hK, Matrix.one_mul, hα]
    abel
  · rw [mulVec_sub, mulVec_mulVec]
    have h := hb
    rw [sub_mulVec] at h
    have : S *ᵥ b = yf - U *ᵥ α + (U * (Kinv * Uᵀ)) *ᵥ b := by
      rw [← h]; abel
    rw [this]; abel

#print axioms bordered_update
