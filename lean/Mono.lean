import Mathlib.LinearAlgebra.Matrix.PosDef
import Mathlib.Data.Matrix.ColumnRowPartitioned
import Mathlib.Data.Real.Basic
import Mathlib.Algebra.Order.Star.Real
import Mathlib.Tactic.Abel

open Matrix

variable {a b s : Type*} [Fintype a] [Fintype b] [Fintype s] [DecidableEq a] [DecidableEq b] [DecidableEq s]

/-- quadratic form of the three-block matrix at a vector that vanishes on the `b` block -/
theorem quad_zero_on_b (A : Matrix a a ℝ) (E : Matrix a b ℝ) (B : Matrix b b ℝ)
    (Ca : Matrix a s ℝ) (Cb : Matrix b s ℝ) (D : Matrix s s ℝ) (u : a → ℝ) (x : s → ℝ) :
    star ((u ⊕ᵥ (0 : b → ℝ)) ⊕ᵥ x) ᵥ* (fromBlocks (fromBlocks A E Eᴴ B) (fromRows Ca Cb) (fromRows Ca Cb)ᴴ D) ⬝ᵥ ((u ⊕ᵥ (0 : b → ℝ)) ⊕ᵥ x)
      = star (u ⊕ᵥ x) ᵥ* (fromBlocks A Ca Caᴴ D) ⬝ᵥ (u ⊕ᵥ x) := by
  simp [vecMul_fromBlocks, transpose_fromRows, vecMul_fromCols]

/-- Adding observations never increases posterior (co)variance.  `a` = old observations, `b` = added observations, `s` = test points;
the blocks `A`, `B` already contain the observation noise.  With the three-block joint covariance PSD and the two solved matrices positive
definite, the posterior covariance given `a` minus the posterior covariance given `a ⊕ b` is PSD (in particular every posterior variance
can only decrease). -/
theorem more_data_less_variance (A : Matrix a a ℝ) (E : Matrix a b ℝ) (B : Matrix b b ℝ)
    (Ca : Matrix a s ℝ) (Cb : Matrix b s ℝ) (D : Matrix s s ℝ)
    (hJ : (fromBlocks (fromBlocks A E Eᴴ B) (fromRows Ca Cb) (fromRows Ca Cb)ᴴ D).PosSemidef)
    (hAB : (fromBlocks A E Eᴴ B).PosDef) [Invertible (fromBlocks A E Eᴴ B)]
    (hA : A.PosDef) [Invertible A] :
    ((D - Caᴴ * A⁻¹ * Ca) - (D - (fromRows Ca Cb)ᴴ * (fromBlocks A E Eᴴ B)⁻¹ * (fromRows Ca Cb))).PosSemidef := by
  have hD : D.IsHermitian := by
    have := hJ.isHermitian
    rw [IsHermitian.fromBlocks₁₁ _ _ hAB.1] at this
    have h2 := this
    -- D - Cᴴ AB⁻¹ C Hermitian and Cᴴ AB⁻¹ C Hermitian give D Hermitian
    have h3 : ((fromRows Ca Cb)ᴴ * (fromBlocks A E Eᴴ B)⁻¹ * (fromRows Ca Cb)).IsHermitian :=
      (hAB.inv.posSemidef.conjTranspose_mul_mul_same _).isHermitian
    simpa using h2.add h3
  have h1 : (Caᴴ * A⁻¹ * Ca).IsHermitian := (hA.inv.posSemidef.conjTranspose_mul_mul_same _).isHermitian
  have h2 : ((fromRows Ca Cb)ᴴ * (fromBlocks A E Eᴴ B)⁻¹ * (fromRows Ca Cb)).IsHermitian :=
    (hAB.inv.posSemidef.conjTranspose_mul_mul_same _).isHermitian
  refine PosSemidef.of_dotProduct_mulVec_nonneg ((hD.sub h1).sub (hD.sub h2)) fun x => ?_
  -- quadratic forms
  set S1 := D - Caᴴ * A⁻¹ * Ca with hS1
  set S2 := D - (fromRows Ca Cb)ᴴ * (fromBlocks A E Eᴴ B)⁻¹ * (fromRows Ca Cb) with hS2
  have key : star x ⬝ᵥ (S2 *ᵥ x) ≤ star x ⬝ᵥ (S1 *ᵥ x) := by
    let u : a → ℝ := -((A⁻¹ * Ca) *ᵥ x)
    have e1 := schur_complement_eq₁₁ (fromRows Ca Cb) D (u ⊕ᵥ (0 : b → ℝ)) x hAB.1
    have e2 := schur_complement_eq₁₁ Ca D u x hA.1
    rw [quad_zero_on_b] at e1
    rw [e2] at e1
    have z : u + (A⁻¹ * Ca) *ᵥ x = 0 := by simp [u]
    rw [z] at e1
    simp only [star_zero, zero_vecMul, zero_dotProduct, zero_add] at e1
    have nn := hAB.posSemidef.dotProduct_mulVec_nonneg ((u ⊕ᵥ (0 : b → ℝ)) + ((fromBlocks A E Eᴴ B)⁻¹ * fromRows Ca Cb) *ᵥ x)
    rw [dotProduct_mulVec] at nn
    rw [dotProduct_mulVec, dotProduct_mulVec]
    linarith
  have : star x ⬝ᵥ ((S1 - S2) *ᵥ x) = star x ⬝ᵥ (S1 *ᵥ x) - star x ⬝ᵥ (S2 *ᵥ x) := by
    rw [sub_mulVec, dotProduct_sub]
  rw [this]
  linarith

#print axioms more_data_less_variance
