import Mathlib.LinearAlgebra.Matrix.NonsingularInverse
import Mathlib.Data.Real.Basic
import Mathlib.Tactic.Abel
import Mathlib.Tactic.Ring
import Mathlib.LinearAlgebra.Matrix.Trace

open Matrix

variable {n m k : Type*} [Fintype n] [Fintype m] [Fintype k] [DecidableEq n] [DecidableEq m] [DecidableEq k]

/-- Whitened strategy, covariance: with `Kzz = L Lᵀ`, `L` invertible, `A = L⁻¹ Kzx` (what C14's whitened contract pins down) and
`S = L S̃ Lᵀ` (u = mz + L e), `Kxx + Aᵀ (S̃ - 1) A` is the property's `Kxx - Kxz Kzz⁻¹ (Kzz - S) Kzz⁻¹ Kzx`. -/
theorem whitened_cov_eq (L St : Matrix n n ℝ) (Kzx : Matrix n m ℝ) (Kxx : Matrix m m ℝ) (hL : IsUnit L.det) :
    Kxx + (L⁻¹ * Kzx)ᵀ * (St - 1) * (L⁻¹ * Kzx)
      = Kxx - Kzxᵀ * (L * Lᵀ)⁻¹ * (L * Lᵀ - L * St * Lᵀ) * (L * Lᵀ)⁻¹ * Kzx := by
  have hLt : IsUnit Lᵀ.det := by rwa [det_transpose]
  rw [Matrix.mul_inv_rev, transpose_mul, transpose_nonsing_inv]
  simp only [Matrix.mul_sub, Matrix.sub_mul, Matrix.mul_assoc, Matrix.mul_one,
    nonsing_inv_mul_cancel_left _ _ hL, mul_nonsing_inv_cancel_left _ _ hLt]
  abel

/-- Whitened strategy, mean: `Aᵀ m̃ = Kxz Kzz⁻¹ (L m̃)`. -/
theorem whitened_mean_eq (L : Matrix n n ℝ) (Kzx : Matrix n m ℝ) (mt : n → ℝ) (hL : IsUnit L.det) :
    (L⁻¹ * Kzx)ᵀ *ᵥ mt = (Kzxᵀ * (L * Lᵀ)⁻¹) *ᵥ (L *ᵥ mt) := by
  rw [mulVec_mulVec, Matrix.mul_inv_rev, transpose_mul, transpose_nonsing_inv]
  simp only [Matrix.mul_assoc, nonsing_inv_mul _ hL, Matrix.mul_one]

/-- Unwhitened strategy, covariance: with `S = R Rᵀ` and `INV = Rᵀ Kzz⁻¹ Kzx` (the two-sided solve of C14's unwhitened contract),
`Kxx - Kxz Kzz⁻¹ Kzx + INVᵀ INV` is the property's `Kxx - Kxz Kzz⁻¹ (Kzz - S) Kzz⁻¹ Kzx` (Kzz symmetric and invertible). -/
theorem unwhitened_cov_eq (Kzz : Matrix n n ℝ) (R : Matrix n k ℝ) (Kzx : Matrix n m ℝ) (Kxx : Matrix m m ℝ)
    (hK : IsUnit Kzz.det) (hs : Kzzᵀ = Kzz) :
    Kxx - Kzxᵀ * (Kzz⁻¹ * Kzx) + (Rᵀ * (Kzz⁻¹ * Kzx))ᵀ * (Rᵀ * (Kzz⁻¹ * Kzx))
      = Kxx - Kzxᵀ * Kzz⁻¹ * (Kzz - R * Rᵀ) * Kzz⁻¹ * Kzx := by
  have hsi : Kzz⁻¹ᵀ = Kzz⁻¹ := by rw [transpose_nonsing_inv, hs]
  rw [transpose_mul, transpose_mul, transpose_transpose, hsi]
  simp only [Matrix.mul_sub, Matrix.sub_mul, Matrix.mul_assoc, nonsing_inv_mul_cancel_left _ _ hK]
  abel

/-- KL of the whitened parameterisation, trace term: `tr(Kzz⁻¹ S) = tr(S̃)` for `Kzz = L Lᵀ`, `S = L S̃ Lᵀ`. -/
theorem kl_trace_eq (L St : Matrix n n ℝ) (hL : IsUnit L.det) :
    trace ((L * Lᵀ)⁻¹ * (L * St * Lᵀ)) = trace St := by
  have hLt : IsUnit Lᵀ.det := by rwa [det_transpose]
  rw [Matrix.mul_inv_rev]
  simp only [Matrix.mul_assoc, nonsing_inv_mul_cancel_left _ _ hL]
  rw [trace_mul_comm, Matrix.mul_assoc, mul_nonsing_inv _ hLt, Matrix.mul_one]

/-- KL, quadratic term: `(L m̃)ᵀ Kzz⁻¹ (L m̃) = m̃ᵀ m̃`. -/
theorem kl_quad_eq (L : Matrix n n ℝ) (mt : n → ℝ) (hL : IsUnit L.det) :
    (L *ᵥ mt) ⬝ᵥ ((L * Lᵀ)⁻¹ *ᵥ (L *ᵥ mt)) = mt ⬝ᵥ mt := by
  have hLt : IsUnit Lᵀ.det := by rwa [det_transpose]
  rw [mulVec_mulVec, Matrix.mul_inv_rev, Matrix.mul_assoc, nonsing_inv_mul _ hL, Matrix.mul_one,
    dotProduct_mulVec, vecMul_mulVec, ← mulVec_transpose, transpose_mul, transpose_transpose, transpose_nonsing_inv,
    transpose_transpose, nonsing_inv_mul _ hL, one_mulVec]

/-- KL, log-determinant term: `det S = det Kzz · det S̃`, so `log det Kzz - log det S = - log det S̃`. -/
theorem kl_det_eq (L St : Matrix n n ℝ) :
    det (L * St * Lᵀ) = det (L * Lᵀ) * det St := by
  rw [det_mul, det_mul, det_mul, det_transpose]; ring

#print axioms kl_trace_eq
#print axioms kl_quad_eq
#print axioms kl_det_eq

#print axioms whitened_cov_eq
#print axioms whitened_mean_eq
#print axioms unwhitened_cov_eq
