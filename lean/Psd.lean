import Mathlib.LinearAlgebra.Matrix.PosDef
import Mathlib.Data.Matrix.ColumnRowPartitioned
import Mathlib.Data.Real.Basic
import Mathlib.Tactic.Abel
import Mathlib.LinearAlgebra.Matrix.NonsingularInverse
import Mathlib.Algebra.Order.Star.Real

open Matrix

variable {n m : Type*} [Fintype n] [Fintype m] [DecidableEq n] [DecidableEq m]

theorem blockdiag_psd (N : Matrix n n ℝ) (hN : N.PosSemidef) :
    (fromBlocks N (0 : Matrix n m ℝ) (0 : Matrix m n ℝ) (0 : Matrix m m ℝ)).PosSemidef := by
  have h := hN.conjTranspose_mul_mul_same (fromCols (1 : Matrix n n ℝ) (0 : Matrix n m ℝ))
  have e : (fromCols (1 : Matrix n n ℝ) (0 : Matrix n m ℝ))ᴴ * N * fromCols (1 : Matrix n n ℝ) (0 : Matrix n m ℝ)
      = fromBlocks N 0 0 0 := by
    rw [conjTranspose_fromCols_eq_fromRows_conjTranspose, fromRows_mul, fromRows_mul_fromCols]
    simp
  rwa [e] at h

/-- Exact GP posterior covariance: with the joint prior covariance `[Kxx Kxs; Kxsᴴ Kss]` PSD, the likelihood's noise `N` PSD and
`A = Kxx + N` positive definite, `Kss - Kxsᴴ A⁻¹ Kxs` is PSD. -/
theorem posterior_psd (Kxx N : Matrix n n ℝ) (Kxs : Matrix n m ℝ) (Kss : Matrix m m ℝ)
    (hJ : (fromBlocks Kxx Kxs Kxsᴴ Kss).PosSemidef) (hN : N.PosSemidef)
    (hA : (Kxx + N).PosDef) [Invertible (Kxx + N)] :
    (Kss - Kxsᴴ * (Kxx + N)⁻¹ * Kxs).PosSemidef := by
  rw [← Matrix.PosDef.fromBlocks₁₁ Kxs Kss hA]
  have e : fromBlocks (Kxx + N) Kxs Kxsᴴ Kss
      = fromBlocks Kxx Kxs Kxsᴴ Kss + fromBlocks N (0 : Matrix n m ℝ) (0 : Matrix m n ℝ) (0 : Matrix m m ℝ) := by
    rw [fromBlocks_add]; simp
  rw [e]
  exact hJ.add (blockdiag_psd N hN)

/-- Conditioning never adds uncertainty: prior minus posterior covariance, `Kxsᴴ A⁻¹ Kxs`, is PSD. -/
theorem prior_minus_posterior_psd (A : Matrix n n ℝ) (Kxs : Matrix n m ℝ) (Kss : Matrix m m ℝ)
    (hA : A.PosDef) :
    (Kss - (Kss - Kxsᴴ * A⁻¹ * Kxs)).PosSemidef := by
  have h : (Kxsᴴ * A⁻¹ * Kxs).PosSemidef := hA.inv.posSemidef.conjTranspose_mul_mul_same Kxs
  simpa using h

/-- Variational q(f) covariance `Kxx - Kxzᴴ.. ` in the form the contracts state it: Schur complement of the prior plus `Aᴴ S A`. -/
theorem variational_psd (Kzz S : Matrix n n ℝ) (Kzx : Matrix n m ℝ) (Kxx : Matrix m m ℝ)
    (hJ : (fromBlocks Kzz Kzx Kzxᴴ Kxx).PosSemidef) (hS : S.PosSemidef)
    (hK : Kzz.PosDef) [Invertible Kzz] :
    (Kxx - Kzxᴴ * Kzz⁻¹ * Kzx + (Kzz⁻¹ * Kzx)ᴴ * S * (Kzz⁻¹ * Kzx)).PosSemidef := by
  have h1 : (Kxx - Kzxᴴ * Kzz⁻¹ * Kzx).PosSemidef := (Matrix.PosDef.fromBlocks₁₁ Kzx Kxx hK).mp hJ
  exact h1.add (hS.conjTranspose_mul_mul_same _)

/-- Whitened variational q(f) covariance in the form of C14's contract: `Kxx + Aᴴ (S̃ - 1) A` with `A = L⁻¹ Kzx` and `L Lᴴ = Kzz`. -/
theorem whitened_psd (L St : Matrix n n ℝ) (Kzx : Matrix n m ℝ) (Kxx : Matrix m m ℝ)
    (hJ : (fromBlocks (L * Lᴴ) Kzx Kzxᴴ Kxx).PosSemidef) (hS : St.PosSemidef)
    (hK : (L * Lᴴ).PosDef) [Invertible (L * Lᴴ)] :
    (Kxx + (L⁻¹ * Kzx)ᴴ * (St - 1) * (L⁻¹ * Kzx)).PosSemidef := by
  have h1 : (Kxx - Kzxᴴ * (L * Lᴴ)⁻¹ * Kzx).PosSemidef := (Matrix.PosDef.fromBlocks₁₁ Kzx Kxx hK).mp hJ
  have h2 : ((L⁻¹ * Kzx)ᴴ * St * (L⁻¹ * Kzx)).PosSemidef := hS.conjTranspose_mul_mul_same _
  have e : Kxx + (L⁻¹ * Kzx)ᴴ * (St - 1) * (L⁻¹ * Kzx)
      = (Kxx - Kzxᴴ * (L * Lᴴ)⁻¹ * Kzx) + (L⁻¹ * Kzx)ᴴ * St * (L⁻¹ * Kzx) := by
    rw [Matrix.mul_inv_rev, conjTranspose_mul, conjTranspose_nonsing_inv, Matrix.mul_sub, Matrix.sub_mul, Matrix.mul_one]
    simp only [Matrix.mul_assoc]
    abel
  rw [e]
  exact h1.add h2

#print axioms whitened_psd

#print axioms posterior_psd
#print axioms prior_minus_posterior_psd
#print axioms variational_psd
