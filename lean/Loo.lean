import Mathlib.LinearAlgebra.Matrix.SchurComplement
import Mathlib.Data.Real.Basic
import Mathlib.Tactic.Abel

open Matrix

variable {n o : Type*} [Fintype n] [Fintype o] [DecidableEq n] [DecidableEq o]

/-- Leave-one-out (leave-a-block-out) identity behind `LeaveOneOutPseudoLikelihood`: for `K = [A B; C D]` (held-out block last; `A` the covariance
of the remaining observations) with `S = D - C A⁻¹ B` the predictive covariance of the held-out block given the rest,
the held-out block of `K⁻¹` is `S⁻¹`, and the held-out block of `K⁻¹ y` is `S⁻¹ (y₂ - C A⁻¹ y₁)` = `S⁻¹ (y₂ - predictive mean)`.
Hence (held-out block 1 x 1): `1 / (K⁻¹)_ii` is the predictive variance and `y_i - (K⁻¹ y)_i / (K⁻¹)_ii` the predictive mean of point `i` given the others. -/
theorem loo_identity (A : Matrix n n ℝ) (B : Matrix n o ℝ) (C : Matrix o n ℝ) (D : Matrix o o ℝ)
    [Invertible A] [Invertible (D - C * ⅟A * B)] [Invertible (fromBlocks A B C D)]
    (y1 : n → ℝ) (y2 : o → ℝ) :
    (⅟(fromBlocks A B C D)).toBlocks₂₂ = ⅟(D - C * ⅟A * B) ∧
    (fun j => (⅟(fromBlocks A B C D) *ᵥ (Sum.elim y1 y2)) (Sum.inr j))
      = ⅟(D - C * ⅟A * B) *ᵥ (y2 - (C * ⅟A) *ᵥ y1) := by
  rw [invOf_fromBlocks₁₁_eq]
  constructor
  · simp
  · funext j
    rw [fromBlocks_mulVec]
    simp only [Sum.elim_inr, Pi.add_apply]
    rw [mulVec_sub, mulVec_mulVec, neg_mulVec, ← Matrix.mul_assoc]
    simp only [Pi.sub_apply, Pi.neg_apply, Sum.elim_comp_inl, Sum.elim_comp_inr]
    ring

#print axioms loo_identity
