"""symexec.py -- path-sensitive symbolic execution of the real ASTs (the stated Python subset).

Path exploration is by *re-execution with a decision prefix*: a harness (contract case) is a
Python function run once per path; every branch on a symbolic condition consults the
prefix, and when the prefix is exhausted both sides are checked for feasibility under the
current path condition, one is taken and the other is queued.  Because every path starts
from scratch, the symbolic heap is made of ordinary mutable Python objects.
"""
from __future__ import annotations

import ast
import time

import z3

from .extract import ClassInfo, FuncInfo, RepoIndex
from .values import *  # noqa: F401,F403
from .values import (
    ELLIPSIS, FALSE, NONE, NOTIMPL, TRUE, PyRaise, Undecided, V, VAny, VAtom, VBool, VBound, VBuiltin,
    VClass, VDict, VExc, VExtClass, VFunc, VList, VModule, VNum, VObj, VOpaque, VSlice, VStr, VSuper,
    VTuple, fresh, from_py,
)


def _has_yield(fnode):
    for st in fnode.body:
        for n in ast.walk(st):
            if isinstance(n, (ast.Yield, ast.YieldFrom)):
                return True
            # nested defs have their own scope -- ast.walk descends into them, which only over-approximates
    return False


class _Return(Exception):
    def __init__(self, v):
        self.v = v


class _Break(Exception):
    pass


class _Continue(Exception):
    pass


class PathLimit(Exception):
    pass


class Env:
    def __init__(self, parent=None, module=None, func=None, defcls=None):
        self.vars = {}
        self.parent = parent
        self.module = module if module is not None else (parent.module if parent else None)
        self.func = func
        self.defcls = defcls if defcls is not None else (parent.defcls if parent else None)

    def lookup(self, name):
        e = self
        while e is not None:
            if name in e.vars:
                return e.vars[name]
            e = e.parent
        return None

    def set(self, name, v):
        self.vars[name] = v


class Obligation:
    __slots__ = ("name", "formula", "pc", "info", "kind")

    def __init__(self, name, formula, pc, info=None, kind="ensures"):
        self.name, self.formula, self.pc, self.info, self.kind = name, formula, list(pc), info or {}, kind


class Ctx:
    """state of one path"""

    def __init__(self, prefix=(), feas_timeout_ms=20000, feas_rlimit=6000000):
        self.pc = []
        self.prefix = list(prefix)
        self.pos = 0
        self.alternatives = []
        self.decisions = []
        self.solver = z3.Solver()
        # feasibility / entailment checks are cut off by z3's DETERMINISTIC resource limit (about 3-4 s of work here), not by wall-clock time: a check that sits near
        # a wall-clock limit answers unsat in one run and unknown in the next, which changes the VCs that are generated (seen on C11: 5 s vs 4 min).  The wall-clock
        # timeout stays as a generous backstop only.
        self.solver.set("timeout", feas_timeout_ms)
        self.solver.set("rlimit", feas_rlimit)
        self.classattrs = {}
        self.obligations = []
        self.assumptions = set()
        self.notes = []
        self.writes = []
        self.reads = []
        self.calls = []  # (qualname) trace of inlined / contracted calls
        self.decided = {}
        self.axioms = []
        self.ghost = {}
        self.unknown_feasibility = 0

    # --- path condition -------------------------------------------------------------
    def add_pc(self, f):
        self.pc.append(f)
        self.solver.add(f)

    def assume(self, f, why=None):
        if f is True:
            return
        if f is False:
            f = z3.BoolVal(False)
        self.add_pc(f)
        if why:
            self.assumptions.add(why)

    def add_axiom(self, f, name):
        self.add_pc(f)
        self.axioms.append(name)

    def define(self, name, term):
        """a constant naming `term` (definitional equality in the path condition); memoised per term"""
        term = z3.simplify(term)
        if z3.is_int_value(term) or z3.is_rational_value(term) or z3.is_const(term):
            return term
        key = ("def", term.get_id())
        hit = self.ghost.get(key)
        if hit is not None:
            return hit[0]
        v = z3.Const(fresh(name), term.sort())
        self.ghost[key] = (v, term)
        self.ghost.setdefault("defined_consts", []).append((name, v))
        self.add_pc(v == term)
        return v

    def _check(self, f):
        self.solver.push()
        self.solver.add(f)
        r = self.solver.check()
        self.solver.pop()
        return r

    def branch(self, cond):
        """decide a symbolic condition on this path; returns python bool"""
        if cond is True or cond is False:
            return cond
        cond = z3.simplify(cond)
        if z3.is_true(cond):
            return True
        if z3.is_false(cond):
            return False
        key = cond.get_id()
        if key in self.decided:
            return self.decided[key][1]
        if self.pos < len(self.prefix):
            d = self.prefix[self.pos]
            self.pos += 1
        else:
            rt = self._check(cond)
            rf = self._check(z3.Not(cond))
            if rt == z3.unknown or rf == z3.unknown:
                self.unknown_feasibility += 1
            t_ok = rt != z3.unsat
            f_ok = rf != z3.unsat
            if t_ok and f_ok:
                d = True
                self.alternatives.append(self.decisions + [False])
            elif t_ok:
                d = True
            elif f_ok:
                d = False
            else:
                raise InfeasiblePath()
            # forced decisions are recorded too, so that re-execution never re-asks the solver
            self.prefix.append(d)
            self.pos += 1
        self.decisions.append(d)
        self.add_pc(cond if d else z3.Not(cond))
        self.decided[key] = (cond, d)
        return d

    def truth(self, c):
        """python bool or z3 Bool -> decided python bool"""
        if c is True or c is False:
            return c
        return self.branch(c)

    def entails(self, f):
        """pc |= f ? (no fork).  unknown counts as no."""
        if f is True:
            return True
        if f is False:
            return False
        return self._check(z3.Not(f)) == z3.unsat

    @staticmethod
    def _surely_positive(t):
        """syntactic: numerals > 0, pi, INF, exp(.), sqrt(positive), products / sums of positives"""
        t = z3.simplify(t)
        if z3.is_int_value(t):
            return t.as_long() > 0
        if z3.is_rational_value(t):
            return t.as_fraction() > 0
        if z3.is_const(t):
            return t.decl().name() in ("pi", "INF")
        if z3.is_app(t):
            n = t.decl().name()
            ch = t.children()
            if n == "exp":
                return True
            if n in ("sqrt", "recip") and ch:
                return Ctx._surely_positive(ch[0])
            k = t.decl().kind()
            if k in (z3.Z3_OP_MUL, z3.Z3_OP_ADD) and ch:
                return all(Ctx._surely_positive(c) for c in ch)
            if k == z3.Z3_OP_DIV and len(ch) == 2:
                return Ctx._surely_positive(ch[0]) and Ctx._surely_positive(ch[1])
            if k == z3.Z3_OP_TO_REAL:
                return Ctx._surely_positive(ch[0])
        return False

    def require_nonzero(self, t, msg):
        # division by zero raises in Python; modelled as a raise on that branch
        if self._surely_positive(t) or self._surely_positive(-t):
            return
        if z3.is_int_value(t) or z3.is_rational_value(t):
            if z3.simplify(t == 0) == z3.BoolVal(True):
                raise PyRaise(VExc("ZeroDivisionError", msg))
            return
        if self.branch(t == 0):
            raise PyRaise(VExc("ZeroDivisionError", msg))

    # --- obligations ------------------------------------------------------------------
    def prove(self, name, formula, info=None, kind="ensures"):
        if formula is True:
            formula = z3.BoolVal(True)
        if formula is False:
            formula = z3.BoolVal(False)
        self.obligations.append(Obligation(name, formula, self.pc, info, kind))

    def note_write(self, loc):
        self.writes.append(loc)

    def note_read(self, loc):
        self.reads.append(loc)


class InfeasiblePath(Exception):
    pass


_BINOPS = {
    ast.Add: "+", ast.Sub: "-", ast.Mult: "*", ast.Div: "/", ast.FloorDiv: "//", ast.Mod: "%", ast.Pow: "**",
    ast.MatMult: "@", ast.BitAnd: "&", ast.BitOr: "|", ast.BitXor: "^", ast.LShift: "<<", ast.RShift: ">>",
}
_CMPOPS = {ast.Lt: "<", ast.LtE: "<=", ast.Gt: ">", ast.GtE: ">="}


class Interp:
    def __init__(self, index: RepoIndex = None, optable=None, contracts=None, max_loop=64, max_depth=60):
        self.index = index or RepoIndex()
        self.optable = optable or {}
        self.contracts = contracts or {}  # qualname -> callable(it, ctx, finfo, args, kwargs) summary
        self.max_loop = max_loop
        self.max_depth = max_depth
        self.depth = 0
        self.inline_log = set()
        self.summary_log = set()
        self.optable_log = set()
        self.attr_hooks = []  # callables (it, ctx, obj, name) -> V or None, for contract-provided views
        self.call_hooks = []  # callables (it, ctx, finfo, args, kwargs) -> V or NotImplemented

    # ================================================================== name resolution ===
    def module_value(self, ctx, module, name):
        r = module.resolve_name(name)
        if r is None:
            return None
        if r[0] in ("class", "func") and r[1].module.dependency:
            # dependency code: an op-table entry (assumed contract) takes precedence over its source
            top = r[1].module.name.split(".")[0]
            for key in (r[1].qualname, f"{top}.operators.{r[1].name}", f"{top}.{r[1].name}", f"{top}.utils.{r[1].name}"):
                if key in self.optable:
                    return self.external_value(ctx, key)
        if r[0] == "class":
            return VClass(r[1])
        if r[0] == "func":
            return VFunc(r[1])
        if r[0] == "module":
            return VModule(r[1])
        if r[0] == "assign":
            m, expr = r[1], r[2]
            return self.eval(ctx, expr, Env(module=m))
        if r[0] == "external":
            return self.external_value(ctx, r[1])
        return None

    def external_value(self, ctx, dotted):
        if dotted in ("math.pi", "torch.pi", "numpy.pi"):
            from .dom_real import pi
            return VNum(pi(ctx))
        if dotted in ("math.inf", "torch.inf", "numpy.inf"):
            from .optable_torch import inf
            return VNum(inf(ctx))
        if dotted in self.optable:
            self.optable_log.add(dotted)
            e = self.optable[dotted]
            return e if isinstance(e, V) else VBuiltin(dotted, e)
        # class-like externals
        return VExtClass(dotted)

    def module_getattr(self, ctx, modname, name):
        m = self.index.get_module(modname)
        if m is not None:
            v = self.module_value(ctx, m, name)
            if v is not None:
                return v
            sub = self.index.get_module(f"{modname}.{name}")
            if sub is not None:
                return VModule(sub.name)
            raise Undecided(f"name {name} not found in module {modname}")
        return self.external_value(ctx, f"{modname}.{name}")

    def lookup_name(self, ctx, name, env):
        v = env.lookup(name)
        if v is not None:
            return v
        if env.module is not None:
            v = self.module_value(ctx, env.module, name)
            if v is not None:
                return v
        key = f"builtins.{name}"
        if key in self.optable:
            e = self.optable[key]
            return e if isinstance(e, V) else VBuiltin(key, e)
        raise Undecided(f"unresolved name {name}")

    # ================================================================== attributes =========
    def class_getattr(self, ctx, vcls, name, bind_to=None):
        info = vcls.info
        if name == "__name__":
            return VStr(info.name)
        if name == "__class__":
            return VExtClass("builtins.type")
        for c in info.mro():
            if not isinstance(c, ClassInfo):
                continue
            key = (c.qualname, name)
            if key in ctx.classattrs:
                ctx.note_read(("class", c.qualname, name))
                return ctx.classattrs[key]
            if name in c.methods:
                fi = c.methods[name]
                if fi.is_classmethod:
                    return VBound(fi, vcls)
                if fi.is_staticmethod:
                    return VFunc(fi)
                return VFunc(fi)
            if name in c.assigns:
                ctx.note_read(("class", c.qualname, name))
                v = self.eval(ctx, c.assigns[name], Env(module=c.module, defcls=c))
                return v
        for h in self.attr_hooks:
            r = h(self, ctx, vcls, name)
            if r is not None:
                return r
        raise PyRaise(VExc("AttributeError", f"type object {info.name} has no attribute {name}"))

    def obj_getattr(self, ctx, obj, name):
        if name == "__class__":
            return VClass(obj.cls)
        if name == "__dict__":
            raise Undecided("__dict__ access")
        # data descriptors (properties) first, as in Python
        fi = obj.cls.find_method(name)
        if fi is not None and fi.is_property:
            for h in self.attr_hooks:
                r = h(self, ctx, obj, name)
                if r is not None:
                    return r
            return self.call_function(ctx, fi, [obj], {})
        if name in obj.fields:
            ctx.note_read(("field", obj.label, name))
            return obj.fields[name]
        for h in self.attr_hooks:
            r = h(self, ctx, obj, name)
            if r is not None:
                return r
        if fi is not None:
            if fi.is_classmethod:
                return VBound(fi, VClass(obj.cls))
            if fi.is_staticmethod:
                return VFunc(fi)
            return VBound(fi, obj)
        for c in obj.cls.mro():
            if isinstance(c, ClassInfo):
                key = (c.qualname, name)
                if key in ctx.classattrs:
                    ctx.note_read(("class", c.qualname, name))
                    return ctx.classattrs[key]
                if name in c.assigns:
                    ctx.note_read(("class", c.qualname, name))
                    return self.eval(ctx, c.assigns[name], Env(module=c.module, defcls=c))
        r = self.ext_base_attr(ctx, obj, name, obj.cls.external_bases())
        if r is not None:
            return r
        for ext in obj.cls.external_bases():
            key = f"{ext}.__getattr__"
            if key in self.optable:
                r = self.optable[key](self, ctx, [obj, VStr(name)], {})
                if r is not None:
                    return r
        ga = obj.cls.find_method("__getattr__")
        if ga is not None:
            return self.call_function(ctx, ga, [obj, VStr(name)], {})
        raise PyRaise(VExc("AttributeError", f"{obj.cls.name} object has no attribute {name}"))

    def ext_base_attr(self, ctx, obj, name, exts):
        """attribute provided by a base class whose source is not extracted (torch.nn.Module,
        torch.distributions....): looked up in the op-table as '<base>.<name>'"""
        for ext in exts:
            key = f"{ext}.{name}"
            if key in self.optable:
                self.optable_log.add(key)
                fn = self.optable[key]
                if getattr(fn, "is_property", False):
                    return fn(self, ctx, [obj], {})
                return VBuiltin(key, lambda it, ctx, a, k, fn=fn: fn(it, ctx, [obj] + list(a), k))
        return None

    def obj_setattr(self, ctx, obj, name, v):
        st = obj.cls.find_setter(name)
        if st is not None:
            self.call_function(ctx, st, [obj, v], {})
            return
        fi = obj.cls.find_method(name)
        if fi is not None and fi.is_property:
            raise PyRaise(VExc("AttributeError", f"can't set attribute {name}"))
        if not getattr(obj, "_in_setattr", False):
            # first __setattr__ in MRO order (extracted classes and op-table models of external bases alike)
            for cbase in obj.cls.mro():
                if isinstance(cbase, ClassInfo):
                    if "__setattr__" in cbase.methods:
                        obj._in_setattr = True
                        try:
                            self.call_function(ctx, cbase.methods["__setattr__"], [obj, VStr(name), v], {})
                        finally:
                            obj._in_setattr = False
                        return
                else:
                    key = f"{cbase}.__setattr__"
                    if key in self.optable:
                        self.optable[key](self, ctx, [obj, VStr(name), v], {})
                        return
        obj.fields[name] = v
        ctx.note_write(("field", obj.label, name))

    def super_getattr(self, ctx, sup, name):
        selfv = sup.selfv
        cls = selfv.cls if isinstance(selfv, VObj) else selfv.info
        if isinstance(sup.defcls, str):
            m = cls.mro()
            names = [c if isinstance(c, str) else c.qualname for c in m]
            pos = names.index(sup.defcls) if sup.defcls in names else -1
            rest = m[pos + 1:]
            fi = None
            for c in rest:
                if isinstance(c, ClassInfo) and name in c.methods:
                    fi = c.methods[name]
                    break
            exts = [c for c in rest if isinstance(c, str)]
        else:
            fi = cls.find_method(name, after=sup.defcls)
            m = cls.mro()
            exts = [c for c in m[m.index(sup.defcls) + 1:] if isinstance(c, str)]
        if fi is None:
            if isinstance(selfv, VObj):
                r = self.ext_base_attr(ctx, selfv, name, exts)
                if r is not None:
                    return r
            # external base: optable may know "<ext>.<name>"
            for ext in exts:
                key = f"{ext}.{name}"
                if key in self.optable:
                    self.optable_log.add(key)
                    fn = self.optable[key]
                    return VBuiltin(key, lambda it, ctx, a, k, fn=fn: fn(it, ctx, [selfv] + list(a), k))
            if name in ("__init__", "__init_subclass__"):
                return VBuiltin("object.__init__", lambda it, ctx, a, k: NONE)
            raise Undecided(f"super().{name} not found after {sup.defcls.name}")
        if fi.is_property:
            return self.call_function(ctx, fi, [selfv], {})
        if fi.is_classmethod:
            return VBound(fi, selfv if isinstance(selfv, VClass) else VClass(cls))
        if fi.is_staticmethod:
            return VFunc(fi)
        return VBound(fi, selfv)

    def getattr(self, ctx, v, name):
        return v.py_getattr(self, ctx, name)

    # ================================================================== calls =============
    def instantiate(self, ctx, vcls, args, kwargs):
        info = vcls.info
        for h in self.call_hooks:
            r = h(self, ctx, ("new", info), args, kwargs)
            if r is not NotImplemented:
                return r
        if info.is_subclass_of("Exception") or info.is_subclass_of("BaseException"):
            return VExc(info.name, " ".join(a.describe() for a in args), cls=info)
        obj = VObj(info)
        init = info.find_method("__init__")
        if init is not None:
            self.call_function(ctx, init, [obj] + list(args), kwargs)
        else:
            for ext in info.external_bases():
                key = f"{ext}.__init__"
                if key in self.optable:
                    self.optable[key](self, ctx, [obj] + list(args), kwargs)
                    break
        return obj

    def call_external(self, ctx, name, args, kwargs):
        if name in self.optable and not isinstance(self.optable[name], VExtClass):
            self.optable_log.add(name)
            e = self.optable[name]
            if isinstance(e, V):
                return e.py_call(self, ctx, args, kwargs)
            return e(self, ctx, args, kwargs)
        short = name.split(".")[-1]
        if short.endswith("Error") or short.endswith("Exception") or short.endswith("Warning"):
            return VExc(short, " ".join(a.describe() for a in args))
        raise Undecided(f"call of external {name} (no op-table entry)")

    def call(self, ctx, f, args, kwargs=None):
        return f.py_call(self, ctx, list(args), dict(kwargs or {}))

    def eval_default(self, ctx, fi, pname, node):
        """Python evaluates a default-argument expression ONCE, when the `def` statement runs: a default that calls something or
        builds a mutable object is evaluated here without the contract's hooks (the state at import time, not the symbolic state
        of the call under analysis) and the one resulting object is shared by all calls."""
        if not any(isinstance(x, (ast.Call, ast.List, ast.Dict, ast.Set, ast.ListComp, ast.DictComp, ast.SetComp)) for x in ast.walk(node)):
            return self.eval(ctx, node, Env(module=fi.module, defcls=fi.cls))
        key = (fi.qualname, pname)
        cache = self.__dict__.setdefault("_default_cache", {})
        if key not in cache:
            saved = (self.call_hooks, self.attr_hooks, ctx.classattrs)
            self.call_hooks, self.attr_hooks, ctx.classattrs = [], [], {}  # class-body initial state of every class
            try:
                cache[key] = self.eval(ctx, node, Env(module=fi.module, defcls=fi.cls))
            finally:
                self.call_hooks, self.attr_hooks, ctx.classattrs = saved
        return cache[key]

    def bind_args(self, ctx, fi: FuncInfo, args, kwargs, env):
        a = fi.node.args
        params = [p.arg for p in a.posonlyargs] + [p.arg for p in a.args]
        defaults = list(a.defaults)
        nd = len(defaults)
        args = list(args)
        kwargs = dict(kwargs)
        for i, p in enumerate(params):
            if i < len(args):
                if p in kwargs:
                    raise PyRaise(VExc("TypeError", f"{fi.name}() got multiple values for argument {p}"))
                env.set(p, args[i])
            elif p in kwargs:
                env.set(p, kwargs.pop(p))
            else:
                di = i - (len(params) - nd)
                if di >= 0:
                    env.set(p, self.eval_default(ctx, fi, p, defaults[di]))
                else:
                    raise PyRaise(VExc("TypeError", f"{fi.name}() missing required argument {p}"))
        extra = args[len(params):]
        if a.vararg is not None:
            env.set(a.vararg.arg, VTuple(extra))
        elif extra:
            raise PyRaise(VExc("TypeError", f"{fi.name}() takes {len(params)} positional arguments but {len(args)} were given"))
        for p, d in zip(a.kwonlyargs, a.kw_defaults):
            if p.arg in kwargs:
                env.set(p.arg, kwargs.pop(p.arg))
            elif d is not None:
                env.set(p.arg, self.eval_default(ctx, fi, p.arg, d))
            else:
                raise PyRaise(VExc("TypeError", f"{fi.name}() missing keyword-only argument {p.arg}"))
        if a.kwarg is not None:
            env.set(a.kwarg.arg, VDict(kwargs))
        elif kwargs:
            raise PyRaise(VExc("TypeError", f"{fi.name}() got an unexpected keyword argument {sorted(kwargs)[0]}"))

    def call_function(self, ctx, fi: FuncInfo, args, kwargs, closure=None, force_inline=False):
        qn = fi.qualname
        if not force_inline:
            for h in self.call_hooks:
                r = h(self, ctx, fi, args, kwargs)
                if r is not NotImplemented:
                    return r
            if qn in self.contracts:
                self.summary_log.add(qn)
                return self.contracts[qn](self, ctx, fi, args, kwargs)
        self.inline_log.add(qn)
        ctx.calls.append(qn)
        if self.depth >= self.max_depth:
            raise Undecided(f"call depth limit at {qn}")
        env = Env(parent=closure, module=fi.module, func=fi, defcls=fi.cls)
        self.bind_args(ctx, fi, args, kwargs, env)
        self.depth += 1
        try:
            if isinstance(fi.node, ast.Lambda):
                return self.eval(ctx, fi.node.body, env)
            is_gen = getattr(fi, "_is_gen", None)
            if is_gen is None:
                is_gen = fi._is_gen = _has_yield(fi.node)
            if is_gen:
                # generator functions are run to completion and their yields collected (finite generators only)
                env.vars["__yields__"] = []
                try:
                    self.exec_block(ctx, fi.node.body, env)
                except _Return:
                    pass
                return VList(env.vars["__yields__"])
            try:
                self.exec_block(ctx, fi.node.body, env)
            except _Return as r:
                return r.v
            return NONE
        finally:
            self.depth -= 1

    # ================================================================== helpers ===========
    def truthy(self, ctx, v):
        return ctx.truth(v.py_truthy(self, ctx))

    def eq(self, ctx, a, b):
        r = a.py_eq(self, ctx, b)
        return r

    def iterate(self, ctx, v):
        return v.py_iter(self, ctx)

    def binop(self, ctx, op, a, b):
        r = a.py_binop(self, ctx, op, b, False)
        if r is NotImplemented:
            r = b.py_binop(self, ctx, op, a, True)
        if r is NotImplemented:
            raise Undecided(f"binary {op} on {a.kind}, {b.kind}")
        return r

    def compare(self, ctx, op, a, b):
        r = a.py_compare(self, ctx, op, b, False)
        if r is NotImplemented:
            flip = {"<": ">", "<=": ">=", ">": "<", ">=": "<="}[op]
            r = b.py_compare(self, ctx, flip, a, False)
        if r is NotImplemented:
            raise Undecided(f"compare {op} on {a.kind}, {b.kind}")
        return r

    def real_pow(self, ctx, x, y):
        key = "math.pow"
        if key in self.optable:
            return self.optable[key](self, ctx, [x, y], {})
        raise Undecided("general power")

    def isinstance_check(self, ctx, v, cls):
        """python bool"""
        if isinstance(cls, VTuple):
            return any(self.isinstance_check(ctx, v, c) for c in cls.items)
        if isinstance(cls, VClass):
            if isinstance(v, VObj):
                return v.cls.is_subclass_of(cls.info)
            if isinstance(v, VExc) and v.cls is not None:
                return v.cls.is_subclass_of(cls.info)
            h = getattr(v, "isinstance_of", None)
            if h is not None:
                return h(cls.info.qualname)
            return False
        if isinstance(cls, VExtClass):
            n = cls.name.split(".")[-1]
            if isinstance(v, VAny):
                v = v.force(self, ctx)
            table = {
                "int": lambda: (isinstance(v, VNum) and v.is_int) or isinstance(v, VBool),
                "float": lambda: isinstance(v, VNum) and not v.is_int,
                "bool": lambda: isinstance(v, VBool),
                "str": lambda: isinstance(v, VStr),
                "tuple": lambda: isinstance(v, VTuple),
                "list": lambda: isinstance(v, VList),
                "dict": lambda: isinstance(v, VDict),
                "slice": lambda: isinstance(v, VSlice),
                "Size": lambda: isinstance(v, VTuple) and v.is_size,
                "Number": lambda: isinstance(v, (VNum, VBool)),
                "Real": lambda: isinstance(v, (VNum, VBool)),
                "Integral": lambda: (isinstance(v, VNum) and v.is_int) or isinstance(v, VBool),
            }
            if n in table:
                return table[n]()
            h = getattr(v, "isinstance_of", None)
            if h is not None:
                return h(cls.name)
            if isinstance(v, VObj):
                return v.cls.is_subclass_of(cls.name)
            return False
        if isinstance(cls, VBuiltin):
            # a class whose constructor is an op-table function (linear_operator operators, torch.nn.Parameter, ...)
            return self.isinstance_check(ctx, v, VExtClass(cls.name))
        raise Undecided(f"isinstance against {cls.kind}")

    # ================================================================== statements ========
    def exec_block(self, ctx, stmts, env):
        for st in stmts:
            self.exec_stmt(ctx, st, env)

    def exec_stmt(self, ctx, st, env):
        m = getattr(self, "s_" + type(st).__name__, None)
        if m is None:
            raise Undecided(f"statement {type(st).__name__} (line {getattr(st, 'lineno', '?')})")
        return m(ctx, st, env)

    def s_Expr(self, ctx, st, env):
        if isinstance(st.value, ast.Constant):
            return
        self.eval(ctx, st.value, env)

    def s_Pass(self, ctx, st, env):
        pass

    def s_Import(self, ctx, st, env):
        for a in st.names:
            env.set(a.asname or a.name.split(".")[0], VModule(a.name if a.asname else a.name.split(".")[0]))

    def s_ImportFrom(self, ctx, st, env):
        base = st.module or ""
        if st.level:
            mi = env.module
            pkg = mi._pkg().split(".") if mi._pkg() else []
            up = st.level - 1
            pkg = pkg[: len(pkg) - up] if up else pkg
            base = ".".join(pkg + ([st.module] if st.module else []))
        for a in st.names:
            env.set(a.asname or a.name, self.module_getattr(ctx, base, a.name))

    def s_Global(self, ctx, st, env):
        raise Undecided("global statement")

    def s_Nonlocal(self, ctx, st, env):
        raise Undecided("nonlocal statement")

    def s_Return(self, ctx, st, env):
        raise _Return(self.eval(ctx, st.value, env) if st.value is not None else NONE)

    def s_Break(self, ctx, st, env):
        raise _Break()

    def s_Continue(self, ctx, st, env):
        raise _Continue()

    def s_Delete(self, ctx, st, env):
        for t in st.targets:
            if isinstance(t, ast.Attribute):
                o = self.eval(ctx, t.value, env)
                if isinstance(o, VObj) and t.attr in o.fields:
                    del o.fields[t.attr]
                    ctx.note_write(("field", o.label, t.attr))
                else:
                    raise Undecided("del of non-field attribute")
            elif isinstance(t, ast.Name):
                env.vars.pop(t.id, None)
            elif isinstance(t, ast.Subscript):
                o = self.eval(ctx, t.value, env)
                k = self.eval(ctx, t.slice, env)
                if isinstance(o, VDict):
                    o.d.pop(VDict.key(k))
                else:
                    raise Undecided("del subscript")
            else:
                raise Undecided("del target")

    def s_Assert(self, ctx, st, env):
        c = self.eval(ctx, st.test, env)
        if not self.truthy(ctx, c):
            raise PyRaise(VExc("AssertionError", "assert"))

    def s_Raise(self, ctx, st, env):
        if st.exc is None:
            cur = env.lookup("__current_exc__")
            if cur is None:
                raise Undecided("bare raise outside except")
            raise PyRaise(cur)
        e = self.eval(ctx, st.exc, env)
        if isinstance(e, (VClass, VExtClass)):
            e = self.call(ctx, e, [], {})
        if isinstance(e, VObj):
            e = VExc(e.cls.name, "", cls=e.cls)
        if not isinstance(e, VExc):
            raise Undecided("raise of non-exception")
        raise PyRaise(e)

    def assign(self, ctx, target, v, env):
        if isinstance(target, ast.Name):
            env.set(target.id, v)
        elif isinstance(target, ast.Attribute):
            o = self.eval(ctx, target.value, env)
            o.py_setattr(self, ctx, self.mangle(target.attr, env), v)
        elif isinstance(target, (ast.Tuple, ast.List)):
            items = self.iterate(ctx, v)
            stars = [i for i, e in enumerate(target.elts) if isinstance(e, ast.Starred)]
            if stars:
                s = stars[0]
                after = len(target.elts) - s - 1
                if len(items) < len(target.elts) - 1:
                    raise PyRaise(VExc("ValueError", "not enough values to unpack"))
                for e, x in zip(target.elts[:s], items[:s]):
                    self.assign(ctx, e, x, env)
                self.assign(ctx, target.elts[s].value, VList(items[s: len(items) - after]), env)
                for e, x in zip(target.elts[s + 1:], items[len(items) - after:]):
                    self.assign(ctx, e, x, env)
            else:
                if len(items) != len(target.elts):
                    raise PyRaise(VExc("ValueError", f"unpack: expected {len(target.elts)} values, got {len(items)}"))
                for e, x in zip(target.elts, items):
                    self.assign(ctx, e, x, env)
        elif isinstance(target, ast.Subscript):
            o = self.eval(ctx, target.value, env)
            k = self.eval(ctx, target.slice, env)
            o.py_setitem(self, ctx, k, v)
        else:
            raise Undecided(f"assignment target {type(target).__name__}")

    def s_Assign(self, ctx, st, env):
        v = self.eval(ctx, st.value, env)
        for t in st.targets:
            self.assign(ctx, t, v, env)

    def s_AnnAssign(self, ctx, st, env):
        if st.value is not None:
            self.assign(ctx, st.target, self.eval(ctx, st.value, env), env)

    def s_AugAssign(self, ctx, st, env):
        op = _BINOPS[type(st.op)]
        if isinstance(st.target, ast.Name):
            cur = self.lookup_name(ctx, st.target.id, env)
            r = self.inplace_binop(ctx, op, cur, self.eval(ctx, st.value, env))
            env.set(st.target.id, r)
        elif isinstance(st.target, ast.Attribute):
            o = self.eval(ctx, st.target.value, env)
            cur = o.py_getattr(self, ctx, st.target.attr)
            r = self.inplace_binop(ctx, op, cur, self.eval(ctx, st.value, env))
            o.py_setattr(self, ctx, st.target.attr, r)
        elif isinstance(st.target, ast.Subscript):
            o = self.eval(ctx, st.target.value, env)
            k = self.eval(ctx, st.target.slice, env)
            cur = o.py_getitem(self, ctx, k)
            r = self.inplace_binop(ctx, op, cur, self.eval(ctx, st.value, env))
            o.py_setitem(self, ctx, k, r)
        else:
            raise Undecided("augmented assignment target")

    def inplace_binop(self, ctx, op, a, b):
        h = getattr(a, "py_ibinop", None)
        if h is not None:
            r = h(self, ctx, op, b)
            if r is not NotImplemented:
                return r
        return self.binop(ctx, op, a, b)

    def s_If(self, ctx, st, env):
        c = self.eval(ctx, st.test, env)
        if self.truthy(ctx, c):
            self.exec_block(ctx, st.body, env)
        else:
            self.exec_block(ctx, st.orelse, env)

    def s_While(self, ctx, st, env):
        n = 0
        while True:
            c = self.eval(ctx, st.test, env)
            if not self.truthy(ctx, c):
                break
            n += 1
            if n > self.max_loop:
                raise Undecided(f"while loop exceeds unroll limit {self.max_loop} (needs an invariant)")
            try:
                self.exec_block(ctx, st.body, env)
            except _Break:
                return
            except _Continue:
                continue
        self.exec_block(ctx, st.orelse, env)

    def s_For(self, ctx, st, env):
        items = self.iterate(ctx, self.eval(ctx, st.iter, env))
        for x in items:
            self.assign(ctx, st.target, x, env)
            try:
                self.exec_block(ctx, st.body, env)
            except _Break:
                return
            except _Continue:
                continue
        self.exec_block(ctx, st.orelse, env)

    def s_FunctionDef(self, ctx, st, env):
        fi = FuncInfo(st, env.module, None)
        f = VFunc(fi, closure=env)
        for d in reversed(st.decorator_list):
            dv = self.eval(ctx, d, env)
            f = self.call(ctx, dv, [f], {})
        env.set(st.name, f)

    def s_ClassDef(self, ctx, st, env):
        raise Undecided("nested class definition")

    def exc_matches(self, ctx, exc, typ):
        if isinstance(typ, VTuple):
            return any(self.exc_matches(ctx, exc, t) for t in typ.items)
        if isinstance(typ, VClass):
            if exc.cls is not None:
                return exc.cls.is_subclass_of(typ.info)
            return exc.clsname == typ.info.name
        if isinstance(typ, VExtClass):
            n = typ.name.split(".")[-1]
            if n in ("Exception", "BaseException"):
                return True
            if exc.cls is not None and exc.cls.is_subclass_of(n):
                return True
            hier = {
                "LookupError": ("KeyError", "IndexError"),
                "ArithmeticError": ("ZeroDivisionError", "OverflowError"),
                "RuntimeError": ("NotImplementedError", "RecursionError"),
                "Warning": ("DeprecationWarning", "UserWarning", "RuntimeWarning"),
            }
            return exc.clsname == n or exc.clsname in hier.get(n, ())
        raise Undecided("except clause type")

    def s_Try(self, ctx, st, env):
        try:
            try:
                self.exec_block(ctx, st.body, env)
            except PyRaise as pr:
                for h in st.handlers:
                    if h.type is None or self.exc_matches(ctx, pr.exc, self.eval(ctx, h.type, env)):
                        if h.name:
                            env.set(h.name, pr.exc)
                        env.set("__current_exc__", pr.exc)
                        self.exec_block(ctx, h.body, env)
                        break
                else:
                    raise
            else:
                self.exec_block(ctx, st.orelse, env)
        finally:
            if st.finalbody:
                self.exec_block(ctx, st.finalbody, env)

    def s_With(self, ctx, st, env):
        def run(items):
            if not items:
                self.exec_block(ctx, st.body, env)
                return
            item = items[0]
            mgr = self.eval(ctx, item.context_expr, env)
            enter = mgr.py_getattr(self, ctx, "__enter__")
            exit_ = mgr.py_getattr(self, ctx, "__exit__")
            v = self.call(ctx, enter, [], {})
            if item.optional_vars is not None:
                self.assign(ctx, item.optional_vars, v, env)
            try:
                run(items[1:])
            except PyRaise as pr:
                r = self.call(ctx, exit_, [VExtClass("builtins." + pr.exc.clsname), pr.exc, VOpaque("traceback")], {})
                if not self.truthy(ctx, r):
                    raise
                return
            except (_Return, _Break, _Continue):
                self.call(ctx, exit_, [NONE, NONE, NONE], {})
                raise
            self.call(ctx, exit_, [NONE, NONE, NONE], {})

        run(list(st.items))

    # ================================================================== expressions =======
    def eval(self, ctx, node, env):
        m = getattr(self, "e_" + type(node).__name__, None)
        if m is None:
            raise Undecided(f"expression {type(node).__name__} (line {getattr(node, 'lineno', '?')})")
        return m(ctx, node, env)

    def _yield_list(self, env):
        e = env
        while e is not None:
            if "__yields__" in e.vars:
                return e.vars["__yields__"]
            e = e.parent
        raise Undecided("yield outside generator")

    def e_Yield(self, ctx, node, env):
        self._yield_list(env).append(self.eval(ctx, node.value, env) if node.value is not None else NONE)
        return NONE

    def e_YieldFrom(self, ctx, node, env):
        self._yield_list(env).extend(self.iterate(ctx, self.eval(ctx, node.value, env)))
        return NONE

    def e_Constant(self, ctx, node, env):
        return from_py(node.value)

    def e_Name(self, ctx, node, env):
        if node.id == "NotImplemented":
            return NOTIMPL
        return self.lookup_name(ctx, node.id, env)

    def e_JoinedStr(self, ctx, node, env):
        """f-strings: concrete when every interpolated value is a concrete str / int / bool (attribute and buffer names such as
        f"grid_{i}"); otherwise an opaque text (messages of exceptions and warnings -- never used as a name)"""
        parts = []
        for v in node.values:
            if isinstance(v, ast.Constant):
                parts.append(str(v.value))
                continue
            if not isinstance(v, ast.FormattedValue) or v.format_spec is not None or v.conversion not in (-1, 115):
                return VStr("<fstring>")
            try:
                val = self.eval(ctx, v.value, env)
            except (PyRaise, Undecided):
                return VStr("<fstring>")
            if isinstance(val, VStr):
                parts.append(val.s)
            elif isinstance(val, VBool) and val.concrete() is not None:
                parts.append(str(bool(val.concrete())))
            elif isinstance(val, VNum) and val.is_int and val.concrete() is not None:
                parts.append(str(int(val.concrete())))
            else:
                return VStr("<fstring>")
        return VStr("".join(parts))

    def e_Tuple(self, ctx, node, env):
        return VTuple(self._elts(ctx, node.elts, env))

    def e_List(self, ctx, node, env):
        return VList(self._elts(ctx, node.elts, env))

    def e_Set(self, ctx, node, env):
        return VTuple(self._elts(ctx, node.elts, env))  # only membership is used

    def _elts(self, ctx, elts, env):
        out = []
        for e in elts:
            if isinstance(e, ast.Starred):
                out.extend(self.iterate(ctx, self.eval(ctx, e.value, env)))
            else:
                out.append(self.eval(ctx, e, env))
        return out

    def e_Dict(self, ctx, node, env):
        d = VDict()
        for k, v in zip(node.keys, node.values):
            if k is None:
                src = self.eval(ctx, v, env)
                if not isinstance(src, VDict):
                    raise Undecided("** of non-dict")
                d.d.update(src.d)
            else:
                d.d[VDict.key(self.eval(ctx, k, env))] = self.eval(ctx, v, env)
        return d

    @staticmethod
    def mangle(attr, env):
        if attr.startswith("__") and not attr.endswith("__") and env.defcls is not None:
            return "_" + env.defcls.name.lstrip("_") + attr
        return attr

    def e_Attribute(self, ctx, node, env):
        o = self.eval(ctx, node.value, env)
        return o.py_getattr(self, ctx, self.mangle(node.attr, env))

    def e_Subscript(self, ctx, node, env):
        o = self.eval(ctx, node.value, env)
        k = self.eval(ctx, node.slice, env)
        return o.py_getitem(self, ctx, k)

    def e_Slice(self, ctx, node, env):
        f = lambda n: self.eval(ctx, n, env) if n is not None else NONE
        return VSlice(f(node.lower), f(node.upper), f(node.step))

    def e_Starred(self, ctx, node, env):
        raise Undecided("starred expression outside call/tuple")

    def e_Lambda(self, ctx, node, env):
        fi = FuncInfo.__new__(FuncInfo)
        fi.node, fi.name, fi.module, fi.cls, fi.decorators, fi.decorator_nodes = node, "<lambda>", env.module, None, [], []
        return VFunc(fi, closure=env)

    def e_IfExp(self, ctx, node, env):
        c = self.eval(ctx, node.test, env)
        if self.truthy(ctx, c):
            return self.eval(ctx, node.body, env)
        return self.eval(ctx, node.orelse, env)

    def e_BoolOp(self, ctx, node, env):
        is_and = isinstance(node.op, ast.And)
        v = None
        for i, e in enumerate(node.values):
            v = self.eval(ctx, e, env)
            if i == len(node.values) - 1:
                return v
            t = self.truthy(ctx, v)
            if is_and and not t:
                return v
            if not is_and and t:
                return v
        return v

    def e_UnaryOp(self, ctx, node, env):
        v = self.eval(ctx, node.operand, env)
        if isinstance(node.op, ast.Not):
            t = v.py_truthy(self, ctx)
            if t is True or t is False:
                return VBool(not t)
            return VBool(z3.Not(t))
        op = {ast.USub: "-", ast.UAdd: "+", ast.Invert: "~"}[type(node.op)]
        return v.py_unop(self, ctx, op)

    def e_BinOp(self, ctx, node, env):
        a = self.eval(ctx, node.left, env)
        b = self.eval(ctx, node.right, env)
        return self.binop(ctx, _BINOPS[type(node.op)], a, b)

    def cmp1(self, ctx, op, a, b):
        """-> python bool or z3 Bool"""
        if isinstance(op, (ast.Eq, ast.NotEq)) and (getattr(a, "kind", "") == "tensor" or getattr(b, "kind", "") == "tensor"):
            t, o = (a, b) if getattr(a, "kind", "") == "tensor" else (b, a)
            if o is NONE or isinstance(o, (VStr, VAtom, VTuple, VList)):
                return isinstance(op, ast.NotEq)
            m = t.py_getattr(self, ctx, "eq" if isinstance(op, ast.Eq) else "ne")
            return m.py_call(self, ctx, [o], {})
        if isinstance(op, (ast.Eq,)):
            return self.eq(ctx, a, b)
        if isinstance(op, ast.NotEq):
            r = self.eq(ctx, a, b)
            return (not r) if isinstance(r, bool) else z3.Not(r)
        if isinstance(op, ast.Is):
            return self.is_(ctx, a, b)
        if isinstance(op, ast.IsNot):
            r = self.is_(ctx, a, b)
            return (not r) if isinstance(r, bool) else z3.Not(r)
        if isinstance(op, ast.In):
            return b.py_contains(self, ctx, a)
        if isinstance(op, ast.NotIn):
            r = b.py_contains(self, ctx, a)
            return (not r) if isinstance(r, bool) else z3.Not(r)
        r = self.compare(ctx, _CMPOPS[type(op)], a, b)
        if isinstance(r, V):
            return r  # elementwise comparison result (tensor)
        return r

    def is_(self, ctx, a, b):
        if isinstance(a, VAny) or isinstance(b, VAny):
            return self.eq(ctx, a, b)
        if a is NONE or b is NONE:
            return a is b
        if isinstance(a, VBool) and isinstance(b, VBool):
            return a.t == b.t
        if isinstance(a, (VNum, VStr, VAtom)) and isinstance(b, (VNum, VStr, VAtom)):
            return self.eq(ctx, a, b)
        if isinstance(a, VClass) and isinstance(b, VClass):
            return a.info is b.info
        return a is b

    def e_Compare(self, ctx, node, env):
        left = self.eval(ctx, node.left, env)
        acc = []
        for op, rn in zip(node.ops, node.comparators):
            right = self.eval(ctx, rn, env)
            r = self.cmp1(ctx, op, left, right)
            if isinstance(r, V):
                if len(node.ops) != 1:
                    raise Undecided("chained comparison of tensors")
                return r
            if r is False:
                return FALSE
            if r is not True:
                acc.append(r)
            left = right
        if not acc:
            return TRUE
        return VBool(z3.And(*acc) if len(acc) > 1 else acc[0])

    def e_Call(self, ctx, node, env):
        # super() without args
        if isinstance(node.func, ast.Name) and node.func.id == "super" and env.lookup("super") is None:
            if node.args:
                c = self.eval(ctx, node.args[0], env)
                s = self.eval(ctx, node.args[1], env)
                return VSuper(c.info if isinstance(c, VClass) else c.name, s)
            fn_env = env
            while fn_env is not None and fn_env.func is None:
                fn_env = fn_env.parent
            if fn_env is None or fn_env.func.cls is None:
                raise Undecided("super() outside method")
            first = (fn_env.func.node.args.posonlyargs + fn_env.func.node.args.args)[0].arg
            return VSuper(fn_env.func.cls, fn_env.vars[first])
        f = self.eval(ctx, node.func, env)
        args = []
        for a in node.args:
            if isinstance(a, ast.Starred):
                args.extend(self.iterate(ctx, self.eval(ctx, a.value, env)))
            else:
                args.append(self.eval(ctx, a, env))
        kwargs = {}
        for k in node.keywords:
            if k.arg is None:
                d = self.eval(ctx, k.value, env)
                if not isinstance(d, VDict):
                    raise Undecided("** of non-dict in call")
                for kk, vv in d.d.items():
                    if not isinstance(kk, str):
                        raise PyRaise(VExc("TypeError", "keywords must be strings"))
                    kwargs[kk] = vv
            else:
                kwargs[k.arg] = self.eval(ctx, k.value, env)
        return f.py_call(self, ctx, args, kwargs)

    def _comprehension(self, ctx, gens, env, emit):
        def rec(i, e):
            if i == len(gens):
                emit(e)
                return
            g = gens[i]
            for x in self.iterate(ctx, self.eval(ctx, g.iter, e)):
                e2 = Env(parent=e)
                self.assign(ctx, g.target, x, e2)
                if all(self.truthy(ctx, self.eval(ctx, c, e2)) for c in g.ifs):
                    rec(i + 1, e2)

        rec(0, env)

    def e_ListComp(self, ctx, node, env):
        out = []
        self._comprehension(ctx, node.generators, env, lambda e: out.append(self.eval(ctx, node.elt, e)))
        return VList(out)

    def e_GeneratorExp(self, ctx, node, env):
        return self.e_ListComp(ctx, node, env)

    def e_SetComp(self, ctx, node, env):
        from .values import VSet
        return VSet(self.e_ListComp(ctx, node, env).items)

    def e_DictComp(self, ctx, node, env):
        d = VDict()
        self._comprehension(
            ctx, node.generators, env,
            lambda e: d.d.__setitem__(VDict.key(self.eval(ctx, node.key, e)), self.eval(ctx, node.value, e)),
        )
        return d


# ======================================================================= exploration =====
class PathResult:
    __slots__ = ("pc", "outcome", "value", "obligations", "decisions", "ctx", "error")

    def __init__(self, ctx, outcome, value=None, error=None):
        self.ctx = ctx
        self.pc = list(ctx.pc)
        self.outcome = outcome  # "ok" | "raise" | "undecided" | "infeasible"
        self.value = value
        self.obligations = list(ctx.obligations)
        self.decisions = list(ctx.decisions)
        self.error = error


def explore(run, max_paths=4096, time_budget=None):
    """run(ctx) is executed once per path.  Returns list[PathResult]."""
    work = [[]]
    results = []
    t0 = time.time()
    while work:
        if len(results) >= max_paths:
            raise PathLimit(f"more than {max_paths} paths")
        if time_budget is not None and time.time() - t0 > time_budget:
            raise PathLimit(f"path exploration exceeded {time_budget}s")
        prefix = work.pop()
        ctx = Ctx(prefix)
        from . import values as _values
        _values._CUR[0] = ctx
        try:
            v = run(ctx)
            res = PathResult(ctx, "ok", v)
        except PyRaise as pr:
            res = PathResult(ctx, "raise", pr.exc)
        except Undecided as u:
            res = PathResult(ctx, "undecided", error=str(u))
        except InfeasiblePath:
            res = PathResult(ctx, "infeasible")
        except RecursionError:
            res = PathResult(ctx, "undecided", error="recursion limit in executor")
        work.extend(ctx.alternatives)
        results.append(res)
    return results
