"""values.py -- what a Python value is during verification (int / real / bool / None / str /
tuple / list / dict / slice / objects of extracted classes / functions / opaque terms).

Values wrap z3 terms. Mutable things (objects, lists, dicts, the class-attribute map) are
plain mutable Python objects: every path is re-executed from scratch (see symexec.explore),
so no heap copying is needed and aliasing is real Python aliasing.
"""
from __future__ import annotations

import ast
import itertools

import z3


class Undecided(Exception):
    """Construct / operation outside the supported subset: the path is undecided (never a violation)."""


class PyRaise(Exception):
    """The analysed program raised."""

    def __init__(self, exc):
        super().__init__(str(exc))
        self.exc = exc  # VExc


_counter = itertools.count()


def fresh(prefix):
    return f"{prefix}!{next(_counter)}"


# ---------------------------------------------------------------- "any" datatype ---------
Val = z3.Datatype("Val")
Val.declare("none")
Val.declare("B", ("b", z3.BoolSort()))
Val.declare("R", ("r", z3.RealSort()))
Val.declare("S", ("s", z3.IntSort()))  # strings / dtype tags / other atoms, by interned id
Val = Val.create()

_ATOMS = {}


def atom_id(name):
    return _ATOMS.setdefault(name, len(_ATOMS))


def atom_name(i):
    for k, v in _ATOMS.items():
        if v == i:
            return k
    return f"atom#{i}"


class V:
    kind = "?"

    def py_getattr(self, it, ctx, name):
        raise Undecided(f"getattr {self.kind}.{name}")

    def py_setattr(self, it, ctx, name, v):
        raise Undecided(f"setattr {self.kind}.{name}")

    def py_call(self, it, ctx, args, kwargs):
        raise Undecided(f"call of {self.kind}")

    def py_getitem(self, it, ctx, idx):
        raise Undecided(f"getitem on {self.kind}")

    def py_setitem(self, it, ctx, idx, v):
        raise Undecided(f"setitem on {self.kind}")

    def py_binop(self, it, ctx, op, other, reflected):
        return NotImplemented

    def py_unop(self, it, ctx, op):
        raise Undecided(f"unary {op} on {self.kind}")

    def py_truthy(self, it, ctx):
        """python bool or z3 Bool"""
        return True

    def py_eq(self, it, ctx, other):
        """python bool or z3 Bool; default identity"""
        return self is other

    def py_len(self, it, ctx):
        raise Undecided(f"len of {self.kind}")

    def py_iter(self, it, ctx):
        raise Undecided(f"iteration over {self.kind}")

    def py_compare(self, it, ctx, op, other, reflected):
        return NotImplemented

    def py_contains(self, it, ctx, item):
        raise Undecided(f"`in` on {self.kind}")

    def lift(self):
        """Val-datatype term, for VAny interop"""
        raise Undecided(f"lift {self.kind}")

    def describe(self):
        return self.kind


class VNoneT(V):
    kind = "None"

    def py_truthy(self, it, ctx):
        return False

    def py_eq(self, it, ctx, other):
        if isinstance(other, VNoneT):
            return True
        if isinstance(other, VAny):
            return Val.is_none(other.t)
        return False

    def lift(self):
        return Val.none

    def __repr__(self):
        return "None"


NONE = VNoneT()


class VEllipsisT(V):
    kind = "Ellipsis"

    def py_eq(self, it, ctx, other):
        return isinstance(other, VEllipsisT)


ELLIPSIS = VEllipsisT()


class VNotImplementedT(V):
    kind = "NotImplemented"


NOTIMPL = VNotImplementedT()


def _num_terms(a, b):
    """coerce two numeric V to common sort terms"""
    ta, tb = a.t, b.t
    if z3.is_int(ta) and z3.is_real(tb):
        ta = z3.ToReal(ta)
    elif z3.is_real(ta) and z3.is_int(tb):
        tb = z3.ToReal(tb)
    return ta, tb


_CUR = [None]  # the path context currently executing (set by symexec.explore)


def div_lemmas(a, b):
    """valid instances about the native term `a div b` for a *symbolic* positive divisor: they make
    the ranges that occur with index normalisation (v % n for -n <= v < 2n) linear for the solver"""
    ctx = _CUR[0]
    bs = z3.simplify(b)
    if ctx is None or z3.is_int_value(bs):
        return
    key = ("divlem", a.get_id(), b.get_id())
    if key in ctx.ghost:
        return
    ctx.ghost[key] = (a, b)
    q = a / b
    ctx.add_pc(z3.Implies(z3.And(b > 0, a >= 0, a < b), q == 0))
    ctx.add_pc(z3.Implies(z3.And(b > 0, a < 0, a >= -b), q == -1))
    ctx.add_pc(z3.Implies(z3.And(b > 0, a >= b, a < 2 * b), q == 1))


def py_floordiv(a, b, lemmas=False):
    """Python floor division on z3 Int terms (z3 `div` is floor only for positive divisors)."""
    bs = z3.simplify(b)
    if z3.is_int_value(bs):
        if bs.as_long() > 0:
            return a / bs
        if bs.as_long() < 0:
            return (-a) / (-bs)
    if lemmas:
        div_lemmas(a, b)
    return z3.If(b > 0, a / b, (-a) / (-b))


def py_mod(a, b, lemmas=False):
    generic = a - b * py_floordiv(a, b, lemmas)
    bs = z3.simplify(b)
    if lemmas and not z3.is_int_value(bs):
        # same value, written so that the ranges met with index normalisation are linear
        return z3.If(z3.And(b > 0, a >= 0, a < b), a, z3.If(z3.And(b > 0, a < 0, a >= -b), a + b, generic))
    return generic


class VNum(V):
    """int or real; `t` is a z3 Int/Real term"""

    def __init__(self, t):
        if isinstance(t, bool):
            raise TypeError("bool given to VNum")
        if isinstance(t, int):
            t = z3.IntVal(t)
        elif isinstance(t, float):
            t = z3.RealVal(repr(t))
        self.t = t

    @property
    def kind(self):
        return "int" if z3.is_int(self.t) else "real"

    @property
    def is_int(self):
        return z3.is_int(self.t)

    def concrete(self):
        """python int / Fraction if the term is a literal, else None"""
        t = z3.simplify(self.t)
        if z3.is_int_value(t):
            return t.as_long()
        if z3.is_rational_value(t):
            return t.as_fraction()
        return None

    def real(self):
        return z3.ToReal(self.t) if z3.is_int(self.t) else self.t

    def py_truthy(self, it, ctx):
        c = self.concrete()
        if c is not None:
            return c != 0
        return self.t != 0

    def py_eq(self, it, ctx, other):
        if isinstance(other, VNum):
            a, b = _num_terms(self, other)
            return a == b
        if isinstance(other, VBool):
            return self.real() == z3.If(other.t, z3.RealVal(1), z3.RealVal(0))
        if isinstance(other, VAny):
            return other.py_eq(it, ctx, self)
        return False

    def py_compare(self, it, ctx, op, other, reflected):
        if isinstance(other, VBool):
            other = VNum(z3.If(other.t, z3.IntVal(1), z3.IntVal(0)))
        if not isinstance(other, VNum):
            return NotImplemented
        a, b = _num_terms(self, other)
        if reflected:
            a, b = b, a
        return {"<": a < b, "<=": a <= b, ">": a > b, ">=": a >= b}[op]

    def py_binop(self, it, ctx, op, other, reflected):
        if isinstance(other, VBool):
            other = VNum(z3.If(other.t, z3.IntVal(1), z3.IntVal(0)))
        if not isinstance(other, VNum):
            return NotImplemented
        x, y = (other, self) if reflected else (self, other)
        both_int = x.is_int and y.is_int
        a, b = _num_terms(x, y)
        if op == "+":
            return VNum(a + b)
        if op == "-":
            return VNum(a - b)
        if op == "*":
            return VNum(a * b)
        if op == "/":
            ctx.require_nonzero(b, "division by zero")
            return VNum(z3.ToReal(a) / z3.ToReal(b) if both_int else a / b)
        if op == "//":
            if not both_int:
                raise Undecided("floor division of reals")
            ctx.require_nonzero(b, "integer division by zero")
            return VNum(py_floordiv(a, b, True))
        if op == "%":
            if not both_int:
                raise Undecided("modulo of reals")
            ctx.require_nonzero(b, "integer modulo by zero")
            return VNum(py_mod(a, b, True))
        if op == "**":
            c = y.concrete()
            if c is not None and isinstance(c, int) and 0 <= c <= 8:
                r = z3.IntVal(1) if both_int else z3.RealVal(1)
                for _ in range(c):
                    r = r * a
                return VNum(r)
            if c is not None and c == -1:
                ctx.require_nonzero(a, "zero to negative power")
                return VNum(1 / x.real())
            return it.real_pow(ctx, x, y)
        return NotImplemented

    def py_unop(self, it, ctx, op):
        if op == "-":
            return VNum(-self.t)
        if op == "+":
            return self
        raise Undecided(f"unary {op} on number")

    def lift(self):
        return Val.R(self.real())

    def describe(self):
        return str(z3.simplify(self.t))

    def __repr__(self):
        return f"VNum({self.t})"


class VBool(V):
    kind = "bool"

    def __init__(self, t):
        if isinstance(t, bool):
            t = z3.BoolVal(t)
        self.t = t

    def concrete(self):
        t = z3.simplify(self.t)
        if z3.is_true(t):
            return True
        if z3.is_false(t):
            return False
        return None

    def py_truthy(self, it, ctx):
        c = self.concrete()
        return c if c is not None else self.t

    def py_eq(self, it, ctx, other):
        if isinstance(other, VBool):
            return self.t == other.t
        if isinstance(other, VNum):
            return other.py_eq(it, ctx, self)
        if isinstance(other, VAny):
            return other.py_eq(it, ctx, self)
        return False

    def py_binop(self, it, ctx, op, other, reflected):
        if isinstance(other, VBool):
            if op == "&":
                return VBool(z3.And(self.t, other.t))
            if op == "|":
                return VBool(z3.Or(self.t, other.t))
            if op == "^":
                return VBool(z3.Xor(self.t, other.t))
        asnum = VNum(z3.If(self.t, z3.IntVal(1), z3.IntVal(0)))
        return asnum.py_binop(it, ctx, op, other, reflected)

    def py_compare(self, it, ctx, op, other, reflected):
        return VNum(z3.If(self.t, z3.IntVal(1), z3.IntVal(0))).py_compare(it, ctx, op, other, reflected)

    def py_unop(self, it, ctx, op):
        if op == "~":
            raise Undecided("~ on bool")
        return VNum(z3.If(self.t, z3.IntVal(1), z3.IntVal(0))).py_unop(it, ctx, op)

    def lift(self):
        return Val.B(self.t)

    def describe(self):
        return str(z3.simplify(self.t))

    def __repr__(self):
        return f"VBool({self.t})"


TRUE = VBool(True)
FALSE = VBool(False)


class VStr(V):
    kind = "str"

    def __init__(self, s):
        self.s = s

    def py_truthy(self, it, ctx):
        return len(self.s) > 0

    def py_eq(self, it, ctx, other):
        if isinstance(other, VStr):
            return self.s == other.s
        if isinstance(other, VAny):
            return other.py_eq(it, ctx, self)
        return False

    def py_binop(self, it, ctx, op, other, reflected):
        if op == "+" and isinstance(other, VStr):
            return VStr(other.s + self.s if reflected else self.s + other.s)
        if op == "%":
            return VStr(self.s)
        return NotImplemented

    def py_contains(self, it, ctx, item):
        if isinstance(item, VStr):
            return item.s in self.s
        raise Undecided("`in` str with symbolic item")

    def py_getitem(self, it, ctx, idx):
        if isinstance(idx, VNum) and idx.concrete() is not None:
            return VStr(self.s[idx.concrete()])
        if isinstance(idx, VSlice):
            f = lambda x: None if x is NONE else x.concrete()
            return VStr(self.s[slice(f(idx.start), f(idx.stop), f(idx.step))])
        raise Undecided("str index")

    def py_iter(self, it, ctx):
        return [VStr(ch) for ch in self.s]

    def py_getattr(self, it, ctx, name):
        if name == "join":
            def join(it, ctx, args, kwargs):
                parts = it.iterate(ctx, args[0])
                if not all(isinstance(p, VStr) for p in parts):
                    return VStr("<joined>")
                return VStr(self.s.join(p.s for p in parts))
            return VBuiltin("str.join", join)
        if name in ("split", "rsplit"):
            def split(it, ctx, args, kwargs):
                sep = args[0].s if args else None
                mx = args[1].concrete() if len(args) > 1 else -1
                return VList([VStr(x) for x in getattr(self.s, name)(sep, mx)])
            return VBuiltin("str." + name, split)
        if name == "replace":
            return VBuiltin("str.replace", lambda it, ctx, args, kwargs: VStr(self.s.replace(args[0].s, args[1].s)))
        if name in ("format", "lower", "upper", "strip"):
            return VBuiltin(f"str.{name}", lambda it, ctx, args, kwargs: VStr(self.s))
        if name == "startswith":
            return VBuiltin("str.startswith", lambda it, ctx, args, kwargs: VBool(self.s.startswith(args[0].s)))
        if name == "endswith":
            return VBuiltin("str.endswith", lambda it, ctx, args, kwargs: VBool(self.s.endswith(args[0].s)))
        raise Undecided(f"str.{name}")

    def py_len(self, it, ctx):
        return VNum(len(self.s))

    def lift(self):
        return Val.S(atom_id("str:" + self.s))

    def describe(self):
        return repr(self.s)

    def __repr__(self):
        return f"VStr({self.s!r})"


class VAtom(V):
    """an opaque named constant (torch.float, torch.double, a device, ...) -- only identity matters"""

    kind = "atom"

    def __init__(self, name):
        self.name = name

    def py_eq(self, it, ctx, other):
        if isinstance(other, VAtom):
            return self.name == other.name
        if isinstance(other, VAny):
            return other.py_eq(it, ctx, self)
        return False

    def lift(self):
        return Val.S(atom_id("atom:" + self.name))

    def py_getattr(self, it, ctx, name):
        raise Undecided(f"attribute {name} of atom {self.name}")

    def describe(self):
        return self.name

    def __repr__(self):
        return f"VAtom({self.name})"


class VAny(V):
    """a value of unknown dynamic kind: None | bool | number | atom(str, dtype, ...)"""

    kind = "any"

    def __init__(self, t):
        self.t = t

    def py_truthy(self, it, ctx):
        t = self.t
        return z3.If(
            Val.is_none(t), False, z3.If(Val.is_B(t), Val.b(t), z3.If(Val.is_R(t), Val.r(t) != 0, True))
        )

    def py_eq(self, it, ctx, other):
        try:
            return self.t == other.lift()
        except Undecided:
            return False

    def force(self, it, ctx):
        """case-split into a concrete-kind value on this path"""
        t = self.t
        if ctx.branch(Val.is_none(t)):
            return NONE
        if ctx.branch(Val.is_R(t)):
            return VNum(Val.r(t))
        if ctx.branch(Val.is_B(t)):
            return VBool(Val.b(t))
        return VAnyAtom(Val.s(t))

    def py_binop(self, it, ctx, op, other, reflected):
        f = self.force(it, ctx)
        return it.binop(ctx, op, other, f) if reflected else it.binop(ctx, op, f, other)

    def py_compare(self, it, ctx, op, other, reflected):
        f = self.force(it, ctx)
        return f.py_compare(it, ctx, op, other, reflected)

    def py_unop(self, it, ctx, op):
        return self.force(it, ctx).py_unop(it, ctx, op)

    def lift(self):
        return self.t

    def describe(self):
        return str(z3.simplify(self.t))

    def __repr__(self):
        return f"VAny({self.t})"


class VAnyAtom(V):
    """symbolic atom (interned id is a z3 Int)"""

    kind = "symatom"

    def __init__(self, s):
        self.s = s

    def py_eq(self, it, ctx, other):
        try:
            return Val.S(self.s) == other.lift()
        except Undecided:
            return False

    def lift(self):
        return Val.S(self.s)


class VTuple(V):
    kind = "tuple"

    def __init__(self, items, is_size=False):
        self.items = tuple(items)
        self.is_size = is_size  # torch.Size flavour

    def py_truthy(self, it, ctx):
        return len(self.items) > 0

    def py_len(self, it, ctx):
        return VNum(len(self.items))

    def py_iter(self, it, ctx):
        return list(self.items)

    def py_eq(self, it, ctx, other):
        if isinstance(other, (VTuple,)) or (isinstance(other, VList) and False):
            if len(other.items) != len(self.items):
                return False
            cs = [it.eq(ctx, a, b) for a, b in zip(self.items, other.items)]
            if any(c is False for c in cs):
                return False
            cs = [c for c in cs if c is not True]
            return z3.And(*cs) if cs else True
        return False

    def py_getitem(self, it, ctx, idx):
        return _seq_getitem(self, it, ctx, idx, lambda xs: VTuple(xs, self.is_size))

    def py_binop(self, it, ctx, op, other, reflected):
        if op == "+" and isinstance(other, VTuple):
            a, b = (other, self) if reflected else (self, other)
            return VTuple(a.items + b.items, a.is_size or b.is_size)
        if op == "*" and isinstance(other, VNum):
            n = other.concrete()
            if n is None:
                raise Undecided("tuple repeated a symbolic number of times")
            return VTuple(self.items * max(n, 0), self.is_size)
        return NotImplemented

    def py_contains(self, it, ctx, item):
        cs = [it.eq(ctx, item, x) for x in self.items]
        if any(c is True for c in cs):
            return True
        cs = [c for c in cs if c is not False]
        return z3.Or(*cs) if cs else False

    def py_getattr(self, it, ctx, name):
        if name == "index":

            def index(it, ctx, args, kwargs):
                for i, x in enumerate(self.items):
                    if ctx.truth(it.eq(ctx, args[0], x)):
                        return VNum(i)
                raise PyRaise(VExc("ValueError", "not in tuple"))

            return VBuiltin("tuple.index", index)
        if name == "numel" and self.is_size:

            def numel(it, ctx, args, kwargs):
                r = VNum(1)
                for x in self.items:
                    r = it.binop(ctx, "*", r, x)
                return r

            return VBuiltin("Size.numel", numel)
        if name == "count":
            raise Undecided("tuple.count")
        raise Undecided(f"tuple.{name}")

    def describe(self):
        return "(" + ", ".join(x.describe() for x in self.items) + ")"

    def __repr__(self):
        return f"VTuple({list(self.items)})"


def _seq_getitem(seq, it, ctx, idx, mk):
    items = list(seq.items)
    if isinstance(idx, VNum):
        c = idx.concrete()
        if c is None:
            # symbolic index into a concrete-length sequence: case split
            n = len(items)
            for k in range(-n, n):
                if ctx.branch(idx.t == k):
                    return items[k]
            raise PyRaise(VExc("IndexError", "sequence index out of range"))
        if not (-len(items) <= c < len(items)):
            raise PyRaise(VExc("IndexError", "sequence index out of range"))
        return items[c]
    if isinstance(idx, VSlice):
        def cv(x):
            if x is NONE:
                return None
            if isinstance(x, VNum):
                c = x.concrete()
                if c is None:
                    raise Undecided("symbolic slice bound on python sequence")
                return c
            raise Undecided("slice bound kind")

        return mk(items[slice(cv(idx.start), cv(idx.stop), cv(idx.step))])
    raise Undecided(f"sequence index of kind {idx.kind}")


class VList(V):
    kind = "list"

    def __init__(self, items):
        self.items = list(items)

    def py_truthy(self, it, ctx):
        return len(self.items) > 0

    def py_len(self, it, ctx):
        return VNum(len(self.items))

    def py_iter(self, it, ctx):
        return list(self.items)

    def py_getitem(self, it, ctx, idx):
        return _seq_getitem(self, it, ctx, idx, VList)

    def py_setitem(self, it, ctx, idx, v):
        c = idx.concrete() if isinstance(idx, VNum) else None
        if c is None:
            raise Undecided("list store at symbolic index")
        self.items[c] = v

    def py_eq(self, it, ctx, other):
        if isinstance(other, VList):
            return VTuple(self.items).py_eq(it, ctx, VTuple(other.items))
        return False

    def py_binop(self, it, ctx, op, other, reflected):
        if op == "+" and isinstance(other, VList):
            a, b = (other, self) if reflected else (self, other)
            return VList(a.items + b.items)
        if op == "*" and isinstance(other, VNum) and other.concrete() is not None:
            return VList(self.items * max(other.concrete(), 0))
        return NotImplemented

    def py_contains(self, it, ctx, item):
        return VTuple(self.items).py_contains(it, ctx, item)

    def py_getattr(self, it, ctx, name):
        if name == "append":
            return VBuiltin("list.append", lambda it, ctx, a, k: (self.items.append(a[0]), NONE)[1])
        if name == "extend":
            return VBuiltin("list.extend", lambda it, ctx, a, k: (self.items.extend(it.iterate(ctx, a[0])), NONE)[1])
        if name == "insert":
            def ins(it, ctx, a, k):
                self.items.insert(a[0].concrete(), a[1])
                return NONE
            return VBuiltin("list.insert", ins)
        if name == "pop":
            def pop(it, ctx, a, k):
                return self.items.pop(a[0].concrete() if a else -1)
            return VBuiltin("list.pop", pop)
        if name == "index":
            return VTuple(self.items).py_getattr(it, ctx, "index")
        raise Undecided(f"list.{name}")

    def describe(self):
        return "[" + ", ".join(x.describe() for x in self.items) + "]"


class VSet(V):
    """a mutable set; membership by (path-decided) equality"""

    kind = "set"

    def __init__(self, items=()):
        self.items = []
        self._pending = list(items)

    def _norm(self, it, ctx):
        for x in self._pending:
            self._add(it, ctx, x)
        self._pending = []

    def _add(self, it, ctx, x):
        if not any(ctx.truth(it.eq(ctx, x, y)) for y in self.items):
            self.items.append(x)

    def py_truthy(self, it, ctx):
        self._norm(it, ctx)
        return len(self.items) > 0

    def py_len(self, it, ctx):
        self._norm(it, ctx)
        return VNum(len(self.items))

    def py_iter(self, it, ctx):
        self._norm(it, ctx)
        return list(self.items)

    def py_contains(self, it, ctx, item):
        self._norm(it, ctx)
        cs = [it.eq(ctx, item, x) for x in self.items]
        if any(c is True for c in cs):
            return True
        cs = [c for c in cs if c is not False]
        return z3.Or(*cs) if cs else False

    def py_getattr(self, it, ctx, name):
        if name == "add":
            def add(it, ctx, a, k):
                self._norm(it, ctx)
                self._add(it, ctx, a[0])
                return NONE
            return VBuiltin("set.add", add)
        if name == "update":
            def upd(it, ctx, a, k):
                self._norm(it, ctx)
                for x in it.iterate(ctx, a[0]):
                    self._add(it, ctx, x)
                return NONE
            return VBuiltin("set.update", upd)
        raise Undecided(f"set.{name}")

    def describe(self):
        return "{" + ", ".join(x.describe() for x in self.items + self._pending) + "}"


class VDict(V):
    kind = "dict"

    def __init__(self, d=None):
        self.d = dict(d or {})  # python-hashable key (str/int/tuple) -> V

    @staticmethod
    def key(k):
        if isinstance(k, VStr):
            return k.s
        if isinstance(k, VNum) and k.concrete() is not None:
            return k.concrete()
        if isinstance(k, VTuple):
            return tuple(VDict.key(x) for x in k.items)
        if isinstance(k, VNoneT):
            return None
        if isinstance(k, VAtom):
            return ("atom", k.name)
        if isinstance(k, (VObj, VClass, VFunc)):
            return ("id", id(k))
        raise Undecided(f"dict key of kind {k.kind}")

    @staticmethod
    def unkey(k):
        if isinstance(k, str):
            return VStr(k)
        if isinstance(k, int):
            return VNum(k)
        if k is None:
            return NONE
        raise Undecided("dict key reconstruction")

    def py_truthy(self, it, ctx):
        return len(self.d) > 0

    def py_len(self, it, ctx):
        return VNum(len(self.d))

    def py_iter(self, it, ctx):
        return [VDict.unkey(k) for k in self.d]

    def py_getitem(self, it, ctx, idx):
        k = VDict.key(idx)
        if k not in self.d:
            raise PyRaise(VExc("KeyError", repr(k)))
        return self.d[k]

    def py_setitem(self, it, ctx, idx, v):
        self.d[VDict.key(idx)] = v

    def py_contains(self, it, ctx, item):
        return VDict.key(item) in self.d

    def py_getattr(self, it, ctx, name):
        if name == "get":
            return VBuiltin("dict.get", lambda it, ctx, a, k: self.d.get(VDict.key(a[0]), a[1] if len(a) > 1 else NONE))
        if name == "items":
            return VBuiltin("dict.items", lambda it, ctx, a, k: VList([VTuple([VDict.unkey(kk), v]) for kk, v in self.d.items()]))
        if name == "keys":
            return VBuiltin("dict.keys", lambda it, ctx, a, k: VList([VDict.unkey(kk) for kk in self.d]))
        if name == "values":
            return VBuiltin("dict.values", lambda it, ctx, a, k: VList(list(self.d.values())))
        if name == "pop":
            def pop(it, ctx, a, k):
                kk = VDict.key(a[0])
                if kk in self.d:
                    return self.d.pop(kk)
                if len(a) > 1:
                    return a[1]
                raise PyRaise(VExc("KeyError", repr(kk)))
            return VBuiltin("dict.pop", pop)
        if name == "update":
            def upd(it, ctx, a, k):
                if a:
                    self.d.update(a[0].d)
                self.d.update(k)
                return NONE
            return VBuiltin("dict.update", upd)
        if name == "copy":
            return VBuiltin("dict.copy", lambda it, ctx, a, k: VDict(self.d))
        if name == "setdefault":
            def sd(it, ctx, a, k):
                return self.d.setdefault(VDict.key(a[0]), a[1] if len(a) > 1 else NONE)
            return VBuiltin("dict.setdefault", sd)
        raise Undecided(f"dict.{name}")

    def describe(self):
        return "{" + ", ".join(f"{k!r}: {v.describe()}" for k, v in self.d.items()) + "}"


class VSlice(V):
    kind = "slice"

    def __init__(self, start, stop, step):
        self.start, self.stop, self.step = start, stop, step

    def py_getattr(self, it, ctx, name):
        if name in ("start", "stop", "step"):
            return getattr(self, name)
        if name == "indices":
            return VBuiltin("slice.indices", self._indices)
        raise Undecided(f"slice.{name}")

    def _indices(self, it, ctx, a, k):
        """slice.indices(n) for step > 0 (CPython semantics; step <= 0 is outside the supported subset)"""
        n = a[0].t
        step = opt_int_term(it, ctx, self.step, lambda: z3.IntVal(1))
        if ctx.branch(step == 0):
            raise PyRaise(VExc("ValueError", "slice step cannot be zero"))
        if not ctx.branch(step > 0):
            raise Undecided("slice.indices with negative step")

        def clampn(v):
            v = z3.If(v < 0, v + n, v)
            return z3.If(v < 0, 0, z3.If(v > n, n, v))

        st = opt_int_term(it, ctx, self.start, lambda: z3.IntVal(0), clampn)
        en = opt_int_term(it, ctx, self.stop, lambda: n, clampn)
        out = [VNum(ctx.define("si_start", st)), VNum(ctx.define("si_stop", en)), VNum(ctx.define("si_step", step))]
        return VTuple(out)

    def py_eq(self, it, ctx, other):
        if not isinstance(other, VSlice):
            return False
        return VTuple([self.start, self.stop, self.step]).py_eq(it, ctx, VTuple([other.start, other.stop, other.step]))

    def describe(self):
        return f"slice({self.start.describe()}, {self.stop.describe()}, {self.step.describe()})"

    def __repr__(self):
        return self.describe()


def opt_int_term(it, ctx, x, default, f=lambda v: v):
    """z3 Int term for an int-or-None value without forking: If(is_none, default, f(value))"""
    if x is NONE:
        return default()
    if isinstance(x, VNum) and x.is_int:
        return f(x.t)
    if isinstance(x, VAny) and hasattr(x, "i"):
        return z3.If(Val.is_none(x.t), default(), f(x.i))
    if isinstance(x, VAny):
        x = x.force(it, ctx)
        return opt_int_term(it, ctx, x, default, f)
    nat = getattr(x, "natoms", None)
    if nat is not None and nat() == 0 and x.sort == "int":
        return f(x.elem([]))
    raise PyRaise(VExc("TypeError", "slice indices must be integers or None"))


class VExc(V):
    kind = "exception"

    def __init__(self, clsname, msg="", cls=None):
        self.clsname = clsname
        self.msg = msg
        self.cls = cls

    def describe(self):
        return f"{self.clsname}({self.msg})"

    def __str__(self):
        return self.describe()


class VBuiltin(V):
    kind = "builtin"

    def __init__(self, name, fn):
        self.name = name
        self.fn = fn

    def py_call(self, it, ctx, args, kwargs):
        return self.fn(it, ctx, args, kwargs)

    def describe(self):
        return f"<builtin {self.name}>"

    def __repr__(self):
        return self.describe()


class VModule(V):
    kind = "module"

    def __init__(self, name):
        self.name = name

    def py_getattr(self, it, ctx, name):
        return it.module_getattr(ctx, self.name, name)

    def describe(self):
        return f"<module {self.name}>"


class VClass(V):
    kind = "class"

    def __init__(self, info):
        self.info = info  # ClassInfo

    def py_getattr(self, it, ctx, name):
        return it.class_getattr(ctx, self, name)

    def py_setattr(self, it, ctx, name, v):
        ctx.classattrs[(self.info.qualname, name)] = v
        ctx.note_write(("class", self.info.qualname, name))

    def py_call(self, it, ctx, args, kwargs):
        return it.instantiate(ctx, self, args, kwargs)

    def py_eq(self, it, ctx, other):
        return isinstance(other, VClass) and other.info is self.info

    def describe(self):
        return f"<class {self.info.qualname}>"

    def __repr__(self):
        return self.describe()


class VExtClass(V):
    """a class whose source is not extracted (int, slice, tuple, torch.Tensor, LinearOperator, ...)"""

    kind = "extclass"

    def __init__(self, name):
        self.name = name

    def py_eq(self, it, ctx, other):
        return isinstance(other, VExtClass) and other.name == self.name

    def py_call(self, it, ctx, args, kwargs):
        return it.call_external(ctx, self.name, args, kwargs)

    def py_getattr(self, it, ctx, name):
        return it.module_getattr(ctx, self.name, name)

    def describe(self):
        return f"<extclass {self.name}>"

    def __repr__(self):
        return self.describe()


class VObj(V):
    kind = "object"

    def __init__(self, cls, fields=None, label=None):
        self.cls = cls  # ClassInfo
        self.fields = dict(fields or {})
        self.label = label or fresh(cls.name)
        self.ghost = {}  # contract-level abstract view

    def py_getattr(self, it, ctx, name):
        return it.obj_getattr(ctx, self, name)

    def py_setattr(self, it, ctx, name, v):
        return it.obj_setattr(ctx, self, name, v)

    def py_call(self, it, ctx, args, kwargs):
        m = self.cls.find_method("__call__")
        if m is None:
            raise Undecided(f"object of {self.cls.name} not callable")
        return it.call_function(ctx, m, [self] + list(args), kwargs)

    def py_getitem(self, it, ctx, idx):
        m = self.cls.find_method("__getitem__")
        if m is None:
            raise Undecided(f"{self.cls.name}.__getitem__")
        return it.call_function(ctx, m, [self, idx], {})

    def _dunder(self, it, ctx, names, args):
        for n in names:
            m = self.cls.find_method(n)
            if m is not None:
                return it.call_function(ctx, m, [self] + args, {})
        return NotImplemented

    def py_binop(self, it, ctx, op, other, reflected):
        nm = {"+": "add", "-": "sub", "*": "mul", "/": "truediv", "@": "matmul", "//": "floordiv", "%": "mod", "**": "pow"}.get(op)
        if nm is None:
            return NotImplemented
        r = self._dunder(it, ctx, [f"__r{nm}__" if reflected else f"__{nm}__"], [other])
        if r is NOTIMPL:
            return NotImplemented
        return r

    def py_len(self, it, ctx):
        r = self._dunder(it, ctx, ["__len__"], [])
        if r is NotImplemented:
            raise Undecided(f"len of {self.cls.name}")
        return r

    def py_eq(self, it, ctx, other):
        return self is other

    def describe(self):
        return f"<{self.cls.name} {self.label}>"

    def __repr__(self):
        return self.describe()


class VFunc(V):
    kind = "function"

    def __init__(self, info, closure=None, defaults_env=None):
        self.info = info  # FuncInfo
        self.closure = closure  # Env or None

    def py_call(self, it, ctx, args, kwargs):
        return it.call_function(ctx, self.info, list(args), kwargs, closure=self.closure)

    def describe(self):
        return f"<function {self.info.qualname}>"

    def __repr__(self):
        return self.describe()


class VBound(V):
    kind = "boundmethod"

    def __init__(self, func, selfv, closure=None):
        self.func = func  # FuncInfo
        self.selfv = selfv

    def py_call(self, it, ctx, args, kwargs):
        return it.call_function(ctx, self.func, [self.selfv] + list(args), kwargs)

    def describe(self):
        return f"<bound {self.func.qualname}>"


class VSuper(V):
    kind = "super"

    def __init__(self, defcls, selfv):
        self.defcls = defcls
        self.selfv = selfv  # VObj or VClass

    def py_getattr(self, it, ctx, name):
        return it.super_getattr(ctx, self, name)


class VOpaque(V):
    """an uninterpreted value that only flows (warnings, loggers, devices, ...)"""

    kind = "opaque"

    def __init__(self, name):
        self.name = name

    def py_getattr(self, it, ctx, name):
        return VOpaque(f"{self.name}.{name}")

    def py_call(self, it, ctx, args, kwargs):
        raise Undecided(f"call of opaque {self.name}")

    def describe(self):
        return f"<opaque {self.name}>"


def from_py(x):
    """python constant -> V"""
    if x is None:
        return NONE
    if x is Ellipsis:
        return ELLIPSIS
    if isinstance(x, bool):
        return VBool(x)
    if isinstance(x, (int, float)):
        return VNum(x)
    if isinstance(x, str):
        return VStr(x)
    if isinstance(x, tuple):
        return VTuple([from_py(i) for i in x])
    if isinstance(x, list):
        return VList([from_py(i) for i in x])
    if isinstance(x, V):
        return x
    if isinstance(x, z3.ExprRef):
        if z3.is_bool(x):
            return VBool(x)
        if z3.is_int(x) or z3.is_real(x):
            return VNum(x)
        if x.sort() == Val:
            return VAny(x)
    raise TypeError(f"from_py({x!r})")
