"""driver.py -- `./check Cxx --tier quick|thorough` and `./check Cxx --replay FILE`."""
from __future__ import annotations

import argparse
import glob
import importlib
import json
import os
import sys
import time
import traceback

VERIF = os.path.dirname(os.path.dirname(os.path.abspath(__file__)))
sys.path.insert(0, VERIF)

from engine import runner  # noqa: E402
from engine.extract import REPO, RepoIndex  # noqa: E402

BASE_ASSUMPTIONS = [
    "Python ints are unbounded; tensor extents are non-negative ints",
    "floats are treated as mathematical reals (no rounding, no overflow); NaN exists only where a contract introduces it",
    "single-threaded, left-to-right evaluation; `with E: B` calls __enter__ then B then __exit__ exactly once, also when B raises",
    "extraction drops docstrings, annotations, warnings.warn, dtype/device/contiguous/detach conversions (value identity)",
    "extraction drops decorators other than property / setter / classmethod / staticmethod (@cached, @recall_grad_state, functools.wraps): "
    "memoisation and grad-mode switching do not change values; what a cache key depends on is exercised only by the bounded tier",
    "default-argument expressions are evaluated once, at definition time, in the class-body initial state (CPython semantics)",
    "callee contracts introduced by a harness (contracts/stubs.Stub objects, call / attribute hooks: linear solves, Cholesky factors, kernels' forward, "
    "sub-modules) are ASSUMED unless the contract's docstring names the property whose proof tier discharges them",
    "sums over symbolic extents are uninterpreted SUMF atoms normalised by linearity; exp / log / sqrt / trigonometric / Phi are uninterpreted with ground axioms; "
    "identities closed by the sympy CAS back end trust sympy's polynomial / exp-log normal forms (cross-checked numerically)",
]


def load_contracts(prop):
    mods = []
    for p in sorted(glob.glob(os.path.join(VERIF, "contracts", f"{prop}_*.py"))):
        name = "contracts." + os.path.basename(p)[:-3]
        mods.append(importlib.import_module(name))
    return mods


def load_bounded(prop):
    mods = []
    for p in sorted(glob.glob(os.path.join(VERIF, "bounded", f"{prop}_*.py"))):
        name = "bounded." + os.path.basename(p)[:-3]
        mods.append(importlib.import_module(name))
    return mods


def main(argv=None):
    ap = argparse.ArgumentParser()
    ap.add_argument("prop")
    ap.add_argument("--tier", default=os.environ.get("VERIF_TIER", "quick"), choices=["quick", "thorough"])
    ap.add_argument("--replay")
    ap.add_argument("--only", help="regex on case ids")
    ap.add_argument("--workers", type=int, default=int(os.environ.get("VERIF_WORKERS", "16")))
    ap.add_argument("--no-bounded", action="store_true")
    ap.add_argument("--no-evidence", action="store_true")
    ap.add_argument("-v", "--verbose", action="store_true")
    args = ap.parse_args(argv)
    prop = args.prop
    seed = int(os.environ.get("VERIF_SEED", "0"))
    t0 = time.time()
    try:
        if args.replay:
            return do_replay(prop, args.replay)
        return run_property(prop, args.tier, seed, args, t0)
    except SystemExit:
        raise
    except BaseException:
        print("CHECKER-CRASH", prop)
        traceback.print_exc()
        return 3


def do_replay(prop, path):
    d = json.load(open(path))
    print(json.dumps({k: d[k] for k in d if k not in ("vc",)}, indent=1)[:4000])
    load_contracts(prop)
    load_bounded(prop)
    rp = d.get("replay_entry")
    if rp:
        mod = importlib.import_module(rp["module"])
        fn = getattr(mod, rp["function"])
        res = fn(*rp.get("args", []))
        print("replay result:", json.dumps(runner._jsonable(res), indent=1))
        return 1 if res.get("violates") else 0
    print("no executable replay entry recorded (see 'detail' / 'solver_output' above)")
    return 0


def run_property(prop, tier, seed, args, t0):
    import re

    mods = load_contracts(prop)
    cases = runner.CASES.get(prop, [])
    index = RepoIndex()
    jobs = []
    for cd in cases:
        if cd.tier == "thorough" and tier != "thorough":
            continue
        plist = cd.expand(index) if cd.expand else [()]
        for params in plist:
            if not isinstance(params, tuple):
                params = (params,)
            cid = cd.name + ("[" + ",".join(_pstr(p) for p in params) + "]" if params else "")
            if args.only and not re.search(args.only, cid):
                continue
            jobs.append((cd, params, cid))

    def log(r):
        if args.verbose:
            st = {n: o["status"] for n, o in r.get("obligations", {}).items()}
            print(f"  [{r.get('wall_s', '?')}s] {r['case']} paths={r.get('paths')} {st} {('UNDECIDED ' + str(r.get('undecided_paths'))[:300]) if r.get('undecided_paths') else ''} {('CRASH ' + r['crash'][-600:]) if r.get('crash') else ''}", flush=True)

    results = runner.run_cases_parallel(jobs, workers=args.workers, log=log)
    known = runner.load_known()
    os.makedirs(os.path.join(VERIF, "replays", prop), exist_ok=True)
    os.makedirs(os.path.join(VERIF, "evidence"), exist_ok=True)

    violations, known_hits, undecided, crashes, spurious = [], [], [], [], []
    n_obl = n_dis = 0
    functions = set()
    per_backend = {}
    solver_s = 0.0
    samples = []
    optable_used, inlined, summaries, assumptions, axioms, files = set(), set(), set(), set(), set(), {}
    clause_stats = {}
    for (cd, params, cid), r in zip(jobs, results):
        if r.get("crash"):
            crashes.append((cid, r["crash"]))
            continue
        functions |= set(r.get("functions", []))
        optable_used |= set(r.get("optable", []))
        inlined |= set(r.get("inlined", []))
        summaries |= set(r.get("summaries", []))
        assumptions |= set(r.get("assumptions", []))
        axioms |= set(r.get("axioms", []))
        files.update(r.get("files", {}))
        solver_s += r.get("solver_s", 0.0)
        for b, c in r.get("backends", {}).items():
            per_backend[b] = per_backend.get(b, 0) + c
        und_case = list(r.get("undecided_paths", []))
        cl = clause_stats.setdefault(cd.clause or cd.name, {"obligations": 0, "discharged": 0, "undecided": 0, "violated": 0})
        if und_case:
            undecided.append({"case": cid, "reasons": sorted(set(map(str, und_case)))[:6]})
        if not r.get("obligations") and not und_case:
            undecided.append({"case": cid, "reasons": ["vacuity: case produced no obligations"]})
        for name, o in r.get("obligations", {}).items():
            n_obl += 1
            cl["obligations"] += 1
            if o["status"] == "unsat" and not und_case:
                n_dis += 1
                cl["discharged"] += 1
                if len(samples) < 4 and o.get("vc"):
                    samples.append({"obligation": name, "status": "discharged", "paths": o["paths"], "backend": o["backend"],
                                    "vc_smt2": o["vc"][:1500]})
            elif o["status"] == "unsat":
                cl["undecided"] += 1  # other paths of the same case are undecided: not counted as proved
            elif o["status"] == "unknown":
                cl["undecided"] += 1
                undecided.append({"case": cid, "obligation": name, "reasons": ["solver returned unknown / timed out"]})
            elif o["status"] == "sat":
                rp = o.get("replay") or {}
                key = name
                kf = runner.known_match(known, prop, key)
                rfile = os.path.join(VERIF, "replays", prop, _safe(name) + ".json")
                rec = {"property": prop, "obligation": name, "model": o["model"], "info": o.get("info"),
                       "replay": rp, "vc": o.get("vc"), "params": [_pstr(p) for p in params],
                       "replay_entry": rp.get("entry") if isinstance(rp, dict) else None}
                if rp.get("violates") is True:
                    json.dump(rec, open(rfile, "w"), indent=1)
                    cl["violated"] += 1
                    if kf:
                        known_hits.append((kf, name))
                    else:
                        violations.append((name, rfile, ""))
                elif rp.get("violates") is False:
                    cl["undecided"] += 1
                    spurious.append({"obligation": name, "model": o["model"], "detail": str(rp.get("detail"))[:500]})
                    undecided.append({"case": cid, "obligation": name, "reasons": [
                        "spurious counter-model: the real code satisfies the contract on the replayed input (abstraction imprecise here)"]})
                elif "replay adapter crashed" in str(rp.get("detail", "")):
                    cl["undecided"] += 1
                    undecided.append({"case": cid, "obligation": name, "reasons": ["counter-model found but the replay adapter crashed (harness defect, not a verdict): " + str(rp.get("detail"))[-300:]]})
                else:
                    # definite sat, no executable replay
                    json.dump(rec, open(rfile, "w"), indent=1)
                    cl["violated"] += 1
                    if kf:
                        known_hits.append((kf, name))
                    else:
                        violations.append((name, rfile, " no-failing-input-found"))

    # ---- bounded tier (real code, enumerated inputs; never counted as proved) -----------------
    bounded_cov = []
    if not args.no_bounded:
        for bm in load_bounded(prop):
            try:
                br = bm.run(tier=tier, seed=seed)
            except BaseException as e:
                cls = runner.classify_replay_exception(e)
                if cls.get("violates"):
                    # the code under test raised inside the bounded harness: a failing input on the real code
                    br = {"name": bm.__name__, "evaluations": 1, "distinct_nontrivial": 1, "bound": "aborted by an exception in the code under test",
                          "rule": "", "samples": [], "violations": [{"key": f"exception/{bm.__name__.split('.')[-1]}", "input": {}, "detail": cls["detail"], "entry": None}]}
                else:
                    crashes.append((bm.__name__, traceback.format_exc()))
                    continue
            for v in br.get("violations", []):
                key = "bounded:" + v["key"]
                rfile = os.path.join(VERIF, "replays", prop, _safe(key) + ".json")
                kf = runner.known_match(known, prop, key)
                json.dump({"property": prop, "obligation": key, "input": v.get("input"), "detail": v.get("detail"),
                           "replay_entry": v.get("entry")}, open(rfile, "w"), indent=1)
                if kf:
                    known_hits.append((kf, key))
                else:
                    violations.append((key, rfile, ""))
            bounded_cov.append({k: br[k] for k in br if k != "violations"})

    wall = time.time() - t0
    n_known_obl = len(set(n for _, n in known_hits if not n.startswith("bounded:")))
    by_finding = {}
    for k, n in known_hits:
        by_finding.setdefault(json.dumps(k, sort_keys=True), set()).add(n)
    for kf, names in sorted(by_finding.items()):  # one line per listed finding (with the obligations / inputs that hit it)
        kfd = json.loads(kf)
        names = sorted(names)
        where = names[0] if len(names) == 1 else f"{len(names)} obligations/inputs, e.g. {names[0]}"
        print(f"KNOWN-FINDING: property={prop} {kfd['what']} [{where}]")
    for name, rfile, suffix in violations:
        print(f"VIOLATION property={prop} replay={rfile}{suffix}")
        print(f"  failed obligation: {name}")
    for cid, tb in crashes:
        print(f"CHECKER-CRASH in {cid}:\n{tb}")
    if undecided:
        print(f"UNDECIDED ({len(undecided)}) — not violations; listed in evidence:")
        for u in undecided[:30]:
            print("  ", u.get("obligation") or u.get("case"), "::", "; ".join(u["reasons"])[:300])
    print(f"{prop} tier={tier}: obligations={n_obl} discharged={n_dis} undecided={len(undecided)} "
          f"violations={len(violations)} known={len(set(n for _, n in known_hits))} cases={len(jobs)} wall={wall:.1f}s solver={solver_s:.1f}s")

    if not args.no_evidence and not args.only:
        level = _manifest_level(prop)
        bev = sum(b.get("evaluations", 0) for b in bounded_cov)
        bdn = sum(b.get("distinct_nontrivial", 0) for b in bounded_cov)
        ev = {
            "property_id": prop, "tier": tier, "seed": seed, "level": level, "wall_s": round(wall, 2),
            "violations": len(violations),
            "coverage": {
                # obligations in force = all generated obligations minus those whose violation is a listed known finding
                "obligations": n_obl - n_known_obl, "discharged": n_dis,
                "obligations_generated": n_obl, "known_finding_obligations": n_known_obl,
                "checker_cmd": f"./check {prop} --tier {tier}",
                "trusted_base": sorted(optable_used) + sorted(f"summary:{s}" for s in summaries),
                "explanation": _explanation(prop, n_obl, n_dis, undecided, bounded_cov),
                "functions_under_contract": sorted(functions),
                "functions_inlined_into_callers": sorted(inlined - functions),
                "per_clause": clause_stats,
                "per_backend": per_backend, "solver_s": round(solver_s, 2),
                "undecided": undecided[:200], "spurious_models": spurious[:20],
                "known_findings_reported": sorted(set(n for _, n in known_hits)),
                "bounded": bounded_cov,
                "evaluations": max(bev, 1) if bounded_cov else n_obl,
                "distinct_nontrivial": bdn if bounded_cov else n_obl,
                "rule": "proof tier: one obligation = one named contract clause, decided on every path of the extracted function; "
                        "bounded tier (if present): see coverage.bounded[*].rule",
                "samples": samples + [s for b in bounded_cov for s in b.get("samples", [])][:4],
                "source_files": files,
                "repo": REPO,
                "axioms_used": sorted(axioms),
            },
            "assumptions": BASE_ASSUMPTIONS + sorted(assumptions) + [f"op-table entry assumed to have its documented meaning: {o}" for o in sorted(optable_used)],
        }
        json.dump(ev, open(os.path.join(VERIF, "evidence", f"{prop}.json"), "w"), indent=1)
    if violations:
        return 1
    return 3 if crashes else 0


def _explanation(prop, n_obl, n_dis, undecided, bounded_cov):
    s = (f"{n_dis} of {n_obl} contract obligations on the real (AST-extracted) functions were discharged by the SMT back end "
         f"for all inputs; {len(undecided)} item(s) undecided (listed, not counted as proved).")
    if bounded_cov:
        s += " Bounded stand-in (runtime contracts on the real code over an enumerated family; NOT counted as proved): " + \
             "; ".join(f"{b.get('name')}: {b.get('evaluations')} evaluations, bound: {b.get('bound')}" for b in bounded_cov)
    return s


def _manifest_level(prop):
    try:
        m = json.load(open(os.path.join(VERIF, "MANIFEST.json")))
        for c in m["checks"]:
            if c["property_id"] == prop:
                return c["level_claimed"]["category"]
    except Exception:
        pass
    return "other"


def _pstr(p):
    if isinstance(p, str):
        return p
    if hasattr(p, "qualname"):
        return p.qualname
    return str(p)


def _safe(s):
    import re
    return re.sub(r"[^A-Za-z0-9_.\-\[\],=]+", "_", s)[:180]


if __name__ == "__main__":
    sys.exit(main())
