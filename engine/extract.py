"""extract.py -- mechanical extraction of the functions under contract.

Every run parses the *current* source files (``$VERIF_REPO``, default /repo, for gpytorch;
the installed package directory for linear_operator, flagged ``dependency``) with ``ast``
and builds a table module -> classes / functions / imports / module-level assignments.
Nothing here is a model of the code: the symbolic executor walks exactly these ASTs.
"""
from __future__ import annotations

import ast
import hashlib
import os
import sys

REPO = os.environ.get("VERIF_REPO", "/repo")
DEP_ROOTS = {
    "linear_operator": "/venv/lib/python3.12/site-packages/linear_operator",
}


class FuncInfo:
    def __init__(self, node, module, cls=None, outer_env=None):
        self.node = node
        self.name = node.name if hasattr(node, "name") else "<lambda>"
        self.module = module  # ModuleInfo
        self.cls = cls  # ClassInfo or None
        self.decorators = [_decorator_name(d) for d in getattr(node, "decorator_list", [])]
        self.decorator_nodes = list(getattr(node, "decorator_list", []))

    @property
    def qualname(self):
        if self.cls is not None:
            return f"{self.module.name}.{self.cls.name}.{self.name}"
        return f"{self.module.name}.{self.name}"

    @property
    def is_classmethod(self):
        return "classmethod" in self.decorators

    @property
    def is_staticmethod(self):
        return "staticmethod" in self.decorators

    @property
    def is_property(self):
        return "property" in self.decorators or "lazy_property" in self.decorators

    @property
    def setter_of(self):
        for d in self.decorators:
            if d.endswith(".setter"):
                return d[: -len(".setter")]
        return None

    def source_hash(self):
        return hashlib.sha1(ast.dump(self.node).encode()).hexdigest()[:12]

    def __repr__(self):
        return f"<Func {self.qualname}>"


def _decorator_name(d):
    if isinstance(d, ast.Name):
        return d.id
    if isinstance(d, ast.Attribute):
        return f"{_decorator_name(d.value)}.{d.attr}"
    if isinstance(d, ast.Call):
        return _decorator_name(d.func)
    return "?"


class ClassInfo:
    def __init__(self, node, module):
        self.node = node
        self.name = node.name
        self.module = module
        self.methods = {}  # name -> FuncInfo (plain / getter)
        self.setters = {}  # name -> FuncInfo
        self.assigns = {}  # name -> ast expr (class-body level)
        self.assign_order = []
        for st in node.body:
            if isinstance(st, (ast.FunctionDef, ast.AsyncFunctionDef)):
                fi = FuncInfo(st, module, self)
                if fi.setter_of:
                    self.setters[fi.setter_of] = fi
                elif any(d.endswith(".deleter") for d in fi.decorators):
                    pass
                else:
                    self.methods[st.name] = fi
            elif isinstance(st, ast.Assign):
                for t in st.targets:
                    if isinstance(t, ast.Name):
                        self.assigns[t.id] = st.value
                        self.assign_order.append(t.id)
            elif isinstance(st, ast.AnnAssign) and st.value is not None and isinstance(st.target, ast.Name):
                self.assigns[st.target.id] = st.value
                self.assign_order.append(st.target.id)
        self._mro = None

    @property
    def qualname(self):
        return f"{self.module.name}.{self.name}"

    def base_infos(self):
        """Resolved bases: ClassInfo for source-available classes, dotted str otherwise."""
        out = []
        for b in self.node.bases:
            out.append(self.module.resolve_expr_to_class(b))
        return out

    def mro(self):
        if self._mro is None:
            bases = [b for b in self.base_infos()]
            seqs = []
            for b in bases:
                if isinstance(b, ClassInfo):
                    seqs.append(list(b.mro()))
                else:
                    seqs.append([b])
            seqs.append(list(bases))
            self._mro = [self] + _c3_merge(seqs)
        return self._mro

    def mro_classes(self):
        return [c for c in self.mro() if isinstance(c, ClassInfo)]

    def external_bases(self):
        return [c for c in self.mro() if not isinstance(c, ClassInfo)]

    def find_method(self, name, after=None):
        m = self.mro()
        if after is not None:
            m = m[m.index(after) + 1 :]
        for c in m:
            if isinstance(c, ClassInfo) and name in c.methods:
                return c.methods[name]
        return None

    def find_setter(self, name):
        for c in self.mro_classes():
            if name in c.setters:
                return c.setters[name]
            if name in c.methods and not c.methods[name].is_property:
                return None
        return None

    def find_assign(self, name):
        for c in self.mro_classes():
            if name in c.assigns:
                return c, c.assigns[name]
        return None, None

    def is_subclass_of(self, other):
        """other: ClassInfo or dotted/simple name"""
        for c in self.mro():
            if c is other:
                return True
            if isinstance(other, str):
                cn = c.qualname if isinstance(c, ClassInfo) else c
                if cn == other or cn.split(".")[-1] == other.split(".")[-1]:
                    return True
        return False

    def __repr__(self):
        return f"<Class {self.qualname}>"


def _c3_merge(seqs):
    seqs = [list(s) for s in seqs if s]
    res = []
    while seqs:
        for s in seqs:
            cand = s[0]
            if not any(cand in t[1:] for t in seqs):
                break
        else:
            # inconsistent (can happen with unresolved external names): fall back to simple order
            cand = seqs[0][0]
        res.append(cand)
        for s in seqs:
            if s and s[0] is cand or (s and isinstance(cand, str) and s[0] == cand):
                del s[0]
        seqs = [s for s in seqs if s]
    return res


class ModuleInfo:
    def __init__(self, name, path, index, dependency=False):
        self.name = name
        self.path = path
        self.index = index
        self.dependency = dependency
        with open(path) as f:
            self.src = f.read()
        self.tree = ast.parse(self.src, filename=path)
        self.is_package = os.path.basename(path) == "__init__.py"
        self.classes = {}
        self.functions = {}
        self.imports = {}  # local name -> dotted target ("pkg.mod" or "pkg.mod:attr")
        self.assigns = {}  # name -> ast expr
        self._scan(self.tree.body)

    def _pkg(self):
        return self.name if self.is_package else self.name.rsplit(".", 1)[0] if "." in self.name else ""

    def _scan(self, body):
        for st in body:
            if isinstance(st, ast.ClassDef):
                self.classes[st.name] = ClassInfo(st, self)
            elif isinstance(st, (ast.FunctionDef, ast.AsyncFunctionDef)):
                self.functions[st.name] = FuncInfo(st, self)
            elif isinstance(st, ast.Import):
                for a in st.names:
                    if a.asname:
                        self.imports[a.asname] = a.name
                    else:
                        self.imports[a.name.split(".")[0]] = a.name.split(".")[0]
            elif isinstance(st, ast.ImportFrom):
                base = st.module or ""
                if st.level:
                    pkg = self._pkg().split(".") if self._pkg() else []
                    up = st.level - 1
                    pkg = pkg[: len(pkg) - up] if up else pkg
                    base = ".".join(pkg + ([st.module] if st.module else []))
                for a in st.names:
                    self.imports[a.asname or a.name] = f"{base}:{a.name}"
            elif isinstance(st, ast.Assign):
                for t in st.targets:
                    if isinstance(t, ast.Name):
                        self.assigns[t.id] = st.value
            elif isinstance(st, ast.AnnAssign) and st.value is not None and isinstance(st.target, ast.Name):
                self.assigns[st.target.id] = st.value
            elif isinstance(st, ast.Try):
                # module-level `try: import optional ... except ImportError: fallback`: take the branch that
                # CPython takes in this environment (is the optional top-level module importable?)
                first = st.body[0] if st.body else None
                missing = False
                if isinstance(first, (ast.Import, ast.ImportFrom)) and not getattr(first, "level", 0):
                    top = (first.module if isinstance(first, ast.ImportFrom) else first.names[0].name).split(".")[0]
                    import importlib.util
                    try:
                        missing = importlib.util.find_spec(top) is None
                    except (ImportError, ValueError):
                        missing = True
                if missing:
                    for h in st.handlers:
                        self._scan(h.body)
                else:
                    self._scan(st.body)
            elif isinstance(st, ast.If):
                self._scan(st.body)

    def resolve_name(self, name, _depth=0):
        """Resolve a module-level name to ('class', ClassInfo) | ('func', FuncInfo) |
        ('module', dotted) | ('assign', ModuleInfo, expr) | ('external', dotted) | None"""
        if name in self.classes:
            return ("class", self.classes[name])
        if name in self.functions:
            return ("func", self.functions[name])
        if name in self.assigns:
            return ("assign", self, self.assigns[name])
        if name in self.imports:
            tgt = self.imports[name]
            if ":" in tgt:
                mod, attr = tgt.split(":")
                # `from pkg import submodule`
                sub = self.index.get_module(f"{mod}.{attr}")
                m = self.index.get_module(mod)
                if m is not None and _depth < 12:
                    r = m.resolve_name(attr, _depth + 1)
                    if r is not None:
                        return r
                if sub is not None:
                    return ("module", sub.name)
                return ("external", f"{mod}.{attr}")
            else:
                m = self.index.get_module(tgt)
                if m is not None:
                    return ("module", m.name)
                return ("external", tgt)
        return None

    def resolve_expr_to_class(self, node):
        """For base-class expressions: returns ClassInfo or dotted string."""
        if isinstance(node, ast.Name):
            r = self.resolve_name(node.id)
            if r and r[0] == "class":
                return r[1]
            if r and r[0] == "external":
                return r[1]
            return node.id
        if isinstance(node, ast.Attribute):
            parts = []
            n = node
            while isinstance(n, ast.Attribute):
                parts.append(n.attr)
                n = n.value
            if isinstance(n, ast.Name):
                parts.append(n.id)
                parts.reverse()
                r = self.resolve_name(parts[0])
                if r and r[0] == "module":
                    m = self.index.get_module(r[1])
                    for p in parts[1:-1]:
                        m = self.index.get_module(f"{m.name}.{p}") if m else None
                    if m is not None:
                        rr = m.resolve_name(parts[-1])
                        if rr and rr[0] == "class":
                            return rr[1]
                if r and r[0] == "external":
                    return r[1] + "." + ".".join(parts[1:])
                return ".".join(parts)
        if isinstance(node, ast.Subscript):  # Generic[...] etc.
            return self.resolve_expr_to_class(node.value)
        return "?"


class RepoIndex:
    def __init__(self, repo=None):
        self.repo = repo or REPO
        self.modules = {}
        self.files_read = {}

    def _path_for(self, dotted):
        top = dotted.split(".")[0]
        if top == "gpytorch":
            root = os.path.join(self.repo)
            dep = False
        elif top in DEP_ROOTS:
            root = os.path.dirname(DEP_ROOTS[top])
            dep = True
        else:
            return None, False
        rel = dotted.replace(".", "/")
        for cand in (os.path.join(root, rel + ".py"), os.path.join(root, rel, "__init__.py")):
            if os.path.isfile(cand):
                return cand, dep
        return None, dep

    def get_module(self, dotted):
        if dotted in self.modules:
            return self.modules[dotted]
        path, dep = self._path_for(dotted)
        if path is None:
            self.modules[dotted] = None
            return None
        m = ModuleInfo(dotted, path, self, dependency=dep)
        self.modules[dotted] = m
        self.files_read[path] = hashlib.sha1(m.src.encode()).hexdigest()[:12]
        return m

    def get_class(self, dotted):
        mod, _, cls = dotted.rpartition(".")
        m = self.get_module(mod)
        if m is None:
            raise KeyError(dotted)
        r = m.resolve_name(cls)
        if r and r[0] == "class":
            return r[1]
        raise KeyError(dotted)

    def get_function(self, dotted):
        """'pkg.mod.func' or 'pkg.mod.Class.method'"""
        mod, _, name = dotted.rpartition(".")
        m = self.get_module(mod)
        if m is not None:
            r = m.resolve_name(name)
            if r and r[0] == "func":
                return r[1]
        mod2, _, cls = mod.rpartition(".")
        m2 = self.get_module(mod2)
        if m2 is not None:
            r = m2.resolve_name(cls)
            if r and r[0] == "class":
                fi = r[1].find_method(name)
                if fi is not None:
                    return fi
                if name in r[1].setters:
                    return r[1].setters[name]
        raise KeyError(dotted)

    def all_gpytorch_modules(self):
        out = []
        root = os.path.join(self.repo, "gpytorch")
        for dp, dn, fn in os.walk(root):
            for f in fn:
                if f.endswith(".py"):
                    rel = os.path.relpath(os.path.join(dp, f), self.repo)[:-3].replace("/", ".")
                    if rel.endswith(".__init__"):
                        rel = rel[: -len(".__init__")]
                    out.append(rel)
        return sorted(out)
