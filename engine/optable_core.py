"""optable_core.py -- Python builtins and the few stdlib calls the extracted code uses.

Each entry is `f(it, ctx, args, kwargs) -> V`.  These are part of the encoding's assumed
semantics (DESIGN section 3), not of the trusted dependency contracts.
"""
from __future__ import annotations

import z3

from .values import (
    ELLIPSIS, FALSE, NONE, TRUE, PyRaise, Undecided, V, VAny, VAtom, VBool, VBuiltin, VClass, VDict, VExc,
    VExtClass, VFunc, VList, VModule, VNum, VObj, VOpaque, VSlice, VStr, VTuple,
)

T = {}


def op(name):
    def deco(f):
        T[name] = f
        return f

    return deco


@op("builtins.len")
def _len(it, ctx, a, k):
    return a[0].py_len(it, ctx)


@op("builtins.isinstance")
def _isinstance(it, ctx, a, k):
    return VBool(it.isinstance_check(ctx, a[0], a[1]))


@op("builtins.issubclass")
def _issubclass(it, ctx, a, k):
    if isinstance(a[0], VClass) and isinstance(a[1], VClass):
        return VBool(a[0].info.is_subclass_of(a[1].info))
    raise Undecided("issubclass on external classes")


@op("builtins.range")
def _range(it, ctx, a, k):
    cs = [x.concrete() if isinstance(x, VNum) else None for x in a]
    if any(c is None for c in cs):
        h = it.optable.get("symbolic.range")
        if h is not None:
            return h(it, ctx, a, k)
        raise Undecided("range with symbolic bounds (needs loop invariant)")
    return VList([VNum(i) for i in range(*cs)])


@op("builtins.tuple")
def _tuple(it, ctx, a, k):
    return VTuple(it.iterate(ctx, a[0])) if a else VTuple([])


@op("builtins.list")
def _list(it, ctx, a, k):
    return VList(it.iterate(ctx, a[0])) if a else VList([])


@op("builtins.dict")
def _dict(it, ctx, a, k):
    d = VDict()
    if a:
        if isinstance(a[0], VDict):
            d.d.update(a[0].d)
        else:
            for kv in it.iterate(ctx, a[0]):
                kk, vv = it.iterate(ctx, kv)
                d.d[VDict.key(kk)] = vv
    d.d.update(k)
    return d


@op("builtins.set")
def _set(it, ctx, a, k):
    from .values import VSet
    return VSet(it.iterate(ctx, a[0]) if a else [])


@op("builtins.slice")
def _slice(it, ctx, a, k):
    if len(a) == 1:
        return VSlice(NONE, a[0], NONE)
    a = list(a) + [NONE] * (3 - len(a))
    return VSlice(a[0], a[1], a[2])


@op("builtins.zip")
def _zip(it, ctx, a, k):
    seqs = [it.iterate(ctx, x) for x in a]
    n = min(len(s) for s in seqs) if seqs else 0
    return VList([VTuple([s[i] for s in seqs]) for i in range(n)])


@op("builtins.enumerate")
def _enumerate(it, ctx, a, k):
    start = a[1].concrete() if len(a) > 1 else 0
    return VList([VTuple([VNum(i + start), x]) for i, x in enumerate(it.iterate(ctx, a[0]))])


@op("builtins.reversed")
def _reversed(it, ctx, a, k):
    return VList(list(reversed(it.iterate(ctx, a[0]))))


@op("builtins.sorted")
def _sorted(it, ctx, a, k):
    items = it.iterate(ctx, a[0])
    cs = [x.concrete() if isinstance(x, VNum) else (x.s if isinstance(x, VStr) else None) for x in items]
    if any(c is None for c in cs):
        raise Undecided("sorted of symbolic values")
    return VList([x for _, x in sorted(zip(cs, items), key=lambda p: p[0])])


@op("builtins.all")
def _all(it, ctx, a, k):
    for x in it.iterate(ctx, a[0]):
        if not it.truthy(ctx, x):
            return FALSE
    return TRUE


@op("builtins.any")
def _any(it, ctx, a, k):
    for x in it.iterate(ctx, a[0]):
        if it.truthy(ctx, x):
            return TRUE
    return FALSE


def _minmax(is_min):
    def f(it, ctx, a, k):
        items = it.iterate(ctx, a[0]) if len(a) == 1 else list(a)
        if not items:
            raise PyRaise(VExc("ValueError", "min/max of empty sequence"))
        r = items[0]
        for x in items[1:]:
            c = it.compare(ctx, "<" if is_min else ">", x, r)
            if ctx.truth(c):
                r = x
        return r

    return f


T["builtins.min"] = _minmax(True)
T["builtins.max"] = _minmax(False)


@op("builtins.sum")
def _sum(it, ctx, a, k):
    r = a[1] if len(a) > 1 else VNum(0)
    for x in it.iterate(ctx, a[0]):
        r = it.binop(ctx, "+", r, x)
    return r


@op("builtins.abs")
def _abs(it, ctx, a, k):
    x = a[0]
    if isinstance(x, VNum):
        return VNum(z3.If(x.t >= 0, x.t, -x.t))
    h = getattr(x, "py_abs", None)
    if h:
        return h(it, ctx)
    raise Undecided("abs")


@op("builtins.int")
def _int(it, ctx, a, k):
    x = a[0]
    if isinstance(x, VNum) and x.is_int:
        return x
    if isinstance(x, VBool):
        return VNum(z3.If(x.t, z3.IntVal(1), z3.IntVal(0)))
    if isinstance(x, VNum):
        # truncation toward zero
        t = x.t
        return VNum(z3.If(t >= 0, z3.ToInt(t), -z3.ToInt(-t)))
    h = getattr(x, "py_int", None)
    if h:
        return h(it, ctx)
    raise Undecided("int() of " + x.kind)


@op("builtins.float")
def _float(it, ctx, a, k):
    x = a[0]
    if isinstance(x, VNum):
        return VNum(x.real())
    if isinstance(x, VStr) and x.s in ("inf", "-inf", "nan"):
        return VAtom("float:" + x.s)
    h = getattr(x, "py_float", None)
    if h:
        return h(it, ctx)
    raise Undecided("float() of " + x.kind)


@op("builtins.bool")
def _bool(it, ctx, a, k):
    t = a[0].py_truthy(it, ctx)
    return VBool(t)


@op("builtins.str")
def _str(it, ctx, a, k):
    return VStr("<str>") if not (a and isinstance(a[0], VStr)) else a[0]


@op("builtins.repr")
def _repr(it, ctx, a, k):
    return VStr("<repr>")


@op("builtins.print")
def _print(it, ctx, a, k):
    return NONE


@op("builtins.id")
def _id(it, ctx, a, k):
    return VNum(id(a[0]))


@op("builtins.callable")
def _callable(it, ctx, a, k):
    return VBool(isinstance(a[0], (VFunc, VBuiltin, VClass, VExtClass)) or hasattr(a[0], "func"))


@op("builtins.getattr")
def _getattr(it, ctx, a, k):
    if not isinstance(a[1], VStr):
        raise Undecided("getattr with symbolic name")
    try:
        return a[0].py_getattr(it, ctx, a[1].s)
    except PyRaise as pr:
        if pr.exc.clsname == "AttributeError" and len(a) > 2:
            return a[2]
        raise


@op("builtins.hasattr")
def _hasattr(it, ctx, a, k):
    if not isinstance(a[1], VStr):
        raise Undecided("hasattr with symbolic name")
    if a[1].s in ("__len__", "__iter__", "__getitem__"):
        if isinstance(a[0], (VList, VTuple, VDict, VStr)) or getattr(a[0], "kind", "") == "tensor":
            return TRUE
        if not isinstance(a[0], VObj):
            return FALSE
    try:
        a[0].py_getattr(it, ctx, a[1].s)
        return TRUE
    except PyRaise as pr:
        if pr.exc.clsname == "AttributeError":
            return FALSE
        raise


@op("builtins.setattr")
def _setattr(it, ctx, a, k):
    if not isinstance(a[1], VStr):
        raise Undecided("setattr with symbolic name")
    a[0].py_setattr(it, ctx, a[1].s, a[2])
    return NONE


@op("builtins.object.__setattr__")
def _object_setattr(it, ctx, a, k):
    """object.__setattr__(obj, name, value): the raw instance-dictionary write (bypasses any __setattr__ of the class)"""
    o = a[0]
    if not isinstance(a[1], VStr):
        raise Undecided("object.__setattr__ with symbolic name")
    if isinstance(o, VObj):
        o.fields[a[1].s] = a[2]
        ctx.writes.append(("field", id(o), a[1].s)) if hasattr(ctx, "writes") else None
        return NONE
    o.py_setattr(it, ctx, a[1].s, a[2])
    return NONE


@op("builtins.delattr")
def _delattr(it, ctx, a, k):
    o = a[0]
    if isinstance(o, VObj) and isinstance(a[1], VStr) and a[1].s in o.fields:
        del o.fields[a[1].s]
        ctx.note_write(("field", o.label, a[1].s))
        return NONE
    raise PyRaise(VExc("AttributeError", "delattr"))


@op("builtins.type")
def _type(it, ctx, a, k):
    x = a[0]
    if isinstance(x, VObj):
        return VClass(x.cls)
    if isinstance(x, VNum):
        return VExtClass("builtins.int" if x.is_int else "builtins.float")
    if isinstance(x, VBool):
        return VExtClass("builtins.bool")
    h = getattr(x, "py_type", None)
    if h:
        return h(it, ctx)
    raise Undecided("type() of " + x.kind)


@op("builtins.property")
def _property(it, ctx, a, k):
    raise Undecided("dynamic property()")


@op("builtins.staticmethod")
def _staticmethod(it, ctx, a, k):
    return a[0]


@op("builtins.object")
def _object(it, ctx, a, k):
    return VOpaque("object()")


class _TypeOrCall(VExtClass):
    """`int`, `tuple`, ... : a class in isinstance(...) and a conversion when called"""

    def __init__(self, name, fn):
        super().__init__(name)
        self.fn = fn

    def py_call(self, it, ctx, args, kwargs):
        return self.fn(it, ctx, args, kwargs)

    def describe(self):
        return f"<type {self.name}>"


import builtins as _b

for _n in ("int", "float", "bool", "str", "tuple", "list", "dict", "slice", "set", "object", "type"):
    T["builtins." + _n] = _TypeOrCall("builtins." + _n, T["builtins." + _n])

for _n in dir(_b):
    _o = getattr(_b, _n)
    if isinstance(_o, type) and issubclass(_o, BaseException):
        T["builtins." + _n] = VExtClass("builtins." + _n)

T["builtins.Ellipsis"] = ELLIPSIS
T["builtins.True"] = TRUE
T["builtins.False"] = FALSE
T["builtins.None"] = NONE


@op("warnings.warn")
def _warn(it, ctx, a, k):
    ctx.notes.append("warnings.warn")
    if getattr(it, "warn_may_raise", False):
        # under a warnings-as-errors filter warnings.warn raises the warning: a nondeterministic raise point
        import z3
        from .values import fresh
        if ctx.branch(z3.Bool(fresh("warn_raises"))):
            cat = a[1] if len(a) > 1 else k.get("category")
            raise PyRaise(VExc(getattr(cat, "name", "UserWarning").split(".")[-1], "warning promoted to error"))
    return NONE


@op("warnings.simplefilter")
def _simplefilter(it, ctx, a, k):
    return NONE


@op("copy.copy")
def _copy(it, ctx, a, k):
    x = a[0]
    if isinstance(x, VObj):
        o = VObj(x.cls, dict(x.fields))
        o.ghost = dict(x.ghost)
        return o
    if isinstance(x, VList):
        return VList(x.items)
    if isinstance(x, VDict):
        return VDict(x.d)
    return x


@op("copy.deepcopy")
def _deepcopy(it, ctx, a, k):
    """structural clone of the object graph reachable from the argument (objects, lists, dicts, tuples, tensors are new cells holding the
    same values; aliasing inside the graph is preserved through the memo)"""
    from .dom_elem import VTensor
    memo = {}

    def clone(x):
        if id(x) in memo:
            return memo[id(x)]
        if isinstance(x, VObj):
            o = VObj(x.cls, {})
            memo[id(x)] = o
            o.ghost = dict(x.ghost)
            o.label = getattr(x, "label", None)
            for f, v in x.fields.items():
                o.fields[f] = clone(v)
            return o
        if isinstance(x, VList):
            r = VList([])
            memo[id(x)] = r
            r.items = [clone(v) for v in x.items]
            return r
        if isinstance(x, VDict):
            r = VDict()
            memo[id(x)] = r
            r.d = {kk: clone(v) for kk, v in x.d.items()}
            return r
        if isinstance(x, VTuple):
            r = VTuple([clone(v) for v in x.items], **({"is_size": True} if getattr(x, "is_size", False) else {}))
            memo[id(x)] = r
            return r
        if isinstance(x, VTensor):
            r = x.frozen()
            r.meta = dict(x.meta)
            memo[id(x)] = r
            return r
        return x

    return clone(a[0])


@op("functools.reduce")
def _reduce(it, ctx, a, k):
    """functools.reduce(f, iterable[, initial]) over a finite sequence: left fold (CPython semantics; empty without initial raises TypeError)"""
    items = list(it.iterate(ctx, a[1]))
    if len(a) > 2:
        acc = a[2]
    elif items:
        acc, items = items[0], items[1:]
    else:
        raise PyRaise(VExc("TypeError", "reduce() of empty iterable with no initial value"))
    for x in items:
        acc = it.call(ctx, a[0], [acc, x], {})
    return acc


@op("operator.mul")
def _opmul(it, ctx, a, k):
    return it.binop(ctx, "*", a[0], a[1])


@op("operator.add")
def _opadd(it, ctx, a, k):
    return it.binop(ctx, "+", a[0], a[1])


@op("math.sqrt")
def _msqrt(it, ctx, a, k):
    h = it.optable.get("real.sqrt")
    if h:
        return h(it, ctx, a, k)
    raise Undecided("math.sqrt")


@op("math.log")
def _mlog(it, ctx, a, k):
    h = it.optable.get("real.log")
    if h:
        return h(it, ctx, a, k)
    raise Undecided("math.log")


@op("math.exp")
def _mexp(it, ctx, a, k):
    h = it.optable.get("real.exp")
    if h:
        return h(it, ctx, a, k)
    raise Undecided("math.exp")


from .dom_real import PI as _PI
T["math.pi"] = VNum(_PI)
T["typing.Optional"] = VOpaque("typing.Optional")
T["typing.Union"] = VOpaque("typing.Union")
T["typing.Any"] = VOpaque("typing.Any")
T["typing.Tuple"] = VOpaque("typing.Tuple")
T["typing.List"] = VOpaque("typing.List")
T["typing.Dict"] = VOpaque("typing.Dict")
T["typing.Callable"] = VOpaque("typing.Callable")
T["typing.Iterable"] = VOpaque("typing.Iterable")
T["typing.Sequence"] = VOpaque("typing.Sequence")
