"""dom_elem.py -- tensors as (positional dims with symbolic extents, element term).

A tensor denotes a function from index tuples to z3 terms (Real / Int / Bool).  Each dim is a
row-major product of *atoms* (so `reshape(-1)` of an (a, b) grid keeps the pair structure and
no div/mod arithmetic is introduced unless a reshape really cuts across atoms).  Pointwise
operations map the element term, broadcasting aligns dims from the right, reductions
introduce `SUM(lambda k. body, n)` after normalising by linearity.  Index variables are bound
at each use; nothing is stored per index.  LinearOperators are tensors flagged `is_linop`
(they denote their dense matrix -- DESIGN section 4).
"""
from __future__ import annotations

import itertools

import z3

from .values import (
    ELLIPSIS, FALSE, NONE, TRUE, PyRaise, Undecided, V, VAny, VAtom, VBool, VBuiltin, VDict, VExc, VExtClass,
    VList, VNum, VObj, VOpaque, VSlice, VStr, VTuple, fresh, py_floordiv, py_mod,
)

_cnt = itertools.count()


# opt-in NaN model (ctx.ghost["nan_model"]): NaN is a distinguished, otherwise unconstrained real; isnan(x) := x == NANV.  Only used by
# contracts that state which entries are missing; NaN poisoning of arithmetic is NOT modelled (bounded tiers check finiteness).
NANV = z3.Real("NaN")


def ivar(prefix="i"):
    return z3.Int(f"{prefix}!{next(_cnt)}")


# ------------------------------------------------------------------ reductions --------------
# sum_{k<n} body(k) is represented without binders: the body is abstracted over the 0-ary constants it mentions
# (index variables, sizes, ...) and each distinct abstracted body gets one uninterpreted function
#     SUMF_j(c_1, ..., c_m, n)  =  sum_{k=0}^{n-1} body_j[c_1..c_m](k)
# so that two reductions with the same body (up to the names of those constants) are the same function applied to
# their constants (congruence), and every VC stays quantifier- and lambda-free.  SUM_REGISTRY keeps the bodies
# so that reductions over a literal extent can be unfolded when searching for counter-models (engine/refute.py).
SUM_REGISTRY = {}   # function name -> (placeholders, k placeholder, template body)
_SUM_BY_KEY = {}


def _consts_in(t, exclude_id):
    out, seen, stack = [], set(), [t]
    while stack:
        x = stack.pop()
        i = x.get_id()
        if i in seen:
            continue
        seen.add(i)
        if z3.is_quantifier(x):
            stack.append(x.body())
            continue
        if z3.is_const(x) and x.decl().kind() == z3.Z3_OP_UNINTERPRETED:
            if i != exclude_id:
                out.append(x)
            continue
        stack.extend(reversed(x.children()))
    return out


def _contains(t, v):
    """does z3 term t contain constant v"""
    vid = v.get_id()
    seen = set()
    stack = [t]
    while stack:
        x = stack.pop()
        i = x.get_id()
        if i in seen:
            continue
        seen.add(i)
        if i == vid:
            return True
        if z3.is_quantifier(x):
            stack.append(x.body())
        else:
            stack.extend(x.children())
    return False


def _flat_factors(t):
    """factors of a (possibly nested) product"""
    if z3.is_mul(t):
        out = []
        for c in t.children():
            out.extend(_flat_factors(c))
        return out
    return [t]


def _sum_atom(d, k, extent):
    """the reduction of the k-dependent product d over k < extent as an application of its SUMF function"""
    cs = _consts_in(d, k.get_id())
    phs = [z3.Const(f"ph!{i}!{c.sort().name()}", c.sort()) for i, c in enumerate(cs)]
    kph = z3.Int("ph!k")
    templ = z3.substitute(d, *([(c, p) for c, p in zip(cs, phs)] + [(k, kph)]))
    # canonical form of the template over the shared placeholder constants (e.g. `0 >= x` and `x <= 0` name the same sum)
    key = z3.simplify(templ, arith_lhs=True).sexpr()
    if key not in _SUM_BY_KEY:
        name = f"SUMF{len(_SUM_BY_KEY)}"
        f = z3.Function(name, *([c.sort() for c in cs] + [z3.IntSort(), d.sort()]))
        _SUM_BY_KEY[key] = f
        SUM_REGISTRY[name] = (phs, kph, templ)
    return _SUM_BY_KEY[key](*(cs + [extent]))


def _point_mass(f, k):
    """f == If(k == a, x, 0) (possibly under ToReal) with a free of k: returns (a, x) else None"""
    g = f
    wrap = False
    if z3.is_app_of(g, z3.Z3_OP_TO_REAL):
        g, wrap = g.arg(0), True
    if not z3.is_app_of(g, z3.Z3_OP_ITE):
        return None
    c, x, y = g.children()
    if not ((z3.is_int_value(y) and y.as_long() == 0) or (z3.is_rational_value(y) and y.numerator_as_long() == 0)):
        return None
    if not z3.is_eq(c):
        return None
    l, r = c.children()
    if l.eq(k) and not _contains(r, k):
        a = r
    elif r.eq(k) and not _contains(l, k):
        a = l
    else:
        return None
    return a, (z3.ToReal(x) if wrap else x)


def mk_sum(body_fn, extent):
    """sum_{k=0}^{extent-1} body_fn(k), normalised by linearity: expanded into monomials, factors
    that do not depend on k pulled out, each remaining k-dependent product becomes one SUMF atom."""
    es = z3.simplify(extent) if isinstance(extent, z3.ExprRef) else z3.IntVal(extent)
    if z3.is_int_value(es) and 0 <= es.as_long() <= 4:
        # a literal small extent: the explicit finite sum
        tot = None
        for kk in range(es.as_long()):
            v = body_fn(z3.IntVal(kk))
            tot = v if tot is None else tot + v
        if tot is None:
            probe = body_fn(z3.IntVal(0))
            return z3.RealVal(0) if probe.sort() == z3.RealSort() else z3.IntVal(0)
        return z3.simplify(tot)
    k = ivar("k")
    body = body_fn(k)
    sort = body.sort()
    if not _contains(body, k):
        n = z3.ToReal(extent) if sort == z3.RealSort() else extent
        return z3.simplify(body * n)
    b = z3.simplify(body, som=True, mul_to_power=False, expand_power=True, hoist_mul=False, flat=True)
    terms = list(b.children()) if z3.is_add(b) else [b]
    total = None
    for t in terms:
        factors = [z3.simplify(f) for f in _flat_factors(t)]
        indep = [f for f in factors if not _contains(f, k)]
        dep = [f for f in factors if _contains(f, k)]
        if not dep:
            n = z3.ToReal(extent) if sort == z3.RealSort() else extent
            piece = t * n
        else:
            # canonical factor order that does not depend on term identities: by the text of each factor
            # (so commuted products of the same factors give the same atom with the same argument order)
            dep = sorted(dep, key=lambda f: f.sexpr())
            pm = next(((q, _point_mass(f, k)) for q, f in enumerate(dep) if _point_mass(f, k) is not None), None)
            if pm is not None:
                # sum_k If(k == a, x(k), 0) * rest(k) = If(0 <= a < extent, x(a) * rest(a), 0): an exact identity, no SUMF atom needed
                q, (a, x) = pm
                d = x
                for f in dep[:q] + dep[q + 1:]:
                    d = d * f
                d = z3.substitute(d, (k, a))
                zero = z3.RealVal(0) if d.sort() == z3.RealSort() else z3.IntVal(0)
                piece = z3.If(z3.And(a >= 0, a < extent), d, zero)
            else:
                d = dep[0]
                for f in dep[1:]:
                    d = d * f
                piece = _sum_atom(d, k, extent)
            for f in indep:
                piece = f * piece
        total = piece if total is None else total + piece
    return z3.simplify(total)


# ------------------------------------------------------------------ dims --------------------
class Dim:
    __slots__ = ("atoms",)

    def __init__(self, atoms):
        self.atoms = [a if isinstance(a, z3.ExprRef) else z3.IntVal(a) for a in atoms]

    @property
    def size(self):
        s = None
        for a in self.atoms:
            s = a if s is None else s * a
        return z3.simplify(s) if s is not None else z3.IntVal(1)

    def is_one(self):
        s = self.size
        return z3.is_int_value(s) and s.as_long() == 1

    def __repr__(self):
        return "Dim(" + "*".join(str(a) for a in self.atoms) + ")"


def flat_index(atoms, idx):
    """row-major linear index"""
    r = None
    for a, i in zip(atoms, idx):
        r = i if r is None else r * a + i
    return r if r is not None else z3.IntVal(0)


def _split_affine(L, t):
    """L == q * t + r syntactically?  returns (q, r) or None"""
    Ls = z3.simplify(L)
    ts = z3.simplify(t)
    terms = list(Ls.children()) if z3.is_add(Ls) else [Ls]
    q_terms, r_terms = [], []
    for x in terms:
        fs = _flat_factors(x)
        hit = next((f for f in fs if f.eq(ts)), None)
        if hit is not None:
            rest = [f for f in fs if f is not hit]
            q = rest[0] if rest else z3.IntVal(1)
            for f in rest[1:]:
                q = q * f
            q_terms.append(q)
        else:
            r_terms.append(x)
    if not q_terms:
        return None
    q = q_terms[0]
    for x in q_terms[1:]:
        q = q + x
    r = z3.IntVal(0)
    for x in r_terms:
        r = r + x
    return z3.simplify(q), z3.simplify(r)


def unflatten(atoms, L):
    """linear index -> per-atom indices.  If the index is visibly q*t + r with 0 <= r < t (entailed by the current
    path condition) the components are read off; otherwise the div/mod chain."""
    if len(atoms) == 2:
        from . import values as _values
        ctx = _values._CUR[0]
        sp = _split_affine(L, atoms[1]) if ctx is not None else None
        if sp is not None:
            q, r = sp
            if ctx.entails(z3.And(r >= 0, r < atoms[1])):
                return [q, r]
    out = []
    rem = L
    for pos in range(len(atoms)):
        stride = None
        for a in atoms[pos + 1:]:
            stride = a if stride is None else stride * a
        if stride is None:
            out.append(rem)
        else:
            out.append(py_floordiv(rem, stride))
            rem = py_mod(rem, stride)
    return out


def same_extent(ctx, a, b):
    if a.eq(b):
        return True
    sa, sb = z3.simplify(a), z3.simplify(b)
    if sa.eq(sb):
        return True
    if z3.is_int_value(sa) and z3.is_int_value(sb):
        return sa.as_long() == sb.as_long()
    return ctx.entails(a == b)


def is_one(ctx, a):
    sa = z3.simplify(a)
    if z3.is_int_value(sa):
        return sa.as_long() == 1
    return ctx.entails(a == 1)


def to_real(t):
    if z3.is_int(t):
        return z3.ToReal(t)
    if z3.is_bool(t):
        return z3.If(t, z3.RealVal(1), z3.RealVal(0))
    return t


def coerce_pair(a, b):
    if a.sort() == b.sort():
        return a, b
    if z3.is_bool(a) and not z3.is_bool(b):
        a = z3.If(a, z3.IntVal(1), z3.IntVal(0))
    if z3.is_bool(b) and not z3.is_bool(a):
        b = z3.If(b, z3.IntVal(1), z3.IntVal(0))
    if z3.is_int(a) and z3.is_real(b):
        a = z3.ToReal(a)
    if z3.is_real(a) and z3.is_int(b):
        b = z3.ToReal(b)
    return a, b


class VTensor(V):
    kind = "tensor"
    is_tensor = True

    def __init__(self, dims, elem, sort="real", is_linop=False, label=None, linop_class=None):
        self.dims = [d if isinstance(d, Dim) else Dim([d]) for d in dims]
        self.elem = elem  # callable(list[idx per atom]) -> z3 term
        self.sort = sort
        self.is_linop = is_linop
        self.linop_class = linop_class
        self.label = label
        self.view_of = None
        self.view_read = None
        self.requires_grad = False
        self.meta = {}

    # -- basics ------------------------------------------------------------------------------
    @property
    def is_tensor(self):
        return not self.is_linop

    def isinstance_of(self, name):
        n = name.split(".")[-1]
        if n == "Tensor":
            return not self.is_linop
        if n == "Parameter":
            return bool(self.meta.get("is_parameter"))
        if n == "LinearOperator":
            return self.is_linop
        if self.is_linop and self.linop_class:
            return n == self.linop_class or n in LINOP_PARENTS.get(self.linop_class, ())
        return False

    def natoms(self):
        return sum(len(d.atoms) for d in self.dims)

    def all_atoms(self):
        return [a for d in self.dims for a in d.atoms]

    def fresh_indices(self, prefix="i"):
        return [ivar(prefix) for _ in range(self.natoms())]

    def in_range(self, idx):
        cs = []
        for a, i in zip(self.all_atoms(), idx):
            cs.append(z3.And(i >= 0, i < a))
        return z3.And(*cs) if cs else z3.BoolVal(True)

    def at(self, idx):
        return self.elem(list(idx))

    def at_dims(self, per_dim):
        """per_dim: one entry per dim; entry is a z3 Int (flat index of that dim) or a list of atom indices"""
        idx = []
        for d, e in zip(self.dims, per_dim):
            if isinstance(e, (list, tuple)):
                assert len(e) == len(d.atoms)
                idx.extend(e)
            elif len(d.atoms) == 1:
                idx.append(e)
            else:
                idx.extend(unflatten(d.atoms, e))
        return self.elem(idx)

    def visible_extents(self):
        """the extents Python code sees: for a boolean-mask selection (kept in place, see m_masked_select) the masked trailing dims
        collapse into ONE dim whose extent is the number of selected entries, COUNT(mask) -- an uninterpreted count with
        0 <= COUNT <= numel(mask)"""
        mask = self.meta.get("masked_by") if isinstance(self.meta, dict) else None
        if mask is None:
            return [d.size for d in self.dims]
        k = len(mask.dims)
        at = self.meta.get("masked_at", len(self.dims) - k)
        cnt = mask.meta.get("count_symbol")
        if cnt is None:
            cnt = z3.Int(fresh("count_selected"))
            mask.meta["count_symbol"] = cnt
            from .values import _CUR
            ctx = _CUR[0]
            if ctx is not None:
                tot = z3.IntVal(1)
                for d in mask.dims:
                    tot = tot * d.size
                ctx.assume(z3.And(cnt >= 0, cnt <= tot))
        return [d.size for d in self.dims[:at]] + [cnt] + [d.size for d in self.dims[at + k:]]

    def shape_tuple(self):
        return VTuple([VNum(e) for e in self.visible_extents()], is_size=True)

    def frozen(self):
        """snapshot of the current value: later in-place mutation of `self` does not affect the snapshot
        (closures of derived tensors must read the value the operand had when the operation ran)"""
        elem = self.elem
        if self.view_of is not None and getattr(self, "view_read", None) is not None:
            base_elem, reader = self.view_of[0].elem, self.view_read  # a view reads its base: snapshot the base's current value
            elem = lambda idx: reader(base_elem, idx)  # noqa: E731
        t = VTensor(list(self.dims), elem, self.sort, self.is_linop, self.label, self.linop_class)
        t.meta = self.meta
        t.requires_grad = self.requires_grad
        return t

    def copy(self, **kw):
        t = VTensor(list(self.dims), self.elem, self.sort, self.is_linop, self.label, self.linop_class)
        t.meta = dict(self.meta)
        for k, v in kw.items():
            setattr(t, k, v)
        return t

    def with_elem(self, elem, sort=None, dims=None):
        t = VTensor(list(dims if dims is not None else self.dims), elem, sort or self.sort, False)
        return t

    def describe(self):
        return f"<{'linop' if self.is_linop else 'tensor'} {[str(d.size) for d in self.dims]}>"

    def __repr__(self):
        return self.describe()

    # -- python protocol -----------------------------------------------------------------------
    def py_truthy(self, it, ctx):
        if self.natoms() == 0 or all(d.is_one() for d in self.dims):
            t = self.elem([z3.IntVal(0)] * self.natoms())
            return t if z3.is_bool(t) else (t != 0)
        raise PyRaise(VExc("RuntimeError", "Boolean value of Tensor with more than one value is ambiguous"))

    def py_len(self, it, ctx):
        if not self.dims:
            raise PyRaise(VExc("TypeError", "len() of a 0-d tensor"))
        return VNum(self.dims[0].size)

    def py_eq(self, it, ctx, other):
        return self is other

    def py_getattr(self, it, ctx, name):
        return tensor_getattr(self, it, ctx, name)

    def py_setattr(self, it, ctx, name, v):
        if name == "requires_grad":
            return
        if name == "data" and isinstance(v, VTensor):
            # `p.data = t`: the same tensor object now holds t's storage (shape included)
            src = v.frozen()
            keep = {k_: self.meta[k_] for k_ in ("is_parameter",) if k_ in self.meta}
            self.dims, self.elem, self.sort = list(src.dims), src.elem, src.sort
            self.view_of = None
            self.meta = dict(keep)
            self.meta["version"] = self.meta.get("version", 0) + 1
            return
        self.meta[name] = v

    def py_getitem(self, it, ctx, idx):
        return index_tensor(self, it, ctx, idx)

    def py_setitem(self, it, ctx, idx, v):
        return setitem_tensor(self, it, ctx, idx, v)

    def py_binop(self, it, ctx, op, other, reflected):
        if op == "@":
            return matmul(ctx, other, self) if reflected else matmul(ctx, self, other)
        f = _BIN.get(op)
        if f is None:
            return NotImplemented
        o = as_tensor(other)
        if o is None:
            return NotImplemented
        a, b = (o, self) if reflected else (self, o)
        srt = "real" if op == "/" else ("bool" if op in ("&", "|") else None)
        r = pointwise(ctx, [a, b], lambda x, y: f(ctx, x, y), sort=srt)
        if op == "**" and r.sort == "int" and not (isinstance(other, VNum) and other.is_int):
            r.sort = "real"
        if self.is_linop or (isinstance(other, VTensor) and other.is_linop):
            if (self.is_linop or not isinstance(other, VTensor) or other.is_linop or op in ("+", "-")):
                r.is_linop = True
                r.linop_class = "LinearOperator"
        return r

    def py_ibinop(self, it, ctx, op, other):
        r = self.py_binop(it, ctx, op, other, False)
        if r is NotImplemented:
            return r
        assign_inplace(self, r, ctx)
        return self

    def py_compare(self, it, ctx, op, other, reflected):
        o = as_tensor(other)
        if o is None:
            return NotImplemented
        a, b = (o, self) if reflected else (self, o)
        f = {"<": lambda x, y: x < y, "<=": lambda x, y: x <= y, ">": lambda x, y: x > y, ">=": lambda x, y: x >= y}[op]
        return pointwise(ctx, [a, b], lambda x, y: f(*coerce_pair(x, y)), sort="bool")

    def py_unop(self, it, ctx, op):
        if op == "-":
            return pointwise(ctx, [self], lambda x: -x)
        if op == "+":
            return self
        if op == "~":
            return pointwise(ctx, [self], lambda x: z3.Not(x), sort="bool")
        raise Undecided(f"unary {op} on tensor")

    def py_iter(self, it, ctx):
        n = z3.simplify(self.dims[0].size)
        if not z3.is_int_value(n):
            raise Undecided("iteration over a tensor with symbolic leading extent")
        return [index_tensor(self, it, ctx, VNum(i)) for i in range(n.as_long())]

    def py_float(self, it, ctx):
        return VNum(to_real(self.elem([z3.IntVal(0)] * self.natoms())))

    def py_int(self, it, ctx):
        t = self.elem([z3.IntVal(0)] * self.natoms())
        if z3.is_int(t):
            return VNum(t)
        raise Undecided("int() of real tensor")

    def lift(self):
        raise Undecided("lift tensor")


LINOP_PARENTS = {
    "DiagLinearOperator": ("TriangularLinearOperator",),
    "ConstantDiagLinearOperator": ("DiagLinearOperator",),
    "ZeroLinearOperator": (),
}


def as_tensor(v):
    if isinstance(v, VTensor):
        return v
    if isinstance(v, VNum):
        return VTensor([], lambda idx, t=v.t: t, "int" if v.is_int else "real")
    if isinstance(v, VBool):
        return VTensor([], lambda idx, t=v.t: t, "bool")
    return None


def scalar(t):
    return VTensor([], lambda idx: t, "int" if z3.is_int(t) else ("bool" if z3.is_bool(t) else "real"))


def sort_of_term(t):
    return "int" if z3.is_int(t) else ("bool" if z3.is_bool(t) else "real")


# ------------------------------------------------------------------ broadcasting ------------
def broadcast_dims(ctx, tensors):
    """returns (result dims, per-tensor mapping: list over result dims of ('same'|'one'|'absent'))"""
    rank = max(len(t.dims) for t in tensors)
    res = []
    maps = [[None] * rank for _ in tensors]
    for pos in range(1, rank + 1):
        cands = []
        for ti, t in enumerate(tensors):
            if pos <= len(t.dims):
                cands.append((ti, t.dims[-pos]))
        chosen = None
        for ti, d in cands:
            if chosen is None:
                if not _dim_is_one(ctx, d):
                    chosen = d
        if chosen is None:
            chosen = cands[0][1]
        for ti, d in cands:
            if d is chosen:
                maps[ti][rank - pos] = "same"
                continue
            if _dims_same(ctx, d, chosen):
                maps[ti][rank - pos] = "same" if _atoms_match(ctx, d, chosen) else "reflat"
            elif _dim_is_one(ctx, d):
                maps[ti][rank - pos] = "one"
            else:
                # undetermined relation between two symbolic extents: case split as torch would
                if ctx.branch(d.size == chosen.size):
                    maps[ti][rank - pos] = "same" if _atoms_match(ctx, d, chosen) else "reflat"
                elif ctx.branch(d.size == 1):
                    maps[ti][rank - pos] = "one"
                elif ctx.branch(chosen.size == 1):
                    raise Undecided("late singleton discovery in broadcast")
                else:
                    raise PyRaise(VExc("RuntimeError", f"shape mismatch in broadcast: {d} vs {chosen}"))
        for ti, t in enumerate(tensors):
            if pos > len(t.dims):
                maps[ti][rank - pos] = "absent"
        res.insert(0, chosen)
    return res, maps


def _dim_is_one(ctx, d):
    return is_one(ctx, d.size)


def _dims_same(ctx, a, b):
    return same_extent(ctx, a.size, b.size)


def _atoms_match(ctx, a, b):
    return len(a.atoms) == len(b.atoms) and all(same_extent(ctx, x, y) for x, y in zip(a.atoms, b.atoms))


def pointwise(ctx, tensors, f, sort=None):
    tensors = [(as_tensor(t) if not isinstance(t, VTensor) else t).frozen() for t in tensors]
    dims, maps = broadcast_dims(ctx, tensors)

    def elem(idx):
        # split idx per result dim
        per_dim = []
        p = 0
        for d in dims:
            per_dim.append(idx[p: p + len(d.atoms)])
            p += len(d.atoms)
        vals = []
        for t, mp in zip(tensors, maps):
            tidx = []
            off = len(dims) - len(t.dims)
            for di, d in enumerate(t.dims):
                how = mp[off + di]
                if how == "same":
                    tidx.extend(per_dim[off + di])
                elif how == "reflat":
                    L = flat_index(dims[off + di].atoms, per_dim[off + di])
                    tidx.extend(unflatten(d.atoms, L) if len(d.atoms) > 1 else [L])
                else:  # one
                    tidx.extend([z3.IntVal(0)] * len(d.atoms))
            vals.append(t.elem(tidx))
        return f(*vals)

    if sort is None:
        # no probing evaluation (element functions may record assumptions): arithmetic keeps the widest input sort
        sorts = {t.sort for t in tensors}
        sort = "real" if "real" in sorts else ("int" if "int" in sorts else "bool")
    r = VTensor(dims, elem, sort)
    masks = [t.meta.get("masked_by") for t in tensors if t.meta.get("masked_by") is not None]
    if masks:
        if all(m is masks[0] for m in masks):
            r.meta["masked_by"] = masks[0]
        else:
            raise Undecided("pointwise operation between selections by different masks")
    return r


def _arith(op):
    def f(ctx, x, y):
        x, y = coerce_pair(x, y)
        if z3.is_bool(x):
            x, y = z3.If(x, 1, 0), z3.If(y, 1, 0)
        return op(x, y)

    return f


def _div(ctx, x, y):
    from . import dom_real
    return dom_real.rdiv(ctx, to_real(x), to_real(y))


def _floordiv(ctx, x, y):
    if z3.is_int(x) and z3.is_int(y):
        return py_floordiv(x, y, True)
    raise Undecided("floor division of real tensors")


def _mod(ctx, x, y):
    if z3.is_int(x) and z3.is_int(y):
        return py_mod(x, y, True)
    raise Undecided("modulo of real tensors")


def _pow(ctx, x, y):
    ys = z3.simplify(y)
    if z3.is_int_value(ys) or (z3.is_rational_value(ys) and ys.as_fraction().denominator == 1):
        n = ys.as_long() if z3.is_int_value(ys) else int(ys.as_fraction())
        if 0 <= n <= 8:
            r = z3.IntVal(1) if z3.is_int(x) else z3.RealVal(1)
            for _ in range(n):
                r = r * x
            return r
        if -8 <= n < 0:
            r = z3.RealVal(1)
            for _ in range(-n):
                r = r * to_real(x)
            return 1 / r
    from . import dom_real
    return dom_real.power(ctx, to_real(x), to_real(y))


def _bool_and(ctx, x, y):
    if z3.is_bool(x) and z3.is_bool(y):
        return z3.And(x, y)
    raise Undecided("& on non-bool tensors")


def _bool_or(ctx, x, y):
    if z3.is_bool(x) and z3.is_bool(y):
        return z3.Or(x, y)
    raise Undecided("| on non-bool tensors")


_BIN = {
    "+": _arith(lambda a, b: a + b), "-": _arith(lambda a, b: a - b), "*": _arith(lambda a, b: a * b),
    "/": _div, "//": _floordiv, "%": _mod, "**": _pow, "&": _bool_and, "|": _bool_or,
}


def assign_inplace(dst, src, ctx=None):
    """dst <- src (in-place semantics: same cell)"""
    if dst.view_of is not None:
        base, kind = dst.view_of
        if kind == "diagonal":
            # write through to the base: base[i, j] = src[i] if i == j else old
            old = base.elem
            nb = base.natoms()
            selem = src.elem

            def elem(idx, old=old, selem=selem):
                lead = idx[: nb - 2]
                i, j = idx[nb - 2], idx[nb - 1]
                return z3.If(i == j, _coerce_to(selem(lead + [i]), old(idx)), old(idx))

            base.elem = elem
            dst.elem = src.elem
            return
        if isinstance(kind, tuple) and kind[0] == "diagonal_general":
            _, a1, a2, rest_pos = kind
            old = base.elem
            selem = src.elem

            def elem(idx, old=old, selem=selem):
                return z3.If(idx[a1] == idx[a2], _coerce_to(selem([idx[q] for q in rest_pos] + [idx[a1]]), old(idx)), old(idx))

            base.elem = elem
            dst.elem = src.elem
            return
        raise Undecided(f"in-place operation on a {kind} view")
    dst.dims = list(src.dims) if len(src.dims) >= len(dst.dims) else dst.dims
    dst.elem = src.elem
    dst.sort = src.sort
    for gk in ("inverse_of", "ghost"):
        if gk in src.meta:
            dst.meta[gk] = src.meta[gk]
        else:
            dst.meta.pop(gk, None)
    dst.meta["version"] = dst.meta.get("version", 0) + 1


def _coerce_to(a, like):
    if z3.is_real(like) and z3.is_int(a):
        return z3.ToReal(a)
    return a


# ------------------------------------------------------------------ shape ops ---------------
def norm_dim(ctx, t, d, extra=0):
    """VNum dim argument -> python int position"""
    if isinstance(d, VNum):
        c = d.concrete()
    else:
        c = d
    if c is None:
        raise Undecided("symbolic dim argument")
    r = len(t.dims) + extra
    if c < 0:
        c += r
    if not (0 <= c < max(r, 1)):
        raise PyRaise(VExc("IndexError", f"Dimension out of range ({c} for rank {r})"))
    return c


def _dim_offsets(t):
    offs = []
    p = 0
    for d in t.dims:
        offs.append(p)
        p += len(d.atoms)
    return offs


def permute(t, order):
    t = t.frozen()
    offs = _dim_offsets(t)
    new_dims = [t.dims[o] for o in order]

    def elem(idx):
        # idx is in new order; rebuild old order
        pieces = {}
        p = 0
        for o in order:
            n = len(t.dims[o].atoms)
            pieces[o] = idx[p: p + n]
            p += n
        old = []
        for di in range(len(t.dims)):
            old.extend(pieces[di])
        return t.elem(old)

    r = VTensor(new_dims, elem, t.sort, t.is_linop, linop_class=t.linop_class if t.is_linop else None)
    cp = t.meta.get("cat_parts")
    if cp is not None:
        p, parts, bounds = cp
        r.meta["cat_parts"] = (list(order).index(p), [permute(x, order) for x in parts], bounds)
    return r


def transpose(ctx, t, d0, d1):
    a, b = norm_dim(ctx, t, d0), norm_dim(ctx, t, d1)
    order = list(range(len(t.dims)))
    order[a], order[b] = order[b], order[a]
    return permute(t, order)


def unsqueeze(ctx, t, d):
    t = t.frozen()
    p = norm_dim(ctx, t, d, extra=1)
    offs = _dim_offsets(t) + [t.natoms()]
    cut = offs[p]
    dims = t.dims[:p] + [Dim([1])] + t.dims[p:]
    r = VTensor(dims, lambda idx: t.elem(idx[:cut] + idx[cut + 1:]), t.sort, t.is_linop, linop_class=t.linop_class)
    return r


def squeeze(ctx, t, d=None):
    t = t.frozen()
    if d is None:
        keep = [i for i, dm in enumerate(t.dims) if not _dim_is_one(ctx, dm)]
    else:
        p = norm_dim(ctx, t, d)
        if not _dim_is_one(ctx, t.dims[p]):
            if ctx.branch(t.dims[p].size == 1):
                pass
            else:
                return t
        keep = [i for i in range(len(t.dims)) if i != p]
    offs = _dim_offsets(t)

    def elem(idx):
        old = []
        p = 0
        for i, dm in enumerate(t.dims):
            n = len(dm.atoms)
            if i in keep:
                old.extend(idx[p: p + n])
                p += n
            else:
                old.extend([z3.IntVal(0)] * n)
        return t.elem(old)

    return VTensor([t.dims[i] for i in keep], elem, t.sort, t.is_linop, linop_class=t.linop_class)


def expand(ctx, t, sizes):
    """sizes: list of z3 Int (or -1 literal)"""
    t = t.frozen()
    n_new = len(sizes) - len(t.dims)
    if n_new < 0:
        raise PyRaise(VExc("RuntimeError", "expand: fewer sizes than dims"))
    dims = []
    modes = []
    for i, s in enumerate(sizes):
        ss = z3.simplify(s)
        if i < n_new:
            dims.append(Dim([s]))
            modes.append("new")
            continue
        d = t.dims[i - n_new]
        if z3.is_int_value(ss) and ss.as_long() == -1:
            dims.append(d)
            modes.append("same")
        elif same_extent(ctx, d.size, s):
            dims.append(d)
            modes.append("same")
        elif _dim_is_one(ctx, d):
            dims.append(Dim([s]))
            modes.append("bcast")
        else:
            if ctx.branch(d.size == s):
                dims.append(d)
                modes.append("same")
            elif ctx.branch(d.size == 1):
                dims.append(Dim([s]))
                modes.append("bcast")
            else:
                raise PyRaise(VExc("RuntimeError", f"expand: size {s} does not match {d}"))

    if all(m == "same" for m in modes):
        return t  # expanding to the own shape is the identity (same cell, as in torch)

    def elem(idx):
        old = []
        p = 0
        for d, m in zip(dims, modes):
            n = len(d.atoms)
            if m == "same":
                old.extend(idx[p: p + n])
            elif m == "bcast":
                old.append(z3.IntVal(0))
            p += n
        return t.elem(old)

    return VTensor(dims, elem, t.sort, t.is_linop, linop_class=t.linop_class)


def reshape(ctx, t, sizes):
    """row-major reinterpretation; sizes: list of z3 Int terms, at most one literal -1.
    Target sizes are matched against runs of consecutive source atoms from the left and from the
    right; only an unmatched middle block is re-indexed through its own linear index."""
    t = t.frozen()
    sizes = [z3.simplify(s) for s in sizes]
    neg = [i for i, s in enumerate(sizes) if z3.is_int_value(s) and s.as_long() == -1]
    if len(neg) > 1:
        raise PyRaise(VExc("RuntimeError", "only one dimension can be inferred"))
    src_atoms = t.all_atoms()
    src = list(enumerate(src_atoms))

    def match(sz_list, src_list):
        """greedy left-to-right; returns (runs, n_sizes_matched, n_src_consumed)"""
        runs = []
        p = 0
        for si, s in enumerate(sz_list):
            if z3.is_int_value(s) and s.as_long() == -1:
                return runs, si, p
            if is_one(ctx, s):
                if p < len(src_list) and is_one(ctx, src_list[p][1]):
                    runs.append([src_list[p]])
                    p += 1
                else:
                    runs.append([])
                continue
            run, prod, ok, q = [], None, False, p
            while q < len(src_list) and len(run) < 4:
                a = src_list[q][1]
                run.append(src_list[q])
                prod = a if prod is None else prod * a
                q += 1
                if same_extent(ctx, prod, s):
                    ok = True
                    break
            if not ok:
                return runs, si, p
            runs.append(run)
            p = q
        return runs, len(sz_list), p

    lruns, ls, lp = match(sizes, src)
    if ls == len(sizes) and all(is_one(ctx, a) for _, a in src[lp:]):
        return _regroup(t, src_atoms, lruns)
    rruns_rev, rs, rp = match(list(reversed(sizes[ls:])), list(reversed(src[lp:])))
    # right match walks reversed lists: products are commutative so same_extent still applies
    rruns = [list(reversed(r)) for r in reversed(rruns_rev)]
    mid_sizes = sizes[ls: len(sizes) - rs]
    mid_src = src[lp: len(src) - rp]
    if not mid_sizes:
        if all(is_one(ctx, a) for _, a in mid_src):
            return _regroup(t, src_atoms, lruns + rruns)
        raise PyRaise(VExc("RuntimeError", "reshape: sizes do not cover the tensor"))
    if len(mid_sizes) == 1:
        # one target dim takes the whole unmatched source block (this is where -1 lands, too)
        return _regroup(t, src_atoms, lruns + [mid_src] + rruns)
    # general: re-index the middle block through its linear index
    mid_atoms = [a for _, a in mid_src]
    total = None
    for a in mid_atoms:
        total = a if total is None else total * a
    total = total if total is not None else z3.IntVal(1)
    mid_sizes = list(mid_sizes)
    negm = [i for i, s in enumerate(mid_sizes) if z3.is_int_value(s) and s.as_long() == -1]
    if negm:
        known = None
        for i, s in enumerate(mid_sizes):
            if i != negm[0]:
                known = s if known is None else known * s
        mid_sizes[negm[0]] = z3.simplify(py_floordiv(total, known))
    ldims, lorder = _runs_to_dims(lruns)
    rdims, rorder = _runs_to_dims(rruns)
    n_src = len(src_atoms)
    mid_pos = [i for i, _ in mid_src]
    nl = sum(len(d.atoms) for d in ldims)
    nm = len(mid_sizes)

    def elem(idx):
        old = [z3.IntVal(0)] * n_src
        p = 0
        for d, o in zip(ldims, lorder):
            if o is not None:
                for j, i in enumerate(o):
                    old[i] = idx[p + j]
            p += len(d.atoms)
        L = flat_index(mid_sizes, idx[p: p + nm])
        vals = unflatten(mid_atoms, L) if len(mid_atoms) > 1 else [L]
        for i, v in zip(mid_pos, vals):
            old[i] = v
        p += nm
        for d, o in zip(rdims, rorder):
            if o is not None:
                for j, i in enumerate(o):
                    old[i] = idx[p + j]
            p += len(d.atoms)
        return t.elem(old)

    return VTensor(ldims + [Dim([s]) for s in mid_sizes] + rdims, elem, t.sort)


def _runs_to_dims(runs):
    dims, order = [], []
    for run in runs:
        if not run:
            dims.append(Dim([1]))
            order.append(None)
        else:
            dims.append(Dim([a for _, a in run]))
            order.append([i for i, _ in run])
    return dims, order


def _regroup(t, src_atoms, runs):
    dims = []
    order = []
    for run in runs:
        if not run:
            dims.append(Dim([1]))
            order.append(None)
        else:
            dims.append(Dim([a for _, a in run]))
            order.append([i for i, _ in run])
    used = {i for o in order if o for i in o}
    n_src = len(src_atoms)

    def elem(idx):
        old = [z3.IntVal(0)] * n_src
        p = 0
        for d, o in zip(dims, order):
            if o is None:
                p += 1
                continue
            for j, i in enumerate(o):
                old[i] = idx[p + j]
            p += len(o)
        return t.elem(old)

    return VTensor(dims, elem, t.sort)


def flatten_dim(t, p):
    """make dim p single-atom (introduces div/mod)"""
    t = t.frozen()
    d = t.dims[p]
    if len(d.atoms) == 1:
        return t
    offs = _dim_offsets(t)
    cut = offs[p]
    n = len(d.atoms)
    dims = t.dims[:p] + [Dim([d.size])] + t.dims[p + 1:]

    def elem(idx):
        return t.elem(idx[:cut] + unflatten(d.atoms, idx[cut]) + idx[cut + 1:])

    return VTensor(dims, elem, t.sort, t.is_linop, linop_class=t.linop_class)


# ------------------------------------------------------------------ indexing ----------------
def slice_params(ctx, s, n):
    """python slice semantics on a dim of extent n (z3 Int): returns (start, count, step) z3 terms.
    torch rejects step <= 0 (ValueError), modelled as the function's own error path."""
    from .values import opt_int_term
    step = opt_int_term(None, ctx, s.step, lambda: z3.IntVal(1))
    if not ctx.branch(step > 0):
        raise PyRaise(VExc("ValueError", "step must be greater than zero"))

    def clampn(v):
        v = z3.If(v < 0, v + n, v)
        return z3.If(v < 0, 0, z3.If(v > n, n, v))

    st = opt_int_term(None, ctx, s.start, lambda: z3.IntVal(0), clampn)
    en = opt_int_term(None, ctx, s.stop, lambda: n, clampn)
    sstep = z3.simplify(step)
    if z3.is_int_value(sstep) and sstep.as_long() == 1:
        cnt = z3.If(en > st, en - st, 0)
    else:
        cnt = z3.If(en > st, py_floordiv(en - st + step - 1, step), 0)
    # name the three quantities (definitional equalities in the path condition, memoised per term) so
    # that downstream terms stay small
    out = [ctx.define("sl_start", st), ctx.define("sl_count", cnt), ctx.define("sl_step", step)]
    ctx.assume(z3.And(out[1] >= 0, out[0] >= 0, out[0] <= n))
    return out[0], out[1], out[2]


def index_tensor(t, it, ctx, idx):
    if isinstance(idx, VTensor) and idx.sort == "bool" and len(idx.dims) == len(t.dims):
        return m_masked_select(t, it, ctx, [idx], {})
    t = t.frozen()
    items = list(idx.items) if isinstance(idx, VTuple) else [idx]
    items = [x.force(it, ctx) if isinstance(x, VAny) else x for x in items]
    # bool / list indices
    items = [tensor_from_list(ctx, x) if isinstance(x, VList) else x for x in items]
    n_consuming = sum(1 for x in items if x is not NONE and x is not ELLIPSIS)
    if sum(1 for x in items if x is ELLIPSIS) > 1:
        raise PyRaise(VExc("IndexError", "an index can only have a single ellipsis"))
    if n_consuming > len(t.dims):
        raise PyRaise(VExc("IndexError", "too many indices for tensor"))
    if any(x is ELLIPSIS for x in items):
        e = next(i for i, x in enumerate(items) if x is ELLIPSIS)
        fill = [VSlice(NONE, NONE, NONE)] * (len(t.dims) - n_consuming)
        items = items[:e] + fill + items[e + 1:]
    else:
        items = items + [VSlice(NONE, NONE, NONE)] * (len(t.dims) - n_consuming)
    # x[..., mask] with a boolean mask over the trailing dims (all other items full slices): the selection is kept in place, tagged with
    # its mask (see m_masked_select): an entry outside the mask is never observed
    bools = [x for x in items if isinstance(x, VTensor) and x.sort == "bool"]
    if len(bools) == 1 and all(x is bools[0] or (isinstance(x, VSlice) and x.start is NONE and x.stop is NONE and x.step is NONE) for x in items):
        mask = bools[0]
        pos = next(i_ for i_, x in enumerate(items) if x is mask)
        if len(items) - 1 + len(mask.dims) == len(t.dims):
            r = VTensor(list(t.dims), t.elem, t.sort)
            r.meta = {"masked_by": mask, "masked_at": pos}
            return r
    # multi-atom dims touched by a non-trivial index are flattened first
    src = t
    pos = 0
    for x in items:
        if x is NONE:
            continue
        trivial = isinstance(x, VSlice) and x.start is NONE and x.stop is NONE and x.step is NONE
        if not trivial and len(src.dims[pos].atoms) > 1:
            src = flatten_dim(src, pos)
        pos += 1
    t = src
    # plan
    plan = []  # per item: (kind, data)
    pos = 0
    adv = []
    for x in items:
        if x is NONE:
            plan.append(("new", None))
            continue
        d = t.dims[pos]
        n = d.size
        if isinstance(x, VSlice):
            if x.start is NONE and x.stop is NONE and x.step is NONE:
                plan.append(("keep", pos))
            else:
                st, cnt, step = slice_params(ctx, x, n)
                plan.append(("slice", (pos, st, cnt, step)))
        elif isinstance(x, VNum) and x.is_int:
            i = x.t
            i2 = z3.If(i < 0, i + n, i)
            if not ctx.branch(z3.And(i2 >= 0, i2 < n)):
                raise PyRaise(VExc("IndexError", "index out of range"))
            plan.append(("int", (pos, z3.simplify(i2))))
        elif isinstance(x, VBool):
            raise Undecided("boolean scalar index")
        elif isinstance(x, VTensor):
            if x.sort == "bool":
                raise Undecided("boolean mask index")
            if x.sort != "int":
                raise PyRaise(VExc("IndexError", "tensors used as indices must be long"))
            if x.natoms() == 0:
                i = x.elem([])
                i2 = z3.If(i < 0, i + n, i)
                plan.append(("int", (pos, i2)))
            else:
                plan.append(("adv", (pos, x, n)))
                adv.append(len(plan) - 1)
        else:
            raise Undecided(f"index of kind {x.kind}")
        pos += 1
    adv_dims = []
    adv_maps = None
    if adv:
        adv_tensors = [plan[i][1][1] for i in adv]
        adv_dims, adv_maps = broadcast_dims(ctx, adv_tensors)
        adjacent = all(b - a == 1 for a, b in zip(adv, adv[1:]))
        # ints between advanced indices also count as advanced in numpy; keep the simple rule
        adv_at = adv[0] if adjacent else 0
    # result dims
    res_dims = []
    build = []  # sequence of instructions consuming result atoms
    for pi, (kind, data) in enumerate(plan):
        if adv and pi == adv_at and (adjacent or pi == 0):
            pass
        if kind == "new":
            res_dims.append(Dim([1]))
            build.append(("skip", 1))
        elif kind == "keep":
            res_dims.append(t.dims[data])
            build.append(("keep", data, len(t.dims[data].atoms)))
        elif kind == "slice":
            p, st, cnt, step = data
            res_dims.append(Dim([cnt]))
            build.append(("slice", p, st, step))
        elif kind == "int":
            build.append(("int", data[0], data[1]))
        elif kind == "adv":
            if pi == adv[0]:
                if adjacent:
                    res_dims.extend(adv_dims)
                    build.append(("advblock", sum(len(d.atoms) for d in adv_dims)))
                else:
                    build.append(("advblock_front",))
            build.append(("adv", data[0], adv.index(pi), data[2]))
    if adv and not adjacent:
        res_dims = adv_dims + res_dims
    n_adv_atoms = sum(len(d.atoms) for d in adv_dims)
    offs = _dim_offsets(t)
    nat = t.natoms()

    def elem(idx):
        old = [None] * nat
        p = 0
        adv_idx = None
        if adv and not adjacent:
            adv_idx = idx[:n_adv_atoms]
            p = n_adv_atoms
        for ins in build:
            if ins[0] == "skip":
                p += 1
            elif ins[0] == "keep":
                _, dpos, n = ins
                for j in range(n):
                    old[offs[dpos] + j] = idx[p + j]
                p += n
            elif ins[0] == "slice":
                _, dpos, st, step = ins
                old[offs[dpos]] = st + idx[p] * step
                p += 1
            elif ins[0] == "int":
                old[offs[ins[1]]] = ins[2]
            elif ins[0] == "advblock":
                adv_idx = idx[p: p + ins[1]]
                p += ins[1]
            elif ins[0] == "advblock_front":
                pass
            elif ins[0] == "adv":
                _, dpos, ai, n = ins
                xt = adv_tensors[ai]
                # map broadcast adv index -> this index tensor's own index
                per_dim = []
                q = 0
                for d in adv_dims:
                    per_dim.append(adv_idx[q: q + len(d.atoms)])
                    q += len(d.atoms)
                off = len(adv_dims) - len(xt.dims)
                tidx = []
                for di, d in enumerate(xt.dims):
                    how = adv_maps[ai][off + di]
                    if how == "same":
                        tidx.extend(per_dim[off + di])
                    elif how == "reflat":
                        L = flat_index(adv_dims[off + di].atoms, per_dim[off + di])
                        tidx.extend(unflatten(d.atoms, L) if len(d.atoms) > 1 else [L])
                    else:
                        tidx.extend([z3.IntVal(0)] * len(d.atoms))
                v = xt.elem(tidx)
                old[offs[dpos]] = z3.If(v < 0, v + n, v)
        return t.elem(old)

    r = VTensor(res_dims, elem, t.sort, t.is_linop and len(res_dims) >= 2, linop_class="LinearOperator" if t.is_linop else None)
    r.meta["index_source"] = t
    return r


def tensor_from_list(ctx, lst):
    items = lst.items
    if all(isinstance(x, VNum) for x in items):
        terms = [x.t for x in items]
        allint = all(z3.is_int(x) for x in terms)
        terms = [x if allint else to_real(x) for x in terms]

        def elem(idx):
            r = terms[-1]
            for j in range(len(terms) - 2, -1, -1):
                r = z3.If(idx[0] == j, terms[j], r)
            return r

        return VTensor([Dim([len(terms)])], elem, "int" if allint else "real")
    if all(isinstance(x, VTensor) for x in items):
        return stack(ctx, items, 0)
    if all(isinstance(x, (VList, VTuple)) for x in items):
        return stack(ctx, [tensor_from_list(ctx, VList(list(x.items))) for x in items], 0)
    raise Undecided("tensor from heterogeneous list")


def setitem_tensor(t, it, ctx, idx, v):
    if isinstance(idx, VTensor) and idx.sort == "bool" and len(idx.dims) == len(t.dims):
        src = as_tensor(v)
        if src.natoms() > 0 and src.meta.get("masked_by") is not idx:
            raise Undecided("mask assignment from a source that was not selected by the same mask")
        old, me = t.elem, idx.elem
        se = src.elem if src.natoms() > 0 else (lambda i_: src.elem([]))

        def elem(i_):
            n, o = coerce_pair(se(i_), old(i_))
            return z3.If(me(i_), n, o)

        t.elem = elem
        t.sort = "real" if "real" in (t.sort, src.sort) else t.sort
        t.meta["version"] = t.meta.get("version", 0) + 1
        return
    # x[...] = v  /  x[:] = v  /  x[:, ...] = v : every element is overwritten by v broadcast to x's shape (write-through for views)
    full = lambda x: x is ELLIPSIS or (isinstance(x, VSlice) and x.start is NONE and x.stop is NONE and x.step is NONE)  # noqa: E731
    every = [idx] if not isinstance(idx, VTuple) else list(idx.items)
    if every and all(full(x) for x in every) and sum(1 for x in every if x is ELLIPSIS) <= 1 and (
            len(every) <= len(t.dims) or (len(every) == len(t.dims) + 1 and any(x is ELLIPSIS for x in every))):
        src = as_tensor(v).frozen()
        if len(src.dims) > len(t.dims):
            raise Undecided("assignment of a higher-rank tensor")
        cur = t.frozen()
        bro = pointwise(ctx, [cur, src], lambda a, b: b)
        if len(bro.dims) != len(cur.dims) or not all(same_extent(ctx, x.size, y.size) for x, y in zip(bro.dims, cur.dims)):
            raise Undecided("assignment that would have to broadcast the destination")
        if [len(d.atoms) for d in bro.dims] != [len(d.atoms) for d in t.dims]:
            raise Undecided("assignment across differently factored dimensions")
        new = VTensor(list(t.dims), bro.elem, "real" if "real" in (t.sort, src.sort) else src.sort)
        assign_inplace(t, new, ctx)
        return
    # x[..., i, a:b, :] = v : integer positions, unit-step slices and full slices (one Ellipsis at most): the selected sub-block is overwritten by v
    # (broadcast to the block), everything else is kept
    is_sl = lambda x: isinstance(x, VSlice)  # noqa: E731
    if every and all(x is ELLIPSIS or is_sl(x) or isinstance(x, VNum) for x in every) and any((isinstance(x, VNum) or (is_sl(x) and not full(x))) for x in every) \
            and sum(1 for x in every if x is ELLIPSIS) <= 1 and t.view_of is None:
        nd = len(t.dims)
        explicit = [x for x in every if x is not ELLIPSIS]
        if len(explicit) > nd:
            raise PyRaise(VExc("IndexError", "too many indices for tensor"))
        if any(x is ELLIPSIS for x in every):
            e = next(q for q, x in enumerate(every) if x is ELLIPSIS)
            per_dim = every[:e] + [VSlice(NONE, NONE, NONE)] * (nd - len(explicit)) + every[e + 1:]
        else:
            per_dim = every + [VSlice(NONE, NONE, NONE)] * (nd - len(every))
        cur = t.frozen()
        for q_, x in enumerate(per_dim):
            if not full(x) and len(cur.dims[q_].atoms) != 1:
                cur = flatten_dim(cur, q_)
        offs = _dim_offsets(cur)
        fixed = []   # (atom position, index term)
        ranged = []  # (atom position, start, count)
        sub_dims = []
        sub_map = []  # per kept atom: (position in the destination index, offset to subtract)
        for q_, x in enumerate(per_dim):
            n_ = cur.dims[q_].size
            if isinstance(x, VNum):
                ix = z3.If(x.t < 0, x.t + n_, x.t)
                fixed.append((offs[q_], z3.simplify(ix)))
            elif full(x):
                sub_dims.append(cur.dims[q_])
                for a_ in range(len(cur.dims[q_].atoms)):
                    sub_map.append((offs[q_] + a_, None))
            else:
                st, cnt, step = slice_params(ctx, x, n_)
                if not ctx.entails(step == 1):
                    raise Undecided("slice assignment with a step")
                ranged.append((offs[q_], st, cnt))
                sub_dims.append(Dim([z3.simplify(cnt)]))
                sub_map.append((offs[q_], st))
        src = as_tensor(v).frozen()
        like = VTensor(sub_dims, lambda i_: z3.IntVal(0), "int")
        bro = pointwise(ctx, [like, src], lambda a_, b_: b_)
        if len(bro.dims) != len(sub_dims) or [len(d_.atoms) for d_ in bro.dims] != [len(d_.atoms) for d_ in sub_dims]:
            raise Undecided("block assignment whose source does not broadcast to the block")
        old_elem = cur.elem
        real = "real" in (cur.sort, src.sort)

        def elem(i_):
            conds = [i_[pos] == ix for pos, ix in fixed] + [z3.And(i_[pos] >= st, i_[pos] < st + cnt) for pos, st, cnt in ranged]
            cond = z3.And(*conds) if conds else z3.BoolVal(True)
            sidx = [(i_[pos] if off is None else i_[pos] - off) for pos, off in sub_map]
            n_, o_ = coerce_pair(bro.elem(sidx), old_elem(i_))
            return z3.If(cond, n_, o_)

        t.dims = list(cur.dims)
        t.elem = elem
        t.sort = "real" if real else cur.sort
        t.meta["version"] = t.meta.get("version", 0) + 1
        return
    # x[..., mask] = v  /  x[:, mask] = v : a boolean mask over the trailing dims, everything before it a full slice / Ellipsis
    items = list(idx.items) if isinstance(idx, VTuple) else None
    if items and isinstance(items[-1], VTensor) and items[-1].sort == "bool" and all(
            x is ELLIPSIS or (isinstance(x, VSlice) and x.start is NONE and x.stop is NONE and x.step is NONE) for x in items[:-1]):
        mask = items[-1]
        k = len(mask.dims)
        lead_atoms = sum(len(d.atoms) for d in t.dims[: len(t.dims) - k])
        src = as_tensor(v)
        if src.natoms() > 0 and src.meta.get("masked_by") is not mask:
            raise Undecided("mask assignment from a source that was not selected by the same mask")
        old, me = t.elem, mask.elem
        src = src.frozen()
        nsrc = src.natoms()

        def elem(i_):
            sv = src.elem(list(i_)[len(i_) - nsrc:]) if nsrc else src.elem([])
            n, o = coerce_pair(sv, old(i_))
            return z3.If(me(list(i_)[lead_atoms:]), n, o)

        t.elem = elem
        t.sort = "real" if "real" in (t.sort, src.sort) else t.sort
        t.meta["version"] = t.meta.get("version", 0) + 1
        return
    raise Undecided("tensor slice assignment")


# ------------------------------------------------------------------ combining ---------------
def stack(ctx, tensors, dim):
    tensors = [as_tensor(x).frozen() for x in tensors]
    dims, maps = broadcast_dims(ctx, tensors)
    exp = [pointwise(ctx, [t] + [VTensor(dims, lambda idx: z3.IntVal(0), "int")], lambda a, b: a) if len(t.dims) != len(dims) else t for t in tensors]
    base = exp[0]
    p = dim if dim >= 0 else dim + len(base.dims) + 1
    offs = _dim_offsets(base) + [base.natoms()]
    cut = offs[p]
    k = len(exp)

    def elem(idx):
        sel = idx[cut]
        rest = idx[:cut] + idx[cut + 1:]
        vals = [e.elem(rest) for e in exp]
        srt = vals[0].sort()
        vals = [to_real(x) if any(z3.is_real(y) for y in vals) else x for x in vals]
        r = vals[-1]
        for j in range(k - 2, -1, -1):
            r = z3.If(sel == j, vals[j], r)
        return r

    return VTensor(base.dims[:p] + [Dim([k])] + base.dims[p:], elem, base.sort)


def cat(ctx, tensors, dim):
    tensors = [flatten_for_cat(t.frozen(), dim) for t in tensors]
    base = tensors[0]
    p = dim if dim >= 0 else dim + len(base.dims)
    offs = _dim_offsets(base)
    cut = offs[p]
    sizes = [t.dims[p].size for t in tensors]
    total = sizes[0]
    for s in sizes[1:]:
        total = total + s
    bounds = []
    acc = z3.IntVal(0)
    for s in sizes:
        bounds.append(acc)
        acc = acc + s

    def elem(idx):
        i = idx[cut]
        vals = []
        for t, b in zip(tensors, bounds):
            vals.append(t.elem(idx[:cut] + [i - b] + idx[cut + 1:]))
        if any(z3.is_real(x) for x in vals):
            vals = [to_real(x) for x in vals]
        r = vals[-1]
        for j in range(len(vals) - 2, -1, -1):
            r = z3.If(i < bounds[j + 1], vals[j], r)
        return r

    dims = list(base.dims)
    dims[p] = Dim([z3.simplify(total)])
    r = VTensor(dims, elem, base.sort)
    r.meta["cat_parts"] = (p, tensors, bounds)
    return r


def flatten_for_cat(t, dim):
    p = dim if dim >= 0 else dim + len(t.dims)
    return flatten_dim(t, p)


def reduce_sum(ctx, t, dim, keepdim=False, mean=False):
    t = t.frozen()
    p = norm_dim(ctx, t, dim)
    t = flatten_dim(t, p)
    offs = _dim_offsets(t)
    cut = offs[p]
    n = t.dims[p].size
    dims = t.dims[:p] + ([Dim([1])] if keepdim else []) + t.dims[p + 1:]

    def elem(idx):
        if keepdim:
            pre, post = idx[:cut], idx[cut + 1:]
        else:
            pre, post = idx[:cut], idx[cut:]
        s = mk_sum(lambda k: _num(t.elem(pre + [k] + post)), n)
        if mean:
            return to_real(s) / z3.ToReal(n)
        return s

    return VTensor(dims, elem, "real" if (mean or t.sort == "real") else "int")


def _num(x):
    if z3.is_bool(x):
        return z3.If(x, z3.IntVal(1), z3.IntVal(0))
    return x


def matmul(ctx, a, b):
    a, b = as_tensor(a), as_tensor(b)
    if a is None or b is None:
        raise Undecided("matmul with non-tensor")
    a, b = a.frozen(), b.frozen()
    ca, cb = a.meta.get("cat_parts"), b.meta.get("cat_parts")
    if ca is not None and cb is not None and len(a.dims) >= 2 and len(b.dims) >= 2 \
            and ca[0] == len(a.dims) - 1 and cb[0] == len(b.dims) - 2 and len(ca[1]) == len(cb[1]) \
            and all(same_extent(ctx, x.dims[ca[0]].size, y.dims[cb[0]].size) for x, y in zip(ca[1], cb[1])):
        total = None
        for x, y in zip(ca[1], cb[1]):
            x2 = VTensor(list(x.dims), x.elem, x.sort)
            y2 = VTensor(list(y.dims), y.elem, y.sort)
            part = matmul(ctx, x2, y2)
            total = part if total is None else pointwise(ctx, [total, part], lambda u, v: coerce_pair(u, v)[0] + coerce_pair(u, v)[1])
        return total
    va = len(a.dims) == 1
    vb = len(b.dims) == 1
    if va:
        a = unsqueeze(ctx, a, 0)
    if vb:
        b = unsqueeze(ctx, b, -1)
    a = flatten_dim(a, len(a.dims) - 1)
    b = flatten_dim(b, len(b.dims) - 2)
    ka, kb = a.dims[-1].size, b.dims[-2].size
    if not same_extent(ctx, ka, kb):
        if not ctx.branch(ka == kb):
            raise PyRaise(VExc("RuntimeError", f"matmul: inner sizes differ ({ka} vs {kb})"))
    abatch = VTensor(a.dims[:-2], lambda idx: z3.IntVal(0), "int")
    bbatch = VTensor(b.dims[:-2], lambda idx: z3.IntVal(0), "int")
    bdims, maps = broadcast_dims(ctx, [abatch, bbatch]) if (a.dims[:-2] or b.dims[:-2]) else ([], [[], []])
    rowd, cold = a.dims[-2], b.dims[-1]
    nb = sum(len(d.atoms) for d in bdims)
    nr = len(rowd.atoms)

    def batch_idx(t_dims, mp, per_dim):
        off = len(bdims) - len(t_dims)
        out = []
        for di, d in enumerate(t_dims):
            how = mp[off + di]
            if how == "same":
                out.extend(per_dim[off + di])
            elif how == "reflat":
                L = flat_index(bdims[off + di].atoms, per_dim[off + di])
                out.extend(unflatten(d.atoms, L) if len(d.atoms) > 1 else [L])
            else:
                out.extend([z3.IntVal(0)] * len(d.atoms))
        return out

    def elem(idx):
        per_dim = []
        p = 0
        for d in bdims:
            per_dim.append(idx[p: p + len(d.atoms)])
            p += len(d.atoms)
        ai = batch_idx(a.dims[:-2], maps[0], per_dim) if bdims else []
        bi = batch_idx(b.dims[:-2], maps[1], per_dim) if bdims else []
        r = idx[nb: nb + nr]
        c = idx[nb + nr:]
        return mk_sum(lambda k: _mulc(a.elem(ai + r + [k]), b.elem(bi + [k] + c)), ka)

    res = VTensor(bdims + [rowd, cold], elem, "real" if "real" in (a.sort, b.sort) else "int",
                  is_linop=(a.is_linop and b.is_linop), linop_class="LinearOperator")
    if vb:
        res = squeeze(ctx, res, -1)
    if va:
        res = squeeze(ctx, res, -2 if not vb else -1)
    return res


def _mulc(x, y):
    x, y = coerce_pair(_num(x), _num(y))
    return x * y


def diagonal(ctx, t, dim1=-2, dim2=-1):
    p1, p2 = norm_dim(ctx, t, dim1), norm_dim(ctx, t, dim2)
    if {p1, p2} != {len(t.dims) - 2, len(t.dims) - 1}:
        return _diagonal_general(ctx, t, p1, p2)
    lead = t.dims[:-2]
    nl = sum(len(d.atoms) for d in lead)
    d = t.dims[-1]
    n1 = len(t.dims[-2].atoms)
    if not _atoms_match(ctx, t.dims[-2], t.dims[-1]):
        t = flatten_dim(flatten_dim(t, len(t.dims) - 1), len(t.dims) - 2)
        d = Dim([z3.If(t.dims[-2].size < t.dims[-1].size, t.dims[-2].size, t.dims[-1].size)]) if not same_extent(ctx, t.dims[-2].size, t.dims[-1].size) else t.dims[-1]
        n1 = 1
    reader = lambda belem, idx: belem(idx[:nl] + idx[nl:] + idx[nl:])  # noqa: E731
    r = VTensor(lead + [d], lambda idx: reader(t.elem, idx), t.sort)
    r.view_of = (t, "diagonal")
    r.view_read = reader
    return r


def _diagonal_general(ctx, t, p1, p2):
    """torch.diagonal over arbitrary dims: remaining dims in order, the diagonal appended last"""
    if p1 == p2:
        raise PyRaise(VExc("RuntimeError", "diagonal dimensions cannot be identical"))
    if len(t.dims[p1].atoms) != 1 or len(t.dims[p2].atoms) != 1:
        t = flatten_dim(flatten_dim(t, max(p1, p2)), min(p1, p2))
    offs, o = [], 0
    for dd in t.dims:
        offs.append(o)
        o += len(dd.atoms)
    e1, e2 = t.dims[p1].size, t.dims[p2].size
    d = t.dims[p1] if same_extent(ctx, e1, e2) else Dim([z3.If(e1 < e2, e1, e2)])
    rest = [q for q in range(len(t.dims)) if q not in (p1, p2)]
    base = t

    def reader(belem, idx):
        full = [None] * base.natoms()
        pos = 0
        for q in rest:
            for a in range(len(base.dims[q].atoms)):
                full[offs[q] + a] = idx[pos]
                pos += 1
        full[offs[p1]] = idx[pos]
        full[offs[p2]] = idx[pos]
        return belem(full)

    r = VTensor([t.dims[q] for q in rest] + [d], lambda idx: reader(base.elem, idx), t.sort)
    r.view_read = reader
    r.view_of = (t, ("diagonal_general", offs[p1], offs[p2], [offs[q] + a for q in rest for a in range(len(t.dims[q].atoms))]))
    return r


def diag_embed(ctx, v):
    v = v.frozen()
    lead = v.dims[:-1]
    nl = sum(len(d.atoms) for d in lead)
    d = v.dims[-1]
    n = len(d.atoms)
    zero = z3.RealVal(0) if v.sort == "real" else z3.IntVal(0)

    def elem(idx):
        i = idx[nl: nl + n]
        j = idx[nl + n:]
        same = z3.And(*[a == b for a, b in zip(i, j)])
        return z3.If(same, v.elem(idx[:nl] + i), zero)

    return VTensor(lead + [d, d], elem, v.sort)


def full(dims, term):
    return VTensor(dims, lambda idx: term, sort_of_term(term))


def eye_like(dims2, sort="real"):
    one, zero = (z3.RealVal(1), z3.RealVal(0)) if sort == "real" else (z3.IntVal(1), z3.IntVal(0))
    n = len(dims2[0].atoms)
    return VTensor(dims2, lambda idx: z3.If(z3.And(*[a == b for a, b in zip(idx[:n], idx[n:])]), one, zero), sort)


# ------------------------------------------------------------------ attribute / method table --
def _shape_args(it, ctx, a):
    """view(2, 3) / view((2, 3)) / view(torch.Size) -> list of z3 Int"""
    if len(a) == 1 and isinstance(a[0], (VTuple, VList)):
        a = list(a[0].items)
    out = []
    for x in a:
        if isinstance(x, VAny):
            x = x.force(it, ctx)
        if isinstance(x, VNum) and x.is_int:
            out.append(x.t)
        elif isinstance(x, VTensor) and x.natoms() == 0 and x.sort == "int":
            out.append(x.elem([]))
        else:
            raise Undecided(f"shape argument of kind {x.kind}")
    return out


def _unary(name, f, sort=None):
    def m(t, it, ctx, a, k):
        return pointwise(ctx, [t], lambda x: f(ctx, x), sort=sort)

    return m


def _realfn(name):
    def f(ctx, x):
        from . import dom_real
        return dom_real.apply(ctx, name, to_real(x))

    return f


def _is_inf(t, sign):
    """the symbol INF (optable_torch) or its negation: no float lies beyond it, so clamping at it is the identity"""
    t = z3.simplify(t) if isinstance(t, z3.ExprRef) else t
    if not isinstance(t, z3.ExprRef):
        return False
    if sign > 0:
        return z3.is_const(t) and t.decl().name() == "INF"
    return (z3.is_app_of(t, z3.Z3_OP_UMINUS) and _is_inf(t.arg(0), 1)) or (z3.is_mul(t) and t.num_args() == 2 and z3.is_rational_value(t.arg(0)) and t.arg(0).numerator_as_long() == -1
                                                                         and t.arg(0).denominator_as_long() == 1 and _is_inf(t.arg(1), 1))


def _clamp(ctx, x, lo, hi):
    r = x
    if lo is not None and _is_inf(lo, -1):
        lo = None
    if hi is not None and _is_inf(hi, 1):
        hi = None
    if lo is not None:
        r, l2 = coerce_pair(r, lo)
        r = z3.If(r < l2, l2, r)
    if hi is not None:
        r, h2 = coerce_pair(r, hi)
        r = z3.If(r > h2, h2, r)
    return r


def _opt_term(v):
    if v is None or v is NONE:
        return None
    if isinstance(v, VNum):
        return v.t
    if isinstance(v, VTensor):
        return v
    raise Undecided("clamp bound kind")


def m_clamp(t, it, ctx, a, k):
    lo = a[0] if len(a) > 0 else k.get("min", NONE)
    hi = a[1] if len(a) > 1 else k.get("max", NONE)
    ts = [t]
    lo_t, hi_t = _opt_term(lo), _opt_term(hi)
    args = [t]
    if isinstance(lo_t, VTensor):
        args.append(lo_t)
    if isinstance(hi_t, VTensor):
        args.append(hi_t)

    def f(x, *rest):
        rest = list(rest)
        l = rest.pop(0) if isinstance(lo_t, VTensor) else lo_t
        h = rest.pop(0) if isinstance(hi_t, VTensor) else hi_t
        return _clamp(ctx, x, l, h)

    return pointwise(ctx, args, f)


def _inplace(m):
    def f(t, it, ctx, a, k):
        r = m(t, it, ctx, a, k)
        assign_inplace(t, r, ctx)
        return t

    return f


def _binm(op):
    def m(t, it, ctx, a, k):
        other = a[0] if a else k.get("other")
        alpha = k.get("alpha")
        if alpha is not None:
            other = it.binop(ctx, "*", other, alpha)
        return it.binop(ctx, op, t, other)

    return m


def _cmpm(op):
    def m(t, it, ctx, a, k):
        if op == "==":
            return pointwise(ctx, [t, as_tensor(a[0])], lambda x, y: _eqc(x, y), sort="bool")
        if op == "!=":
            return pointwise(ctx, [t, as_tensor(a[0])], lambda x, y: z3.Not(_eqc(x, y)), sort="bool")
        return t.py_compare(it, ctx, op, a[0], False)

    return m


def _eqc(x, y):
    x, y = coerce_pair(x, y)
    return x == y


def m_sum(t, it, ctx, a, k, mean=False):
    dim = a[0] if a else k.get("dim", k.get("axis"))
    keep = k.get("keepdim", a[1] if len(a) > 1 else FALSE)
    keep = bool(keep.concrete()) if isinstance(keep, VBool) else False
    if (dim is None or dim is NONE) and t.sort == "bool" and t.natoms() > 0 and not mean:
        # the number of True entries: a fresh count c >= 0 with the universally valid fact  elem(idx) => c >= 1  (recorded,
        # instantiated by the contract at the indices it reasons about) and a Skolem witness for  c > 0 => some entry is True
        cnt = z3.Int(fresh("count"))
        tf = t.frozen()

        def fact(idx, tf=tf, cnt=cnt):
            return z3.Implies(tf.in_range(idx), z3.Implies(tf.elem(list(idx)), cnt >= 1))

        ctx.ghost.setdefault("forall_facts", []).append((tf.natoms(), fact))
        ks = [ivar("w") for _ in range(tf.natoms())]
        ctx.assume(z3.And(cnt >= 0, z3.Implies(cnt > 0, z3.And(tf.in_range(ks), tf.elem(list(ks))))))
        ctx.ghost.setdefault("witnesses", []).append(ks)
        return VTensor([], lambda idx: cnt, "int")
    if dim is None or dim is NONE:
        r = t
        for _ in range(len(t.dims)):
            r = reduce_sum(ctx, r, -1, False, False)
        if mean:
            n = z3.IntVal(1)
            for d in t.dims:
                n = n * d.size
            return pointwise(ctx, [r], lambda x: to_real(x) / z3.ToReal(n))
        return r
    if isinstance(dim, (VTuple, VList)):
        ds = sorted([norm_dim(ctx, t, d) for d in dim.items], reverse=True)
        r = t
        for d in ds:
            r = reduce_sum(ctx, r, d, keep, mean)
        return r
    return reduce_sum(ctx, t, dim, keep, mean)


def m_any_all(is_any):
    def m(t, it, ctx, a, k):
        dim = a[0] if a else k.get("dim")
        if dim is None or dim is NONE:
            # full reduction: a fresh Bool p with the universally valid fact
            #   any:  elem(idx) => p        all:  p => elem(idx)          (for every in-range idx)
            # recorded on the path and instantiated by the contract at the indices it reasons about
            # (the converse direction is omitted: fewer proofs, never a wrong one)
            if t.natoms() == 0:
                e0 = t.elem([])
                return VTensor([], lambda idx: e0 if z3.is_bool(e0) else (e0 != 0), "bool")
            p = z3.Bool(fresh("any" if is_any else "all"))

            def fact(idx, t=t, p=p):
                e = t.elem(list(idx))
                e = e if z3.is_bool(e) else (e != 0)
                return z3.Implies(t.in_range(idx), z3.Implies(e, p) if is_any else z3.Implies(p, e))

            ctx.ghost.setdefault("forall_facts", []).append((t.natoms(), fact))
            # the converse direction by a Skolem witness: any: p => elem(k*), all: not p => not elem(k*)
            ks = [ivar("w") for _ in range(t.natoms())]
            ew = t.elem(list(ks))
            ew = ew if z3.is_bool(ew) else (ew != 0)
            if is_any:
                ctx.assume(z3.Implies(p, z3.And(t.in_range(ks), ew)))
            else:
                ctx.assume(z3.Implies(z3.Not(p), z3.And(t.in_range(ks), z3.Not(ew))))
            ctx.ghost.setdefault("witnesses", []).append(ks)
            return VTensor([], lambda idx: p, "bool")
        if ctx.ghost.get("any_dim_as_predicate"):
            # reduction over one dim as a fresh predicate P(rest) with the universally valid facts  any: elem(full) => P(rest)
            # (all: P(rest) => elem(full)), instantiated by the contract, and a Skolem witness along the reduced dim for the converse
            t = t.frozen()
            pdim = norm_dim(ctx, t, dim)
            if len(t.dims[pdim].atoms) != 1:
                t = flatten_dim(t, pdim)
            off = sum(len(d.atoms) for d in t.dims[:pdim])
            nrest = t.natoms() - 1
            P = z3.Function(fresh("anyd" if is_any else "alld"), *([z3.IntSort()] * nrest + [z3.BoolSort()])) if nrest else None
            p0 = z3.Bool(fresh("anyd0")) if not nrest else None
            W = z3.Function(fresh("wit"), *([z3.IntSort()] * nrest + [z3.IntSort()])) if nrest else None
            w0 = ivar("w") if not nrest else None
            n_red = t.dims[pdim].size

            def bval(e):
                return e if z3.is_bool(e) else (e != 0)

            def pred(rest):
                return P(*rest) if nrest else p0

            def fact(idx, t=t):
                rest = list(idx[:off]) + list(idx[off + 1:])
                e = bval(t.elem(list(idx)))
                return z3.Implies(t.in_range(idx), z3.Implies(e, pred(rest)) if is_any else z3.Implies(pred(rest), e))

            ctx.ghost.setdefault("forall_facts", []).append((t.natoms(), fact))

            def elem(rest, t=t):
                rest = list(rest)
                w = W(*rest) if nrest else w0
                e = bval(t.elem(rest[:off] + [w] + rest[off:]))
                if is_any:
                    ctx.assume(z3.Implies(pred(rest), z3.And(w >= 0, w < n_red, e)))
                else:
                    ctx.assume(z3.Implies(z3.Not(pred(rest)), z3.And(w >= 0, w < n_red, z3.Not(e))))
                return pred(rest)

            return VTensor(t.dims[:pdim] + t.dims[pdim + 1:], elem, "bool")
        cnt = m_sum(pointwise(ctx, [t], lambda x: z3.If(x if z3.is_bool(x) else x != 0, z3.IntVal(1), z3.IntVal(0)), sort="int"),
                    it, ctx, [dim] if dim is not None else [], {})
        if is_any:
            return pointwise(ctx, [cnt], lambda x: x > 0, sort="bool")
        n = z3.IntVal(1)
        if dim is None:
            for d in t.dims:
                n = n * d.size
        else:
            n = t.dims[norm_dim(ctx, t, dim)].size
        return pointwise(ctx, [cnt], lambda x: x == n, sort="bool")

    return m


def m_view(t, it, ctx, a, k):
    return reshape(ctx, t, _shape_args(it, ctx, a))


def m_expand(t, it, ctx, a, k):
    return expand(ctx, t, _shape_args(it, ctx, a))


def m_permute(t, it, ctx, a, k):
    if len(a) == 1 and isinstance(a[0], (VTuple, VList)):
        a = list(a[0].items)
    order = [norm_dim(ctx, t, x) for x in a]
    return permute(t, order)


def m_size(t, it, ctx, a, k):
    if a or "dim" in k:
        d = a[0] if a else k["dim"]
        if t.meta.get("masked_by") is not None:
            ext = t.visible_extents()
            cd = d.concrete() if isinstance(d, VNum) else d
            if cd is None or not (-len(ext) <= cd < len(ext)):
                raise PyRaise(VExc("IndexError", "Dimension out of range"))
            return VNum(ext[cd])
        return VNum(t.dims[norm_dim(ctx, t, d)].size)
    return t.shape_tuple()


def m_identity(t, it, ctx, a, k):
    return t


def m_clone(t, it, ctx, a, k):
    return t.copy()


def m_repeat(t, it, ctx, a, k):
    t = t.frozen()
    reps = _shape_args(it, ctx, a)
    if len(reps) < len(t.dims):
        raise PyRaise(VExc("RuntimeError", "repeat: too few repeat dims"))
    src = t
    while len(src.dims) < len(reps):
        src = unsqueeze(ctx, src, 0)
    src2 = src
    for p in range(len(src2.dims)):
        src2 = flatten_dim(src2, p)
    sizes = [d.size for d in src2.dims]
    dims = [Dim([z3.simplify(r * s)]) for r, s in zip(reps, sizes)]

    def elem(idx):
        return src2.elem([i if (z3.is_int_value(z3.simplify(r)) and z3.simplify(r).as_long() == 1) else py_mod(i, s)
                          for i, s, r in zip(idx, sizes, reps)])

    return VTensor(dims, elem, t.sort, t.is_linop, linop_class=t.linop_class)


def m_fill_(t, it, ctx, a, k):
    v = a[0]
    term = v.t if isinstance(v, VNum) else v.elem([])
    assign_inplace(t, VTensor(t.dims, lambda idx: _coerce_to(term, z3.RealVal(0)) if t.sort == "real" else term, t.sort), ctx)
    return t


def m_masked_fill(t, it, ctx, a, k):
    mask, v = a[0], a[1]
    vt = as_tensor(v)
    return pointwise(ctx, [t, mask, vt], lambda x, m, y: z3.If(m, *reversed(coerce_pair(x, y))) if False else z3.If(m, coerce_pair(y, x)[0], coerce_pair(x, y)[0]))


def m_item(t, it, ctx, a, k):
    v = t.elem([z3.IntVal(0)] * t.natoms())
    return VBool(v) if z3.is_bool(v) else VNum(v)


def m_diagonal(t, it, ctx, a, k):
    d1 = k.get("dim1", a[1] if len(a) > 1 else VNum(-2))
    d2 = k.get("dim2", a[2] if len(a) > 2 else VNum(-1))
    if not t.is_linop and not (len(a) > 1 or "dim1" in k):
        return diagonal(ctx, t, 0, 1)
    return diagonal(ctx, t, d1, d2)


def m_add_jitter(t, it, ctx, a, k):
    t = t.frozen()
    j = a[0] if a else k.get("jitter_val", VNum(1e-3))
    jt = to_real(j.t)
    n = len(t.dims[-2].atoms)
    nl = t.natoms() - 2 * n if _atoms_match(ctx, t.dims[-2], t.dims[-1]) else None
    if nl is None:
        raise Undecided("add_jitter on mismatched square structure")

    def elem(idx):
        i, j2 = idx[nl: nl + n], idx[nl + n:]
        return t.elem(idx) + z3.If(z3.And(*[x == y for x, y in zip(i, j2)]), jt, z3.RealVal(0))

    return VTensor(t.dims, elem, "real", True, linop_class="LinearOperator")


def m_add_diagonal(t, it, ctx, a, k):
    d = a[0]
    de = diag_embed(ctx, d if len(d.dims) >= 1 else unsqueeze(ctx, d, 0))
    if len(d.dims) == 0 or _dim_is_one(ctx, d.dims[-1]):
        ey = eye_like(t.dims[-2:])
        dd = d if len(d.dims) == 0 else squeeze(ctx, d, -1)
        de = pointwise(ctx, [ey, unsqueeze(ctx, unsqueeze(ctx, dd, -1), -1) if len(dd.dims) else dd], lambda e, v: e * to_real(v))
    r = pointwise(ctx, [t, de], lambda x, y: to_real(x) + to_real(y))
    r.is_linop = True
    r.linop_class = "LinearOperator"
    return r


def m_type_as(t, it, ctx, a, k):
    return t


def m_dim(t, it, ctx, a, k):
    return VNum(len(t.dims))


def m_numel(t, it, ctx, a, k):
    n = z3.IntVal(1)
    for d in t.dims:
        n = n * d.size
    return VNum(z3.simplify(n))


def m_unsqueeze(t, it, ctx, a, k):
    return unsqueeze(ctx, t, a[0] if a else k["dim"])


def m_squeeze(t, it, ctx, a, k):
    return squeeze(ctx, t, a[0] if a else k.get("dim"))


def m_transpose(t, it, ctx, a, k):
    return transpose(ctx, t, a[0], a[1])


def m_matmul(t, it, ctx, a, k):
    return matmul(ctx, t, a[0])


def m_to_dense(t, it, ctx, a, k):
    r = t.copy(is_linop=False, linop_class=None)
    return r


def m_to_linop(t):
    return t.copy(is_linop=True, linop_class=t.linop_class or "DenseLinearOperator")


def m_flatten(t, it, ctx, a, k):
    return reshape(ctx, t, [z3.IntVal(-1)])


def m_where(t, it, ctx, a, k):
    return where(ctx, t, a[0], a[1])


def where(ctx, c, x, y):
    return pointwise(ctx, [c, as_tensor(x), as_tensor(y)], lambda cc, a, b: z3.If(cc, *coerce_pair(a, b)))


METHODS = {
    "size": m_size, "dim": m_dim, "ndimension": m_dim, "numel": m_numel, "view": m_view, "reshape": m_view,
    "expand": m_expand, "permute": m_permute, "transpose": m_transpose, "unsqueeze": m_unsqueeze, "squeeze": m_squeeze,
    "contiguous": m_identity, "clone": m_clone, "detach": m_identity, "to": m_identity, "type": m_identity,
    "type_as": m_type_as, "double": m_identity, "float": m_identity, "cpu": m_identity, "cuda": m_identity,
    "requires_grad_": m_identity, "long": m_identity, "evaluate_kernel": m_identity, "to_dense": m_to_dense,
    "evaluate": m_to_dense, "add": _binm("+"), "sub": _binm("-"), "mul": _binm("*"), "div": _binm("/"),
    "true_divide": _binm("/"), "pow": _binm("**"), "matmul": m_matmul, "mm": m_matmul, "bmm": m_matmul,
    "neg": _unary("neg", lambda c, x: -x), "abs": _unary("abs", lambda c, x: z3.If(x >= 0, x, -x)),
    "square": _unary("square", lambda c, x: x * x),
    "floor": _unary("floor", lambda c, x: x if z3.is_int(x) else z3.ToReal(z3.ToInt(x))),
    "exp": _unary("exp", _realfn("exp"), "real"), "log": _unary("log", _realfn("log"), "real"),
    "sqrt": _unary("sqrt", _realfn("sqrt"), "real"), "rsqrt": _unary("rsqrt", lambda c, x: 1 / _realfn("sqrt")(c, x), "real"),
    "sin": _unary("sin", _realfn("sin"), "real"), "cos": _unary("cos", _realfn("cos"), "real"),
    "tanh": _unary("tanh", _realfn("tanh"), "real"), "sigmoid": _unary("sigmoid", _realfn("sigmoid"), "real"),
    "log1p": _unary("log1p", _realfn("log1p"), "real"), "expm1": _unary("expm1", _realfn("expm1"), "real"),
    "erf": _unary("erf", _realfn("erf"), "real"), "reciprocal": _unary("reciprocal", lambda c, x: 1 / to_real(x), "real"),
    "isnan": _unary("isnan", lambda c, x: (to_real(x) == NANV) if (c is not None and c.ghost.get("nan_model")) else z3.BoolVal(False), "bool"),
    "nan_to_num": lambda t, it, ctx, a, k: pointwise(ctx, [t], lambda x: z3.If(to_real(x) == NANV, to_real(k.get("nan", a[0] if a else VNum(0.0)).t), to_real(x))
                                                     if ctx.ghost.get("nan_model") else x, sort="real"),
    "clamp": m_clamp, "clamp_min": lambda t, it, ctx, a, k: m_clamp(t, it, ctx, [a[0] if a else k["min"], NONE], {}),
    "clamp_max": lambda t, it, ctx, a, k: m_clamp(t, it, ctx, [NONE, a[0] if a else k["max"]], {}),
    "lt": _cmpm("<"), "le": _cmpm("<="), "gt": _cmpm(">"), "ge": _cmpm(">="), "eq": _cmpm("=="), "ne": _cmpm("!="),
    "sum": m_sum, "mean": lambda t, it, ctx, a, k: m_sum(t, it, ctx, a, k, mean=True),
    "any": m_any_all(True), "all": m_any_all(False), "repeat": m_repeat, "item": m_item, "diagonal": m_diagonal,
    "add_jitter": m_add_jitter, "add_diagonal": m_add_diagonal, "flatten": m_flatten, "masked_fill": m_masked_fill,
    "where": m_where, "expand_as": lambda t, it, ctx, a, k: expand(ctx, t, [d.size for d in a[0].dims]),
    "view_as": lambda t, it, ctx, a, k: reshape(ctx, t, [d.size for d in a[0].dims]),
}
def _m_tri(lower):
    def m(t, it, ctx, a, k):
        dg = a[0] if a else k.get("diagonal", VNum(0))
        off = dg.t if isinstance(dg, VNum) else z3.IntVal(int(dg))
        t = t.frozen()
        if len(t.dims) < 2:
            raise PyRaise(VExc("RuntimeError", "tril: input tensor must have at least 2 dimensions"))
        if len(t.dims[-2].atoms) != 1 or len(t.dims[-1].atoms) != 1:
            t = flatten_dim(flatten_dim(t, len(t.dims) - 1), len(t.dims) - 2)
        zero = z3.RealVal(0) if t.sort == "real" else (z3.BoolVal(False) if t.sort == "bool" else z3.IntVal(0))

        def elem(idx):
            i, j = idx[-2], idx[-1]
            keep = (j - i <= off) if lower else (j - i >= off)
            return z3.If(keep, t.elem(idx), zero)

        return VTensor(list(t.dims), elem, t.sort)

    return m


def m_t(t, it, ctx, a, k):
    if len(t.dims) > 2:
        raise PyRaise(VExc("RuntimeError", "t() expects a tensor with <= 2 dimensions"))
    return t if len(t.dims) < 2 else transpose(ctx, t, 0, 1)


def m_index_select(t, it, ctx, a, k):
    """x.index_select(dim, index): index is a 1-d integer tensor"""
    dim = a[0] if a else k["dim"]
    index = a[1] if len(a) > 1 else k["index"]
    t = t.frozen()
    index = as_tensor(index).frozen()
    if len(index.dims) != 1:
        raise PyRaise(VExc("IndexError", "index_select(): Index is supposed to be a vector"))
    p = norm_dim(ctx, t, dim)
    if len(t.dims[p].atoms) != 1:
        t = flatten_dim(t, p)
    off = sum(len(d.atoms) for d in t.dims[:p])
    n = t.dims[p].size

    def elem(idx):
        j = index.elem([idx[off]])
        ctx.assume(z3.And(j >= 0, j < n), "index_select: indices are in range (torch raises otherwise)")
        return t.elem(idx[:off] + [j] + idx[off + 1:])

    return VTensor(t.dims[:p] + [index.dims[0]] + t.dims[p + 1:], elem, t.sort)


def m_to(t, it, ctx, a, k):
    """.to(dtype) / .float() / .double(): value identity, except that a boolean tensor becomes the 0/1 real tensor"""
    if t.sort == "bool":
        args = list(a) + list(k.values())
        wants_float = (not args) or any(isinstance(x, VAtom) and str(getattr(x, "name", x)).split(".")[-1] in ("float", "double", "half", "float32", "float64", "bfloat16") for x in args)
        if wants_float:
            return pointwise(ctx, [t], lambda x: z3.If(x, z3.RealVal(1), z3.RealVal(0)), sort="real")
    return t


METHODS["to"] = m_to
METHODS["float"] = lambda t, it, ctx, a, k: m_to(t, it, ctx, [], {})
METHODS["double"] = lambda t, it, ctx, a, k: m_to(t, it, ctx, [], {})
METHODS["index_select"] = m_index_select
METHODS["__getitem__"] = lambda t, it, ctx, a, k: index_tensor(t, it, ctx, a[0])
METHODS["t"] = m_t


def m_select(t, it, ctx, a, k):
    """x.select(dim, index) = x[:, ..., index, ...] with the integer index at position dim"""
    dim = a[0] if a else k["dim"]
    index = a[1] if len(a) > 1 else k["index"]
    p = norm_dim(ctx, t, dim)
    full = VSlice(NONE, NONE, NONE)
    return index_tensor(t, it, ctx, VTuple([full] * p + [index]))


METHODS["select"] = m_select
METHODS["tril"] = _m_tri(True)
METHODS["triu"] = _m_tri(False)
for _n in ("add", "sub", "mul", "div", "pow", "neg", "abs", "exp", "log", "sqrt", "clamp", "clamp_min", "clamp_max", "square",
           "masked_fill", "sigmoid", "tanh", "reciprocal", "tril", "triu"):
    METHODS[_n + "_"] = _inplace(METHODS[_n])
def m_masked_select(t, it, ctx, a, k):
    """the entries selected by a boolean mask, kept in place: all operations between masked_select and
    masked_scatter_ / mask assignment are pointwise, so the selection is represented as the full-shape tensor
    tagged with its mask (an entry outside the mask is never observed)"""
    mask = a[0]
    r = VTensor(list(t.dims), t.elem, t.sort)
    r.meta = {"masked_by": mask}
    return r


def m_masked_scatter_(t, it, ctx, a, k):
    mask, src = a[0], a[1]
    if src.meta.get("masked_by") is not mask:
        raise Undecided("masked_scatter_ with a source that was not selected by the same mask")
    old, se, me = t.elem, src.elem, mask.elem

    def elem(idx):
        o, n = old(idx), se(idx)
        n, o = coerce_pair(n, o)
        return z3.If(me(idx), n, o)

    t.elem = elem
    t.sort = "real" if "real" in (t.sort, src.sort) else t.sort
    t.meta["version"] = t.meta.get("version", 0) + 1
    return t


def m_tolist(t, it, ctx, a, k):
    n = z3.simplify(t.dims[0].size)
    if len(t.dims) != 1 or not z3.is_int_value(n):
        raise Undecided("tolist of a tensor of symbolic size")
    out = []
    for i in range(n.as_long()):
        v = z3.simplify(t.elem([z3.IntVal(i)]))
        out.append(VBool(v) if z3.is_bool(v) else VNum(v))
    return VList(out)


METHODS["masked_select"] = m_masked_select
METHODS["masked_scatter_"] = m_masked_scatter_
METHODS["tolist"] = m_tolist
METHODS["fill_"] = m_fill_
METHODS["copy_"] = lambda t, it, ctx, a, k: (assign_inplace(t, a[0], ctx), t)[1]


def tensor_getattr(t, it, ctx, name):
    if name == "shape":
        return t.shape_tuple()
    if name in ("dtype",):
        return t.meta.get("dtype", VAtom("torch.double" if t.sort == "real" else ("torch.long" if t.sort == "int" else "torch.bool")))
    if name == "device":
        return VAtom("device:cpu")
    if name in ("ndim",):
        return VNum(len(t.dims))
    if name == "requires_grad":
        return VBool(bool(t.requires_grad))
    if name == "is_cuda":
        return FALSE
    if name == "grad_fn":
        return NONE
    if name in ("T", "mT"):
        return transpose(ctx, t, -2, -1)
    if name == "data":
        return t
    if name == "batch_shape":
        return VTuple([VNum(d.size) for d in t.dims[:-2]], is_size=True)
    if name == "matrix_shape":
        return VTuple([VNum(d.size) for d in t.dims[-2:]], is_size=True)
    if name == "batch_dim":
        return VNum(len(t.dims) - 2)
    if name in t.meta and name not in ("uf", "cat_parts", "index_source", "version", "inverse_of", "ghost", "chol_of"):
        return t.meta[name]
    ext = it.optable.get("tensor_method." + name)
    if ext is not None:
        return VBuiltin("Tensor." + name, lambda it2, ctx2, a, k: ext(t, it2, ctx2, a, k))
    m = METHODS.get(name)
    if m is not None:
        it.optable_log.add(("linear_operator." if t.is_linop else "torch.Tensor.") + name)
        return VBuiltin("Tensor." + name, lambda it2, ctx2, a, k: m(t, it2, ctx2, a, k))
    raise Undecided(f"{'LinearOperator' if t.is_linop else 'Tensor'}.{name} (no op-table entry)")


# ------------------------------------------------------------------ symbolic inputs ---------
def sym_tensor(name, extents, sort="real", is_linop=False, symmetric=False):
    """an arbitrary tensor: uninterpreted function of its (flat, per-dim) indices.
    extents: list of z3 Int terms (one atom per dim).  symmetric=True: symmetric in its last two
    indices by construction (U(.., min, max)) -- for covariance matrices."""
    zs = {"real": z3.RealSort(), "int": z3.IntSort(), "bool": z3.BoolSort()}[sort]
    f = z3.Function(name, *([z3.IntSort()] * len(extents) + [zs])) if extents else None
    c = z3.Const(name, zs) if not extents else None

    def elem(idx):
        if not extents:
            return c
        # canonical sum-of-monomials form of the index polynomials: equal index expressions become
        # syntactically equal applications (congruence instead of nonlinear reasoning)
        idx = [z3.simplify(i) for i in idx]
        if symmetric:
            p, q = idx[-2], idx[-1]
            return f(*(list(idx[:-2]) + [z3.If(p <= q, p, q), z3.If(p <= q, q, p)]))
        return f(*idx)

    t = VTensor([Dim([e]) for e in extents], elem, sort, is_linop,
                label=name, linop_class="DenseLinearOperator" if is_linop else None)
    t.meta["uf"] = f
    return t


def resolve_ites(ctx, t, budget=200):
    """t with (1) the slice-start / slice-count symbols replaced by their defining terms (equalities of the path condition), (2) every If whose condition the path
    condition decides replaced by the chosen branch, and (3) every integer div / mod subterm that the path condition pins to one constant replaced by it
    (index arithmetic of tensors assembled by block assignments, views and gathers, read at an index the contract fixes).  Sound: only entailed facts are used."""
    subs = []
    for f in ctx.pc:
        conj = f.children() if z3.is_and(f) else [f]
        for g in conj:
            if z3.is_eq(g):
                l, r = g.children()
                for a_, b_ in ((l, r), (r, l)):
                    if z3.is_const(a_) and a_.decl().kind() == z3.Z3_OP_UNINTERPRETED and a_.decl().name().startswith(("sl_start", "sl_count")) and not _contains(b_, a_):
                        subs.append((a_, b_))
                        break
    for _ in range(3):
        if subs:
            t = z3.substitute(t, *subs)
    t = z3.simplify(t)
    cache = {}
    left = [budget]
    # index conditions depend on the integer facts of the path condition only: a solver over that subset (weaker premises: still sound) answers much faster
    # than the full one, which also carries the ground axioms of exp / log / reciprocals
    _real_free = {}

    def real_free(e):
        k = e.get_id()
        if k not in _real_free:
            _real_free[k] = (e.sort().kind() != z3.Z3_REAL_SORT) and all(real_free(x) for x in e.children())
        return _real_free[k]

    isolv = z3.Solver()
    isolv.set("timeout", 20000)
    isolv.set("rlimit", 4000000)  # deterministic cut-off (see Ctx)
    for f in ctx.pc:
        for g in (f.children() if z3.is_and(f) else [f]):
            if real_free(g):
                isolv.add(g)

    class _I:
        solver = isolv

        @staticmethod
        def entails(f):
            isolv.push()
            isolv.add(z3.Not(f))
            r = isolv.check()
            isolv.pop()
            return r == z3.unsat

    ctx = _I

    def pinned(e):
        """an integer constant c with pc |= e == c, if one model value turns out to be forced"""
        if left[0] <= 0:
            return None
        left[0] -= 1
        if ctx.solver.check() != z3.sat:
            return None
        v = ctx.solver.model().eval(e, model_completion=True)
        if z3.is_int_value(v) and ctx.entails(e == v):
            return v
        return None

    def go(e):
        k = e.get_id()
        if k in cache:
            return cache[k]
        if z3.is_app_of(e, z3.Z3_OP_ITE):
            c_, a_, b_ = e.children()
            c2 = go(c_)
            r = None
            if left[0] > 0:
                left[0] -= 1
                if ctx.entails(c2):
                    r = go(a_)
                elif ctx.entails(z3.Not(c2)):
                    r = go(b_)
            if r is None:
                r = z3.If(c2, go(a_), go(b_))
        elif z3.is_app(e) and e.num_args() > 0:
            ch = [go(x) for x in e.children()]
            r = e.decl()(*ch) if any(not x.eq(y) for x, y in zip(ch, e.children())) else e
            if z3.is_app_of(r, z3.Z3_OP_IDIV) or z3.is_app_of(r, z3.Z3_OP_MOD):
                a_, b_ = r.children()
                if left[0] > 0 and ctx.entails(z3.And(a_ >= 0, a_ < b_)):
                    left[0] -= 1
                    r = z3.IntVal(0) if z3.is_app_of(r, z3.Z3_OP_IDIV) else a_  # 0 <= a < b: a div b = 0, a mod b = a
                else:
                    v = pinned(r)
                    if v is not None:
                        r = v
        else:
            r = e
        cache[k] = r
        return r

    return z3.simplify(go(t))
