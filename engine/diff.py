"""diff.py -- symbolic differentiation of z3 real terms (for checking hand-written backward passes).

d/dx of terms built from + - * / by constants, recip, exp, log, sqrt, sin, cos and uninterpreted applications that do
not mention x.  Anything else raises (the obligation is then undecided, never wrong).
"""
from __future__ import annotations

import z3


class NotDifferentiable(Exception):
    pass


def _mentions(t, x):
    xid = x.get_id()
    seen, stack = set(), [t]
    while stack:
        y = stack.pop()
        i = y.get_id()
        if i in seen:
            continue
        seen.add(i)
        if i == xid:
            return True
        stack.extend(y.children())
    return False


def d(t, x):
    if not _mentions(t, x):
        return z3.RealVal(0)
    if t.eq(x):
        return z3.RealVal(1)
    k = t.decl().kind()
    ch = t.children()
    if k == z3.Z3_OP_ADD:
        return z3.Sum([d(c, x) for c in ch])
    if k == z3.Z3_OP_SUB:
        r = d(ch[0], x)
        for c in ch[1:]:
            r = r - d(c, x)
        return r
    if k == z3.Z3_OP_UMINUS:
        return -d(ch[0], x)
    if k == z3.Z3_OP_MUL:
        total = z3.RealVal(0)
        for i, c in enumerate(ch):
            dc = d(c, x)
            term = dc
            for j, o in enumerate(ch):
                if j != i:
                    term = term * o
            total = total + term
        return total
    if k == z3.Z3_OP_DIV:
        u, v = ch
        if _mentions(v, x):
            return (d(u, x) * v - u * d(v, x)) / (v * v)
        return d(u, x) / v
    if k == z3.Z3_OP_ITE:
        if _mentions(ch[0], x):
            raise NotDifferentiable("condition depends on the variable")
        return z3.If(ch[0], d(ch[1], x), d(ch[2], x))
    if k == z3.Z3_OP_UNINTERPRETED:
        n = t.decl().name()
        u = ch[0] if ch else None
        if n == "recip":
            return -t * t * d(u, x)
        if n == "exp":
            return t * d(u, x)
        if n == "log":
            return d(u, x) / u
        if n == "sqrt":
            return d(u, x) / (2 * t)
        if n == "Phi":  # standard normal CDF: d Phi(u) = phi(u) du, phi(u) = exp(-u^2/2) / sqrt(2 pi)
            EXP = z3.Function("exp", z3.RealSort(), z3.RealSort())
            SQRT = z3.Function("sqrt", z3.RealSort(), z3.RealSort())
            return EXP(-(u * u) / 2) / SQRT(2 * z3.Real("pi")) * d(u, x)
        if n == "sin":
            return z3.Function("cos", z3.RealSort(), z3.RealSort())(u) * d(u, x)
        if n == "cos":
            return -z3.Function("sin", z3.RealSort(), z3.RealSort())(u) * d(u, x)
    raise NotDifferentiable(f"no derivative rule for {t.decl().name()}")
