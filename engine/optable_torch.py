"""optable_torch.py -- assumed contracts of torch / linear_operator operations (DESIGN section 4).

Every entry here is an *assumption* about a dependency (its documented meaning); each one used
by a run is listed in that run's evidence under coverage.trusted_base.
"""
from __future__ import annotations

import z3

from .values import (
    FALSE, NONE, TRUE, PyRaise, Undecided, V, VAny, VAtom, VBool, VBuiltin, VDict, VExc, VExtClass, VList,
    VNum, VObj, VOpaque, VSlice, VStr, VTuple,
)

T = {}


def op(*names):
    def deco(f):
        for n in names:
            T[n] = f
        return f

    return deco


# ---- dtypes: aliases are the same object in torch ------------------------------------------
_DT = {"float": "float", "float32": "float", "double": "double", "float64": "double", "half": "half",
       "float16": "half", "long": "long", "int64": "long", "int": "int", "int32": "int", "bool": "bool",
       "bfloat16": "bfloat16"}
for _k, _v in _DT.items():
    T["torch." + _k] = VAtom("torch." + _v)


@op("torch.is_tensor")
def _is_tensor(it, ctx, a, k):
    x = a[0]
    if isinstance(x, VAny):
        # a value of unknown kind that is None / bool / number / atom is not a tensor
        return FALSE
    return VBool(bool(getattr(x, "is_tensor", False)))


@op("torch.Size")
def _size(it, ctx, a, k):
    if not a:
        return VTuple([], is_size=True)
    return VTuple(it.iterate(ctx, a[0]), is_size=True)
