"""optable_torch.py -- assumed contracts of torch / linear_operator operations (DESIGN section 4).

Every entry here is an *assumption* about a dependency (its documented meaning); each one used
by a run is listed in that run's evidence under coverage.trusted_base.
"""
from __future__ import annotations

import z3

from .values import (
    FALSE, NONE, TRUE, PyRaise, Undecided, V, VAny, VAtom, VBool, VBuiltin, VDict, VExc, VExtClass, VList,
    VNum, VObj, VOpaque, VSlice, VStr, VTuple,
)

T = {}


def op(*names):
    def deco(f):
        for n in names:
            T[n] = f
        return f

    return deco


# ---- dtypes: aliases are the same object in torch ------------------------------------------
_DT = {"float": "float", "float32": "float", "double": "double", "float64": "double", "half": "half",
       "float16": "half", "long": "long", "int64": "long", "int": "int", "int32": "int", "bool": "bool",
       "bfloat16": "bfloat16"}
for _k, _v in _DT.items():
    T["torch." + _k] = VAtom("torch." + _v)


@op("torch.is_tensor")
def _is_tensor(it, ctx, a, k):
    x = a[0]
    if isinstance(x, VAny):
        # a value of unknown kind that is None / bool / number / atom is not a tensor
        return FALSE
    return VBool(bool(getattr(x, "is_tensor", False)))


@op("torch.Size")
def _size(it, ctx, a, k):
    if not a:
        return VTuple([], is_size=True)
    return VTuple(it.iterate(ctx, a[0]), is_size=True)


# ============================================================================ tensors ========
from . import dom_elem as E  # noqa: E402
from .dom_elem import Dim, VTensor, as_tensor  # noqa: E402


def _int_term(x):
    if isinstance(x, VNum) and x.is_int:
        return x.t
    if isinstance(x, VTensor) and x.natoms() == 0 and x.sort == "int":
        return x.elem([])
    raise Undecided(f"integer argument of kind {x.kind}")


@op("torch.arange")
def _arange(it, ctx, a, k):
    a = [x for x in a]
    if len(a) == 1:
        start, end, step = z3.IntVal(0), _int_term(a[0]), z3.IntVal(1)
    elif len(a) == 2:
        start, end, step = _int_term(a[0]), _int_term(a[1]), z3.IntVal(1)
    else:
        start, end, step = _int_term(a[0]), _int_term(a[1]), _int_term(a[2])
    if not ctx.branch(step > 0):
        raise Undecided("arange with non-positive step")
    s1 = z3.simplify(step)
    if z3.is_int_value(s1) and s1.as_long() == 1:
        cnt = z3.If(end > start, end - start, 0)
    else:
        from .values import py_floordiv
        cnt = z3.If(end > start, py_floordiv(end - start + step - 1, step), 0)
    return VTensor([Dim([z3.simplify(cnt)])], lambda idx: start + idx[0] * step, "int")


@op("torch.meshgrid")
def _meshgrid(it, ctx, a, k):
    if len(a) == 1 and isinstance(a[0], (VTuple, VList)):
        a = list(a[0].items)
    ix = k.get("indexing")
    if ix is None or not isinstance(ix, VStr) or ix.s != "ij":
        raise Undecided("meshgrid without indexing='ij'")
    ts = [as_tensor(x) for x in a]
    dims = [t.dims[0] for t in ts]
    offs = []
    p = 0
    for d in dims:
        offs.append((p, len(d.atoms)))
        p += len(d.atoms)
    outs = []
    for j, t in enumerate(ts):
        o, n = offs[j]
        outs.append(VTensor(list(dims), (lambda idx, t=t, o=o, n=n: t.elem(idx[o:o + n])), t.sort))
    return VTuple(outs)


@op("torch.stack")
def _stack(it, ctx, a, k):
    dim = a[1] if len(a) > 1 else k.get("dim", VNum(0))
    return E.stack(ctx, it.iterate(ctx, a[0]), dim.concrete())


@op("torch.cat")
def _cat(it, ctx, a, k):
    dim = a[1] if len(a) > 1 else k.get("dim", VNum(0))
    return E.cat(ctx, [as_tensor(x) for x in it.iterate(ctx, a[0])], dim.concrete())


def _creation(term_of_sort):
    def f(it, ctx, a, k):
        sizes = E._shape_args(it, ctx, a)
        return E.full([Dim([s]) for s in sizes], term_of_sort)

    return f


T["torch.zeros"] = _creation(z3.RealVal(0))
T["torch.ones"] = _creation(z3.RealVal(1))
T["torch.empty"] = _creation(z3.RealVal(0))


@op("torch.full")
def _full(it, ctx, a, k):
    """torch.full(size, fill_value)"""
    size = a[0] if a else k["size"]
    fv = a[1] if len(a) > 1 else k["fill_value"]
    sizes = E._shape_args(it, ctx, [size])
    term = E.to_real(fv.t) if isinstance(fv, VNum) else as_tensor(fv).elem([])
    return E.full([Dim([s_]) for s_ in sizes], term)


@op("torch.zeros_like")
def _zeros_like(it, ctx, a, k):
    return E.full(list(a[0].dims), z3.RealVal(0) if a[0].sort == "real" else z3.IntVal(0))


@op("torch.ones_like")
def _ones_like(it, ctx, a, k):
    return E.full(list(a[0].dims), z3.RealVal(1) if a[0].sort == "real" else z3.IntVal(1))


@op("torch.eye")
def _eye(it, ctx, a, k):
    n = _int_term(a[0])
    m = _int_term(a[1]) if len(a) > 1 else n
    return VTensor([Dim([n]), Dim([m])], lambda idx: z3.If(idx[0] == idx[1], z3.RealVal(1), z3.RealVal(0)), "real")


@op("torch.tensor", "torch.as_tensor")
def _tensor(it, ctx, a, k):
    x = a[0]
    if isinstance(x, VTensor):
        return x
    if isinstance(x, (VNum, VBool)):
        return as_tensor(x)
    if isinstance(x, (VList, VTuple)):
        return E.tensor_from_list(ctx, VList(list(x.items)))
    raise Undecided("torch.tensor of " + x.kind)


@op("torch.broadcast_shapes")
def _broadcast_shapes(it, ctx, a, k):
    shapes = []
    for s in a:
        shapes.append([x.t for x in it.iterate(ctx, s)])
    dummies = [VTensor([Dim([e]) for e in sh], lambda idx: z3.IntVal(0), "int") for sh in shapes]
    if not dummies:
        return VTuple([], is_size=True)
    dims, _ = E.broadcast_dims(ctx, dummies)
    return VTuple([VNum(d.size) for d in dims], is_size=True)


@op("torch.equal")
def _equal(it, ctx, a, k):
    x, y = a
    if x is y:
        return TRUE
    h = it.optable.get("hook.torch.equal")
    if h is not None:
        return h(it, ctx, a, k)
    raise Undecided("torch.equal of distinct symbolic tensors (contract must supply a hook)")


@op("torch.where")
def _where(it, ctx, a, k):
    return E.where(ctx, a[0], a[1], a[2])


@op("torch.matmul", "torch.mm", "torch.bmm")
def _matmul(it, ctx, a, k):
    return E.matmul(ctx, a[0], a[1])


@op("torch.diag_embed")
def _diag_embed(it, ctx, a, k):
    return E.diag_embed(ctx, a[0])


@op("torch.is_tensor")
def _is_tensor2(it, ctx, a, k):
    x = a[0]
    if isinstance(x, VTensor):
        return VBool(not x.is_linop)
    return FALSE


@op("torch.no_grad", "torch.enable_grad")
def _no_grad(it, ctx, a, k):
    class _NG(V):
        kind = "ctxmgr"

        def py_getattr(self, it, ctx, name):
            if name in ("__enter__", "__exit__"):
                return VBuiltin(name, lambda it, ctx, a, k: NONE)
            raise Undecided("no_grad." + name)

    return _NG()


def _fn_from_method(name):
    def f(it, ctx, a, k):
        t = as_tensor(a[0])
        if t is None:
            raise Undecided(f"torch.{name} of {a[0].kind}")
        return E.METHODS[name](t, it, ctx, list(a[1:]), k)

    return f


for _n in ("exp", "log", "sqrt", "sin", "cos", "tanh", "sigmoid", "abs", "neg", "square", "clamp", "clamp_min", "clamp_max",
           "sum", "mean", "transpose", "unsqueeze", "squeeze", "reshape", "permute", "diagonal", "pow", "add", "sub", "mul",
           "div", "log1p", "expm1", "erf", "rsqrt", "reciprocal", "any", "all", "numel", "isnan", "flatten", "lt", "gt", "le", "ge",
           "eq", "ne", "masked_fill", "nan_to_num"):
    T["torch." + _n] = _fn_from_method(_n)


# ============================================================================ linear_operator ==
def _linop(t, cls):
    r = t.copy(is_linop=True, linop_class=cls)
    return r


@op("linear_operator.to_linear_operator", "linear_operator.operators.to_linear_operator")
def _to_linop(it, ctx, a, k):
    t = a[0]
    if isinstance(t, VTensor):
        return t if t.is_linop else _linop(t, "DenseLinearOperator")
    raise Undecided("to_linear_operator of " + t.kind)


@op("linear_operator.to_dense", "linear_operator.operators.to_dense")
def _to_dense(it, ctx, a, k):
    t = a[0]
    if isinstance(t, VTensor):
        return t.copy(is_linop=False, linop_class=None)
    raise Undecided("to_dense of " + t.kind)


@op("linear_operator.operators.DiagLinearOperator")
def _DiagLO(it, ctx, a, k):
    d = a[0] if a else k["diag"]
    if len(d.dims) == 0:
        # linear_operator accepts a 0-d "diagonal": the operator is then the 0-d value itself
        return _linop(d, "DiagLinearOperator")
    return _linop(E.diag_embed(ctx, d), "DiagLinearOperator")


@op("linear_operator.operators.DenseLinearOperator")
def _DenseLO(it, ctx, a, k):
    return _linop(a[0], "DenseLinearOperator")


@op("linear_operator.operators.BlockInterleavedLinearOperator")
def _BlockInterleaved(it, ctx, a, k):
    """base: ... x t x ... x n x n with block dim `block_dim` -> ... x (n t) x (n t), entry
    [(i, a), (j, b)] = delta_ab * base[..., a, ..., i, j]   (row index i*t + a)"""
    base = a[0]
    bd = k.get("block_dim", a[1] if len(a) > 1 else VNum(-3))
    return _block(ctx, base, bd, interleaved=True)


@op("linear_operator.operators.BlockDiagLinearOperator")
def _BlockDiag(it, ctx, a, k):
    """entry [(a, i), (b, j)] = delta_ab * base[..., a, ..., i, j]   (row index a*n + i)"""
    base = a[0]
    bd = k.get("block_dim", a[1] if len(a) > 1 else VNum(-3))
    return _block(ctx, base, bd, interleaved=False)


def _block(ctx, base, bd, interleaved):
    c = bd.concrete()
    nb = len(base.dims) - 2
    # linear_operator: a non-negative block_dim is relative to the batch shape; negative counts from the end incl. matrix dims
    p = c if c >= 0 else c + len(base.dims)
    if not (0 <= p < nb):
        raise PyRaise(VExc("RuntimeError", "block_dim out of range"))
    for q in range(len(base.dims)):
        base = E.flatten_dim(base, q)
    t = base.dims[p].size
    n1, n2 = base.dims[-2].size, base.dims[-1].size
    lead = [d for i, d in enumerate(base.dims[:-2]) if i != p]
    nl = len(lead)
    if interleaved:
        rd, cd = Dim([n1, t]), Dim([n2, t])
    else:
        rd, cd = Dim([t, n1]), Dim([t, n2])

    def elem(idx):
        l = idx[:nl]
        if interleaved:
            i, ta, j, tb = idx[nl], idx[nl + 1], idx[nl + 2], idx[nl + 3]
        else:
            ta, i, tb, j = idx[nl], idx[nl + 1], idx[nl + 2], idx[nl + 3]
        old = l[:p] + [ta] + l[p:] + [i, j]
        v = base.elem(old)
        return z3.If(ta == tb, v, z3.RealVal(0) if z3.is_real(v) else z3.IntVal(0))

    return VTensor(lead + [rd, cd], elem, base.sort, True, linop_class="BlockInterleavedLinearOperator" if interleaved else "BlockDiagLinearOperator")


@op("linear_operator.operators.CatLinearOperator")
def _CatLO(it, ctx, a, k):
    dim = k.get("dim", VNum(0)).concrete()
    r = E.cat(ctx, list(a), dim)
    r.is_linop = True
    r.linop_class = "CatLinearOperator"
    return r


T["linear_operator.LinearOperator"] = VExtClass("linear_operator.LinearOperator")
T["linear_operator.operators.LinearOperator"] = VExtClass("linear_operator.operators.LinearOperator")
T["torch.Tensor"] = VExtClass("torch.Tensor")


# ============================================================================ torch.distributions
def _prop(f):
    f.is_property = True
    return f


@op("torch.distributions.Distribution.__init__")
def _dist_init(it, ctx, a, k):
    self = a[0]
    bs = a[1] if len(a) > 1 else k.get("batch_shape", VTuple([], True))
    es = a[2] if len(a) > 2 else k.get("event_shape", VTuple([], True))
    self.fields["_batch_shape"] = bs
    self.fields["_event_shape"] = es
    return NONE


T["torch.distributions.Distribution.batch_shape"] = _prop(lambda it, ctx, a, k: a[0].fields["_batch_shape"])
T["torch.distributions.Distribution.event_shape"] = _prop(lambda it, ctx, a, k: a[0].fields["_event_shape"])
T["torch.distributions.MultivariateNormal.mean"] = _prop(lambda it, ctx, a, k: a[0].fields["loc"])


@op("torch.distributions.MultivariateNormal.__init__")
def _tmvn_init(it, ctx, a, k):
    """dense (non-lazy) branch: loc, covariance_matrix | scale_tril"""
    self = a[0]
    loc = a[1] if len(a) > 1 else k["loc"]
    cov = a[2] if len(a) > 2 else k.get("covariance_matrix", NONE)
    st = k.get("scale_tril", NONE)
    if cov is NONE and st is NONE:
        raise Undecided("torch MVN constructed without covariance / scale_tril")
    mat = cov if cov is not NONE else st
    bs = _broadcast_shapes(it, ctx, [VTuple(loc.shape_tuple().items[:-1]), VTuple(mat.shape_tuple().items[:-2])], {})
    self.fields["loc"] = E.expand(ctx, loc, [x.t for x in bs.items] + [loc.dims[-1].size])
    if cov is not NONE:
        self.fields["covariance_matrix"] = E.expand(ctx, cov, [x.t for x in bs.items] + [cov.dims[-2].size, cov.dims[-1].size])
    self.fields["_batch_shape"] = bs
    self.fields["_event_shape"] = VTuple(loc.shape_tuple().items[-1:], True)
    self.fields["_validate_args"] = FALSE
    return NONE


T["torch.distributions.MultivariateNormal.covariance_matrix"] = _prop(lambda it, ctx, a, k: a[0].fields["covariance_matrix"])


@op("torch.distributions.MultivariateNormal.variance")
def _tmvn_variance(it, ctx, a, k):
    return E.diagonal(ctx, a[0].fields["covariance_matrix"], -2, -1).copy(view_of=None)


_tmvn_variance.is_property = True


# ============================================================================ misc torch =========
INF = z3.Real("INF")  # +infinity of the float format: larger than every finite value that is introduced


def inf(ctx):
    if ctx is not None and not ctx.ghost.get("inf_bounded"):
        ctx.ghost["inf_bounded"] = True
        ctx.add_axiom(INF > z3.RealVal("1e30"), "inf exceeds every literal constant of the code (> 1e30)")
    return INF


@op("torch.get_default_dtype")
def _get_default_dtype(it, ctx, a, k):
    return VAtom("torch.float")


def _inf_aware_tensor(it, ctx, a, k):
    x = a[0]
    if isinstance(x, VAtom) and x.name.startswith("float:"):
        t = {"float:inf": inf(ctx), "float:-inf": -inf(ctx)}.get(x.name)
        if t is None:
            raise Undecided("nan constant")
        return E.scalar(t)
    return _tensor(it, ctx, a, k)


T["torch.as_tensor"] = _inf_aware_tensor
T["torch.tensor"] = _inf_aware_tensor


def _reduce_all(name):
    def f(it, ctx, a, k):
        t = as_tensor(a[0])
        if len(a) > 1 and isinstance(a[1], VTensor):
            # binary elementwise max / min
            if name == "max":
                return E.pointwise(ctx, [t, a[1]], lambda x, y: z3.If(E.coerce_pair(x, y)[0] >= E.coerce_pair(x, y)[1], *E.coerce_pair(x, y)))
            return E.pointwise(ctx, [t, a[1]], lambda x, y: z3.If(E.coerce_pair(x, y)[0] <= E.coerce_pair(x, y)[1], *E.coerce_pair(x, y)))
        if t.natoms() == 0 or all(d.is_one() for d in t.dims):
            return E.scalar(t.elem([z3.IntVal(0)] * t.natoms()))
        raise Undecided(f"torch.{name} over a symbolic-size tensor")

    return f


T["torch.max"] = _reduce_all("max")
T["torch.min"] = _reduce_all("min")
T["torch.maximum"] = _reduce_all("max")
T["torch.minimum"] = _reduce_all("min")
T["math.inf"] = VNum(INF)
T["torch.inf"] = VNum(INF)


# ============================================================================ real scalars / math ==
def _real_fn(name):
    def f(it, ctx, a, k):
        from . import dom_real
        x = a[0]
        if isinstance(x, VNum):
            return VNum(dom_real.apply(ctx, name, x.real()))
        if isinstance(x, VTensor):
            return E.METHODS[name](x, it, ctx, [], {})
        raise Undecided(f"math.{name} of {x.kind}")

    return f


for _n in ("exp", "log", "sqrt", "sin", "cos", "tanh", "erf", "log1p", "expm1"):
    T["real." + _n] = _real_fn(_n)
    T["math." + _n] = _real_fn(_n)


@op("math.pow")
def _mpow(it, ctx, a, k):
    from . import dom_real
    return VNum(dom_real.power(ctx, a[0].real(), a[1].real()))


# ============================================================================ torch.distributions.Normal
class VNormal(V):
    """torch.distributions.Normal(loc, scale): documented elementwise log density"""

    kind = "Normal"

    def __init__(self, loc, scale):
        self.loc, self.scale = as_tensor(loc), as_tensor(scale)

    def isinstance_of(self, name):
        return name.split(".")[-1] in ("Normal", "Distribution", "NormalPrior", "Prior")

    def py_getattr(self, it, ctx, name):
        if name in ("loc", "mean"):
            return self.loc
        if name in ("scale", "stddev"):
            return self.scale
        if name == "variance":
            return E.pointwise(ctx, [self.scale], lambda s: s * s)
        if name == "log_prob":
            return VBuiltin("Normal.log_prob", self.log_prob)
        if name in ("batch_shape",):
            dims, _ = E.broadcast_dims(ctx, [self.loc, self.scale])
            return VTuple([VNum(d.size) for d in dims], is_size=True)
        if name == "cdf":
            def cdf(it_, ctx_, a, k):
                from . import dom_real
                return E.pointwise(ctx_, [as_tensor(a[0]), self.loc, self.scale],
                                   lambda x, m, s: dom_real.apply(ctx_, "Phi", dom_real.rdiv(ctx_, E.to_real(x) - E.to_real(m), E.to_real(s))), sort="real")
            return VBuiltin("Normal.cdf", cdf)
        raise Undecided(f"Normal.{name}")

    def log_prob(self, it, ctx, a, k):
        from . import dom_real
        x = as_tensor(a[0])
        half_log_2pi = dom_real.apply(ctx, "log", dom_real.apply(ctx, "sqrt", 2 * dom_real.pi(ctx)))
        return E.pointwise(ctx, [x, self.loc, self.scale],
                           lambda xv, m, s: -dom_real.rdiv(ctx, (E.to_real(xv) - E.to_real(m)) * (E.to_real(xv) - E.to_real(m)), 2 * E.to_real(s) * E.to_real(s))
                           - dom_real.apply(ctx, "log", E.to_real(s)) - half_log_2pi, sort="real")


@op("torch.distributions.Normal", "torch.distributions.normal.Normal")
def _Normal(it, ctx, a, k):
    loc = a[0] if a else k["loc"]
    scale = a[1] if len(a) > 1 else k["scale"]
    return VNormal(loc, scale)


# ============================================================================ more linear operators ==
@op("linear_operator.operators.ConstantDiagLinearOperator")
def _ConstDiag(it, ctx, a, k):
    """diag_values: (..., 1); diag_shape n  ->  (..., n, n) with value on the diagonal"""
    dv = a[0] if a else k["diag_values"]
    n = k.get("diag_shape", a[1] if len(a) > 1 else None)
    n = _int_term(n)
    if len(dv.dims) == 0 or not E._dim_is_one(ctx, dv.dims[-1]):
        raise PyRaise(VExc("ValueError", "diag_values must have last dimension 1"))
    dv = dv.frozen()
    lead = dv.dims[:-1]
    nl = sum(len(d.atoms) for d in lead)

    def elem(idx):
        i, j = idx[nl], idx[nl + 1]
        v = dv.elem(idx[:nl] + [z3.IntVal(0)])
        return z3.If(i == j, E.to_real(v), z3.RealVal(0))

    return VTensor(lead + [Dim([n]), Dim([n])], elem, "real", True, linop_class="ConstantDiagLinearOperator")


class VZeroLinop(V):
    """ZeroLinearOperator() without sizes: the additive identity"""

    kind = "zerolinop"
    is_linop = True

    def isinstance_of(self, name):
        return name.split(".")[-1] in ("ZeroLinearOperator", "LinearOperator")

    def py_binop(self, it, ctx, op, other, reflected):
        if op == "+":
            return other
        if op == "-" and reflected:
            return other
        return NotImplemented

    def py_getattr(self, it, ctx, name):
        if name in ("evaluate_kernel", "to_dense"):
            return VBuiltin(name, lambda it, ctx, a, k: self)
        raise Undecided(f"ZeroLinearOperator.{name}")

    def describe(self):
        return "ZeroLinearOperator()"


@op("linear_operator.operators.ZeroLinearOperator")
def _Zero(it, ctx, a, k):
    if not a:
        return VZeroLinop()
    sizes = [_int_term(x) for x in a]
    return VTensor([Dim([s]) for s in sizes], lambda idx: z3.RealVal(0), "real", True, linop_class="ZeroLinearOperator")


def _kron(ctx, A, B, cls):
    A, B = A.frozen(), B.frozen()
    for t in (A, B):
        for p in (len(t.dims) - 2, len(t.dims) - 1):
            pass
    A2 = E.flatten_dim(E.flatten_dim(A, len(A.dims) - 1), len(A.dims) - 2)
    B2 = E.flatten_dim(E.flatten_dim(B, len(B.dims) - 1), len(B.dims) - 2)
    ab = VTensor(A2.dims[:-2], lambda idx: z3.IntVal(0), "int")
    bb = VTensor(B2.dims[:-2], lambda idx: z3.IntVal(0), "int")
    if A2.dims[:-2] or B2.dims[:-2]:
        bdims, maps = E.broadcast_dims(ctx, [ab, bb])
    else:
        bdims, maps = [], [[], []]
    nb = sum(len(d.atoms) for d in bdims)
    ra, ca = A2.dims[-2].size, A2.dims[-1].size
    rb, cb = B2.dims[-2].size, B2.dims[-1].size

    def bidx(t_dims, mp, per_dim):
        off = len(bdims) - len(t_dims)
        out = []
        for di, d in enumerate(t_dims):
            how = mp[off + di]
            if how == "same":
                out.extend(per_dim[off + di])
            elif how == "reflat":
                out.append(E.flat_index(bdims[off + di].atoms, per_dim[off + di]))
            else:
                out.extend([z3.IntVal(0)] * len(d.atoms))
        return out

    def elem(idx):
        per_dim = []
        p = 0
        for d in bdims:
            per_dim.append(idx[p: p + len(d.atoms)])
            p += len(d.atoms)
        i, a_, j, c_ = idx[nb], idx[nb + 1], idx[nb + 2], idx[nb + 3]
        av = A2.elem(bidx(A2.dims[:-2], maps[0], per_dim) + [i, j])
        bv = B2.elem(bidx(B2.dims[:-2], maps[1], per_dim) + [a_, c_])
        return E.to_real(av) * E.to_real(bv)

    return VTensor(bdims + [Dim([ra, rb]), Dim([ca, cb])], elem, "real", True, linop_class=cls)


@op("linear_operator.operators.KroneckerProductLinearOperator")
def _KronLO(it, ctx, a, k):
    if len(a) != 2:
        raise Undecided("Kronecker product of other than two factors")
    return _kron(ctx, a[0], a[1], "KroneckerProductLinearOperator")


@op("linear_operator.operators.KroneckerProductDiagLinearOperator")
def _KronDiagLO(it, ctx, a, k):
    if len(a) != 2:
        raise Undecided("Kronecker product of other than two factors")
    return _kron(ctx, a[0], a[1], "KroneckerProductDiagLinearOperator")


@op("linear_operator.operators.RootLinearOperator")
def _RootLO(it, ctx, a, k):
    F = a[0]
    r = E.matmul(ctx, F, E.transpose(ctx, F, -2, -1))
    r.is_linop = True
    r.linop_class = "RootLinearOperator"
    r.meta["root"] = F
    return r


_rand_counter = [0]


@op("torch.randn", "torch.rand", "torch.randn_like", "torch.rand_like")
def _randn(it, ctx, a, k):
    """random initial values: an arbitrary tensor of the requested shape"""
    _rand_counter[0] += 1
    if a and isinstance(a[0], VTensor):
        sizes = [d.size for d in a[0].dims]
    else:
        sizes = E._shape_args(it, ctx, a)
    return E.sym_tensor(f"rand{_rand_counter[0]}", sizes)


# ============================================================================ linear-algebra functionals ==
# solves / log-determinants / decompositions are *uninterpreted functionals of the dense matrix* (DESIGN section 4:
# CG, Lanczos and Cholesky all satisfy the exact contracts).  A matrix argument is passed to the functional as the z3
# lambda  (i, j) -> entry, a vector as  i -> entry, so two calls on extensionally identical operands are the same term.
_MAT = z3.ArraySort(z3.IntSort(), z3.ArraySort(z3.IntSort(), z3.RealSort()))
_VEC = z3.ArraySort(z3.IntSort(), z3.RealSort())
INVQUAD = z3.Function("INVQUAD", _MAT, _VEC, z3.IntSort(), z3.RealSort())   # v^T A^{-1} v   (A: n x n)
LOGDET = z3.Function("LOGDET", _MAT, z3.IntSort(), z3.RealSort())           # log det A
CHOL = z3.Function("CHOL", _MAT, z3.IntSort(), z3.IntSort(), z3.IntSort(), z3.RealSort())  # lower Cholesky factor entry (i, j)


def mat_lambda(t, lead_idx):
    """the trailing two dims of tensor t at leading index lead_idx, as a z3 (Int -> Int -> Real) lambda"""
    i, j = z3.Int("mi!"), z3.Int("mj!")
    body = E.to_real(t.at_dims(list(lead_idx) + [i, j]))
    return z3.Lambda([i], z3.Lambda([j], body))


def vec_lambda(t, lead_idx, col=None):
    i = z3.Int("vi!")
    body = E.to_real(t.at_dims(list(lead_idx) + [i] + ([col] if col is not None else [])))
    return z3.Lambda([i], body)


def _lead_maps(ctx, A, R, a_lead, r_lead):
    """broadcast the leading (batch) dims of a matrix-like A and a rhs R"""
    da = VTensor(A.dims[:a_lead], lambda idx: z3.IntVal(0), "int")
    dr = VTensor(R.dims[:r_lead], lambda idx: z3.IntVal(0), "int")
    if A.dims[:a_lead] or R.dims[:r_lead]:
        dims, maps = E.broadcast_dims(ctx, [da, dr])
    else:
        dims, maps = [], [[], []]
    return dims, maps


def _pick(dims, t_dims, mp, idx):
    per_dim, p = [], 0
    for d in dims:
        per_dim.append(idx[p: p + len(d.atoms)])
        p += len(d.atoms)
    off = len(dims) - len(t_dims)
    out = []
    for di, d in enumerate(t_dims):
        how = mp[off + di]
        if how == "same":
            out.append(per_dim[off + di] if len(d.atoms) > 1 else per_dim[off + di][0])
        elif how == "reflat":
            out.append(E.flat_index(dims[off + di].atoms, per_dim[off + di]))
        else:
            out.append(z3.IntVal(0))
    return out


def m_inv_quad_logdet(t, it, ctx, a, k):
    rhs = k.get("inv_quad_rhs", a[0] if a else NONE)
    want_ld = k.get("logdet", a[1] if len(a) > 1 else FALSE)
    want_ld = isinstance(want_ld, VBool) and want_ld.concrete() is True
    A = t.frozen()
    n = A.dims[-1].size
    iq = NONE
    if rhs is not NONE:
        R = rhs.frozen()
        if not E.same_extent(ctx, R.dims[-2].size, n):
            if not ctx.branch(R.dims[-2].size == n):
                raise PyRaise(VExc("RuntimeError", "inv_quad_rhs has the wrong number of rows"))
        dims, maps = _lead_maps(ctx, A, R, len(A.dims) - 2, len(R.dims) - 2)
        kcols = R.dims[-1].size

        def elem(idx):
            ai = _pick(dims, A.dims[:-2], maps[0], idx)
            ri = _pick(dims, R.dims[:-2], maps[1], idx)
            M = mat_lambda(A, ai)
            return E.mk_sum(lambda c: INVQUAD(M, vec_lambda(R, ri, c), n), kcols)

        iq = VTensor(dims, elem, "real")
    ld = NONE
    if want_ld:
        lead = A.dims[:-2]
        ld = VTensor(lead, lambda idx: LOGDET(mat_lambda(A, _regroup_idx(lead, idx)), n), "real")
    return VTuple([iq, ld])


def _regroup_idx(dims, flat_atoms):
    out, p = [], 0
    for d in dims:
        k = len(d.atoms)
        out.append(flat_atoms[p: p + k] if k > 1 else flat_atoms[p])
        p += k
    return out


def m_logdet(t, it, ctx, a, k):
    A = t.frozen()
    lead = A.dims[:-2]
    n = A.dims[-1].size
    return VTensor(lead, lambda idx: LOGDET(mat_lambda(A, _regroup_idx(lead, idx)), n), "real")


def m_cholesky(t, it, ctx, a, k):
    """lower Cholesky factor L (L L^T = A): entries are CHOL(A, n, i, j), zero above the diagonal"""
    A = t.frozen()
    lead = A.dims[:-2]
    n = A.dims[-1].size
    nl = sum(len(d.atoms) for d in lead)
    upper = k.get("upper", FALSE)
    upper = isinstance(upper, VBool) and upper.concrete() is True

    def elem(idx):
        i, j = idx[nl], idx[nl + 1]
        if upper:
            i, j = j, i
        return z3.If(j <= i, CHOL(mat_lambda(A, _regroup_idx(lead, idx[:nl])), n, i, j), z3.RealVal(0))

    r = VTensor(list(A.dims), elem, "real", True, linop_class="TriangularLinearOperator")
    r.meta["chol_of"] = A
    return r


def m_root_decomposition(t, it, ctx, a, k):
    """RootLinearOperator R R^T = A with an exact root (the Cholesky factor is one)"""
    given = t.meta.get("given_root")
    A = t.frozen()
    # a covariance *represented* by a root R (RootLinearOperator(R)) hands out that root, which need not be triangular: only R R^T = A is known
    L = given if given is not None else m_cholesky(A, it, ctx, [], {})
    r = A.copy(is_linop=True, linop_class="RootLinearOperator")
    r.meta["root"] = L
    return r


def _root_attr(t, it, ctx, a, k):
    return t.meta["root"]


E.METHODS.update({"inv_quad_logdet": m_inv_quad_logdet, "logdet": m_logdet, "cholesky": m_cholesky,
                  "root_decomposition": m_root_decomposition})
T["tensor_method.root"] = None
del T["tensor_method.root"]


# ============================================================================ distances / misc ===========
@op("torch.cdist")
def _cdist(it, ctx, a, k):
    """Euclidean distance matrix: cdist(x1, x2)[.., i, j] = sqrt(sum_k (x1[.., i, k] - x2[.., j, k])^2)"""
    from . import dom_real
    x1, x2 = a[0].frozen(), a[1].frozen()
    d = E.pointwise(ctx, [E.unsqueeze(ctx, x1, -2), E.unsqueeze(ctx, x2, -3)], lambda u, v: (E.to_real(u) - E.to_real(v)) * (E.to_real(u) - E.to_real(v)), sort="real")
    s = E.reduce_sum(ctx, d, -1)
    return E.pointwise(ctx, [s], lambda x: dom_real.apply(ctx, "sqrt", x), sort="real")


@op("torch.linalg.norm", "torch.norm")
def _norm(it, ctx, a, k):
    from . import dom_real
    t = a[0].frozen()
    dim = k.get("dim", a[1] if len(a) > 1 else None)
    if dim is None:
        raise Undecided("norm without dim")
    sq = E.pointwise(ctx, [t], lambda x: E.to_real(x) * E.to_real(x), sort="real")
    s = E.reduce_sum(ctx, sq, dim)
    return E.pointwise(ctx, [s], lambda x: dom_real.apply(ctx, "sqrt", x), sort="real")


@op("torch.addmm")
def _addmm(it, ctx, a, k):
    """beta * input + alpha * (mat1 @ mat2)"""
    prod = E.matmul(ctx, a[1], a[2])
    inp = a[0]
    if k.get("alpha") is not None:
        prod = it.binop(ctx, "*", prod, k["alpha"])
    if k.get("beta") is not None:
        inp = it.binop(ctx, "*", inp, k["beta"])
    return it.binop(ctx, "+", inp, prod)


@op("torch.promote_types")
def _promote(it, ctx, a, k):
    return a[0]


@op("linear_operator.operators.MatmulLinearOperator")
def _MatmulLO(it, ctx, a, k):
    r = E.matmul(ctx, a[0], a[1])
    r.is_linop = True
    r.linop_class = "MatmulLinearOperator"
    return r


def _equal_hook(it, ctx, a, k):
    x, y = a
    if x is y or x.meta.get("equal_to") is y or y.meta.get("equal_to") is x:
        return TRUE
    if x.meta.get("distinct_from") is y or y.meta.get("distinct_from") is x:
        return FALSE
    # derived tensors: equal when both were derived by the same operations from equal / identical sources is not
    # tracked -- the contract states which of the two cases (same data / different data) a case covers
    tag_x, tag_y = x.meta.get("equal_class"), y.meta.get("equal_class")
    if tag_x is not None and tag_y is not None:
        return VBool(tag_x == tag_y)
    raise Undecided("torch.equal of tensors whose relation the contract did not fix")


T["hook.torch.equal"] = _equal_hook


# ============================================================================ other univariate torch.distributions
class VDistRecord(V):
    """torch.distributions.{Bernoulli, Laplace, StudentT, Beta}(...): the constructor arguments as given (broadcast lazily) and
    the documented elementwise log density.  Bernoulli (probs) and Laplace are explicit; StudentT and Beta use an uninterpreted
    elementwise function LP_<kind>(x, parameters...) -- obligations about them are constructor-argument equalities."""

    ARGS = {"Bernoulli": ("probs", "logits"), "Laplace": ("loc", "scale"), "StudentT": ("df", "loc", "scale"),
            "Beta": ("concentration1", "concentration0"), "Categorical": ("probs", "logits")}

    def __init__(self, kind, a, k):
        self.kind = kind
        names = self.ARGS[kind]
        self.params = {}
        for p, v in zip(names, a):
            self.params[p] = v
        for n_, v in k.items():
            if n_ in names:
                self.params[n_] = v
            elif n_ != "validate_args":
                raise PyRaise(VExc("TypeError", f"{kind}.__init__() got an unexpected keyword argument '{n_}'"))
        if kind == "StudentT":
            self.params.setdefault("loc", VNum(0.0))
            self.params.setdefault("scale", VNum(1.0))
        if kind in ("Bernoulli", "Categorical") and (("probs" in self.params) == ("logits" in self.params)) and not (self.params.get("logits") is NONE or self.params.get("probs") is NONE):
            raise PyRaise(VExc("ValueError", "Either `probs` or `logits` must be specified, but not both."))
        self.params = {n_: as_tensor(v) for n_, v in self.params.items() if v is not NONE}

    def isinstance_of(self, name):
        return name.split(".")[-1] in (self.kind, "Distribution", "ExponentialFamily")

    def describe(self):
        return f"<{self.kind} distribution>"

    def py_getattr(self, it, ctx, name):
        if name in self.params:
            return self.params[name]
        if name == "log_prob":
            return VBuiltin(f"{self.kind}.log_prob", self.log_prob)
        if name == "mean" and self.kind == "Bernoulli" and "probs" in self.params:
            return self.params["probs"]
        if name == "batch_shape":
            dims, _ = E.broadcast_dims(ctx, list(self.params.values()))
            return VTuple([VNum(d.size) for d in dims], is_size=True)
        raise Undecided(f"{self.kind}.{name}")

    def log_prob(self, it, ctx, a, k):
        from . import dom_real
        x = as_tensor(a[0] if a else k["value"])
        names = [n_ for n_ in self.ARGS[self.kind] if n_ in self.params]
        ts = [x] + [self.params[n_] for n_ in names]
        R = E.to_real
        if self.kind == "Bernoulli" and names == ["probs"]:
            return E.pointwise(ctx, ts, lambda y, p: R(y) * dom_real.apply(ctx, "log", R(p)) + (1 - R(y)) * dom_real.apply(ctx, "log", 1 - R(p)), sort="real")
        if self.kind == "Laplace":
            return E.pointwise(ctx, ts, lambda y, m, b: -dom_real.apply(ctx, "log", 2 * R(b))
                               - dom_real.rdiv(ctx, z3.If(R(y) - R(m) >= 0, R(y) - R(m), R(m) - R(y)), R(b)), sort="real")
        f = z3.Function(f"LP_{self.kind}_" + "_".join(names), *([z3.RealSort()] * (len(ts) + 1)))
        return E.pointwise(ctx, ts, lambda *v: f(*[R(q) for q in v]), sort="real")


for _kind in VDistRecord.ARGS:
    T[f"torch.distributions.{_kind}"] = (lambda kind: (lambda it, ctx, a, k: VDistRecord(kind, a, k)))(_kind)



# ============================================================================ triangular / Cholesky / sum operators (dense meaning)
@op("linear_operator.operators.TriangularLinearOperator")
def _TriLO(it, ctx, a, k):
    """TriangularLinearOperator(T, upper=False): the dense matrix T itself (the caller guarantees triangularity)"""
    r = as_tensor(a[0]).frozen().copy(is_linop=True, linop_class="TriangularLinearOperator")
    r.meta["upper"] = bool(k.get("upper", a[1] if len(a) > 1 else FALSE).concrete()) if isinstance(k.get("upper", a[1] if len(a) > 1 else FALSE), VBool) else False
    return r


@op("linear_operator.operators.CholLinearOperator")
def _CholLO(it, ctx, a, k):
    """CholLinearOperator(L) = L L^T (L lower triangular)"""
    L = a[0]
    r = E.matmul(ctx, L, E.transpose(ctx, L, -2, -1))
    r.is_linop = True
    r.linop_class = "CholLinearOperator"
    r.meta["chol_factor"] = L
    return r


@op("linear_operator.operators.SumLinearOperator")
def _SumLO(it, ctx, a, k):
    r = a[0]
    for x in a[1:]:
        r = it.binop(ctx, "+", r, x)
    r = as_tensor(r).copy(is_linop=True, linop_class="SumLinearOperator")
    return r



@op("linear_operator.operators.InterpolatedLinearOperator")
def _InterpLO(it, ctx, a, k):
    """InterpolatedLinearOperator(base, left_idx, left_vals, right_idx, right_vals) with ONE interpolation point per row and unit values (the
    form IndexKernel uses): entry (i, j) = base[left_idx[i, 0], right_idx[j, 0]]; other forms are outside the supported subset"""
    base = k.get("base_linear_op", a[0] if a else None)
    li = k.get("left_interp_indices", a[1] if len(a) > 1 else None)
    lv = k.get("left_interp_values", a[2] if len(a) > 2 else None)
    ri = k.get("right_interp_indices", a[3] if len(a) > 3 else None)
    rv = k.get("right_interp_values", a[4] if len(a) > 4 else None)
    if lv not in (None, NONE) or rv not in (None, NONE):
        raise Undecided("InterpolatedLinearOperator with interpolation values")
    base, li, ri = as_tensor(base).frozen(), as_tensor(li).frozen(), as_tensor(ri).frozen()
    if not (E._dim_is_one(ctx, li.dims[-1]) and E._dim_is_one(ctx, ri.dims[-1])):
        raise Undecided("InterpolatedLinearOperator with several interpolation points per row")
    nb = len(li.dims) - 2
    lead = li.dims[:nb]
    nl = sum(len(d.atoms) for d in lead)
    bb = len(base.dims) - 2
    T_ = base.dims[-1].size

    def elem(idx):
        b, i, j = list(idx[:nl]), idx[nl], idx[nl + 1]
        r = li.elem(b + [i, z3.IntVal(0)])
        c_ = ri.elem((b if len(ri.dims) - 2 == nb else []) + [j, z3.IntVal(0)])
        ctx.assume(z3.And(r >= 0, r < T_, c_ >= 0, c_ < T_), "interpolation indices are valid positions of the base operator")
        return base.elem((b[len(b) - bb:] if bb else []) + [r, c_])

    return VTensor(lead + [li.dims[-2], ri.dims[-2]], elem, "real", True, linop_class="InterpolatedLinearOperator")



@op("torch.full_like")
def _full_like(it, ctx, a, k):
    t = as_tensor(a[0])
    fv = a[1] if len(a) > 1 else k["fill_value"]
    term = E.to_real(fv.t) if isinstance(fv, VNum) else as_tensor(fv).elem([])
    return E.full(list(t.dims), term)


T["torch.nan"] = VNum(E.NANV)
T["math.nan"] = VNum(E.NANV)


@op("linear_operator.operators.MaskedLinearOperator")
def _MaskedLO(it, ctx, a, k):
    """MaskedLinearOperator(base, row_mask, col_mask) = base[..., row_mask, :][..., :, col_mask], kept IN PLACE: entries outside the masks read 0, so
    products and sums over the masked operator equal those over the compressed one; its visible extents are not modelled (value semantics only)"""
    base, rm, cm = as_tensor(a[0]).frozen(), as_tensor(a[1]).frozen(), as_tensor(a[2]).frozen()
    nl = base.natoms() - 2

    def elem(idx):
        i, j = idx[nl], idx[nl + 1]
        def tb(x):
            return x if z3.is_bool(x) else (x != 0)
        return z3.If(z3.And(tb(rm.elem([i])), tb(cm.elem([j]))), E.to_real(base.elem(idx)), z3.RealVal(0))

    r = VTensor(list(base.dims), elem, "real", True, linop_class="MaskedLinearOperator")
    r.meta["masked_rows_cols"] = (a[1], a[2])
    r.meta["masked_base"] = a[0]
    return r


@op("torch.nn.functional.one_hot")
def _one_hot(it, ctx, a, k):
    """one_hot(t, num_classes)[..., c] = 1 if t[...] == c else 0 (int64); num_classes must be given (the data-dependent default is not modelled)"""
    t = as_tensor(a[0]).frozen()
    nc = a[1] if len(a) > 1 else k.get("num_classes")
    if not isinstance(nc, VNum):
        raise Undecided("one_hot without num_classes")
    na = t.natoms()
    return VTensor(list(t.dims) + [E.Dim([nc.t])], lambda idx: z3.If(t.elem(idx[:na]) == idx[na], z3.IntVal(1), z3.IntVal(0)), "int")


T["string.ascii_lowercase"] = VStr("abcdefghijklmnopqrstuvwxyz")


@op("torch.einsum")
def _einsum(it, ctx, a, k):
    """torch.einsum with a concrete equation; every labelled dimension is made single-index, '...' dims are right-aligned and broadcast (extent 1 reads
    index 0), labels missing from the output are summed (innermost first).  No repeated label within one operand."""
    eq = a[0]
    if not isinstance(eq, VStr):
        raise Undecided("einsum with a non-concrete equation")
    ops = list(a[1].items) if len(a) == 2 and isinstance(a[1], (VList, VTuple)) else list(a[1:])
    s = eq.s.replace(" ", "")
    if "->" not in s:
        raise Undecided("einsum without explicit output")
    lhs, out = s.split("->")
    specs = lhs.split(",")
    if len(specs) != len(ops):
        raise PyRaise(VExc("RuntimeError", "einsum(): more operands were provided than specified in the equation"))
    tens = []
    for sp, t in zip(specs, ops):
        t = as_tensor(t).frozen()
        for p in range(len(t.dims)):
            t = E.flatten_dim(t, p)
        labs = sp.replace("...", "")
        if len(set(labs)) != len(labs):
            raise Undecided("einsum with a repeated label in one operand")
        nell = len(t.dims) - len(labs)
        if nell < 0 or (nell > 0 and "..." not in sp):
            raise PyRaise(VExc("RuntimeError", "einsum(): the number of subscripts does not match the number of dimensions"))
        pos = sp.index("...") if "..." in sp else None
        # per dim: ("L", label) | ("E", k-th ellipsis dim from the right)
        pre = sp[:pos] if pos is not None else sp
        post = sp[pos + 3:] if pos is not None else ""
        order = [("L", ch) for ch in pre] + [("E", nell - 1 - q) for q in range(nell)] + [("L", ch) for ch in post]
        tens.append((t, order))
    # extents
    ext = {}
    ell = {}
    for t, order in tens:
        for d, (kind, key) in zip(t.dims, order):
            tgt = ext if kind == "L" else ell
            if key not in tgt or E.is_one(ctx, tgt[key]):
                tgt[key] = d.size
    out_labs = out.replace("...", "")
    nell_out = max(ell) + 1 if ell else 0
    if ell and "..." not in out:
        raise Undecided("einsum summing over the ellipsis dimensions")
    opos = out.index("...") if "..." in out else len(out)
    oorder = [("L", ch) for ch in out[:opos]] + [("E", nell_out - 1 - q) for q in range(nell_out)] + [("L", ch) for ch in out[opos + 3:]] if "..." in out else [("L", ch) for ch in out]
    summed = [ch for ch in ext if ch not in out_labs]
    odims = [Dim([ext[key] if kind == "L" else ell[key]]) for kind, key in oorder]
    real = any(t.sort == "real" for t, _ in tens)

    def elem(idx):
        env = {kk: v for kk, v in zip(oorder, idx)}

        def prod(env2):
            r = None
            for t, order in tens:
                ix = []
                for d, kk in zip(t.dims, order):
                    ix.append(z3.IntVal(0) if (E.is_one(ctx, d.size) and not (kk[0] == "L" and E.is_one(ctx, ext[kk[1]]))) else env2[kk])
                v = t.elem(ix)
                v = E.to_real(v) if real else v
                r = v if r is None else r * v
            return r

        def rec(rem, env2):
            if not rem:
                return prod(env2)
            ch = rem[0]
            return E.mk_sum(lambda kx: rec(rem[1:], {**env2, ("L", ch): kx}), ext[ch])

        return rec(summed, env)

    return VTensor(odims, elem, "real" if real else "int")


@op("pickle.dumps")
def _pickle_dumps(it, ctx, a, k):
    """only used as a cache-key component by gpytorch.utils.memoize: a canonical string for a dict of keyword arguments (empty in every modelled call)"""
    x = a[0]
    if isinstance(x, VDict) and not x.d:
        return VStr("pickle:{}")
    raise Undecided("pickle.dumps of a non-empty object")


@op("linear_operator.operators.LowRankRootLinearOperator")
def _LowRankRootLO(it, ctx, a, k):
    r = _RootLO(it, ctx, a, k)
    r.linop_class = "LowRankRootLinearOperator"
    return r


@op("linear_operator.operators.LowRankRootAddedDiagLinearOperator")
def _LowRankRootAddedDiagLO(it, ctx, a, k):
    r = as_tensor(it.binop(ctx, "+", a[0], a[1])).copy(is_linop=True, linop_class="LowRankRootAddedDiagLinearOperator")
    return r
